"""C13 -- state grids are well formed and refinement nests them: correspondence + implementation oracle."""
import json
import math
import random
import warnings
from fractions import Fraction as Fr

import numpy as np

from common import qlit, natlit, blit, lst, tup, opt, coq_bad_indices, coq_eval_file, CoqError

PROP = "C13"
PROPERTY_FILE = "Properties/C13.v"
GEN_DEPS = ["GenTieChain"]
RULE = ("cases: create_from_fixed_nb_of_points (dyadic h, nb 0..60, dim 1..3), CTMCCredit (dim 1..3, symmetric or not, dyadic "
        "thresholds incl. rejected ones, dyadic truncation bounds injected for the root search), refine^n (n<=6) of random dyadic "
        "admissible axes and of constructor outputs with shared/per-axis storage and aliases of origin_coordinate taken before "
        "refine; CTMCUniformGrid.__init__ dim 1..3 with injected dyadic bounds and dyadic linspace step (exact, incl. rejected "
        "int(|l|/h) < 2); CTMCGridGeometric.__init__ (LevyModel / LevyCopulaModel / LevyDrivenSDEModel) and create_with_bounds, "
        "dim 1..3, nb 0..10, bounds with rational common ratios incl. rejected ratios <= 1 (1e-12); np.geomspace states of real-model "
        "and random-bound geometric grids against the R model (interval lemmas, 1e-12); oracle stream: every constructor (uniform, "
        "fixed, geometric, with-bounds, probability-step dim 1..3, credit) on step and real models; heavy-tailed models "
        "(CGMY/HEM/Merton/VG with slow tails, p up to 0.999999): refusal or promised tail by closed-form mpmath tails; "
        "LevyDrivenSDEModel branch of compute_truncation (dim 1..3) against its driver; wave 6: compute_right_axis / compute_left_axis "
        "(+ CTMCGridProbabilityStep on top) on constant-density measures on [-A, A] (exhaustion + except branches), random dyadic step "
        "measures and HEM / Merton models, against the loop model with recorded (table) or Coq-defined (linear) oracles; wave 7: both "
        "geometric constructors with h <= 0 / nan (audit witness h=-1, (-5,3), nb=3; random bounds dim 1..3; real HEM model and its SDE "
        "wrapper through the real root search; rational-ratio bounds incl. ratios < 1) must refuse with the guard ValueError; regular "
        "states of compute_right_axis (constant density, HEM) against ps_axis with the closed-form root (interval lemmas).  "
        "non-trivial = distinct case with >= 2 states on a side or >= 1 refinement.  "
        "TIE spot check (wave 8): the generated TIE definitions are spot-checked against the running Python on every run -- groups dispatch_c1d (left_point / right_point / grid[position] on real Coordinate1D objects), dispatch_nd2 (left_point / right_point / middle on real CoordinateND objects of two-axis grids with axes of unequal lengths, incl. the origin on the last point of a shorter first axis), q_vector and intensity_1d of harness/tie_selftest.py (12 cases each, kind tie_spot): the GenTieChain definitions evaluated by vm_compute against the real CTMCGrid methods and create_q_vector / compute_intensity_of_jumps, dyadic axes, exact")
MODELLED = ["wave 8: CTMCGridProbabilityStep argument guards: minimum_probability_step > 0 (probstep_ctor; /repo be7f020) and float half axes for an int h "
            "(np.insert(axis, 0, v) = v :: axis holds for float arrays only; /repo c939deb; the harness now also passes Python-int h); NOT evaluated by any "
            "case: ps_axis on the left side, CTMCGridProbabilityStep.middle's fall-backs",
            "numpy arrays as lists of Q (lists of R for np.geomspace axes with arbitrary real bounds); np.insert/np.concatenate/list "
            "comprehension semantics (tied by exact correspondence)",
            "np.linspace as start + i*(stop-start)/(num-1) over Q: tied EXACTLY on dyadic bounds/steps (uniform_exact group, dim 1-3) "
            "and within 1e-12 on root-found bounds; int(x) as floor of the exact quotient (cases where the float division rounds "
            "across an integer are decided exactly and counted, none met)",
            "np.geomspace as start*(stop/start)^(i/(num-1)): over R for every real bound (gs_point = a*exp(i/m*ln(b/a)); tied by "
            "interval-arithmetic lemmas, 1e-12, on real-model and random bounds) and over Q for bounds with a rational common ratio "
            "(tied by vm_compute, 1e-12; end points, -h, 0, h, origin index, truncations exactly); C13_geometric_axis_Q2R links the two",
            "root finders (brentq, xtol 1e-10) and quadrature are NOT modelled: truncation bounds are inputs of the model; ps_axis is the "
            "probability-step right half axis that the root finder's SPECIFICATION would give (F strictly increasing, F(root x p) - F x = p "
            "while F x + p <= M): wave 7: tied to the loop model by a theorem (C13_probstep_loop_regular_is_ps_axis) and to the code by "
            "interval lemmas with closed-form roots (constant density 1e-9 on every regular state, HEM 1e-7 on the first two); CTMCGridProbabilityStep.middle (xi == 0 / xip == 0 "
            "shortcuts, p == 0 and out-of-bracket fall-backs to the arithmetic mean, brentq inside the gap) is NOT modelled: ps_middle is its "
            "specification away from the origin, the implementation's middle is oracle-checked on every refined grid",
            "wave 7: CTMCGridGeometric's guard `h > 0` (F-C13-7 repaired, /repo b517e80) is inside both geometric models (Q and R), checked "
            "in the code's order (nb, h, bounds); compared on rejected arguments by vm_compute (geomq group, h in {-1, -1/4, 0})",
            "Coordinates.__imul__ (in-place doubling): one mutable cell g_o; aliases checked by the correspondence",
            "wave 6: CTMCGrid.left_point / right_point (int variant) and CTMCGrid.middle(float, float) are REGENERATED from "
            "rpylib/grid/spatial.py on every run (py2coq loop plug-in, Gen/GenTieChain.v) and linked to the hand models Model/Grid.v "
            "left_point / right_point / amid by theorems (C13_gen_*_is_model, proofs in Proofs/Tie_Chain.v); the n-level refinement theorem "
            "is restated for the generated middle (C13_gen_middle_refine_n)",
            "wave 6: the `while True` loops of compute_right_axis and compute_left_axis with every branch (exhaustion exit and its "
            "extrapolated last point, try branch, bare-except branch incl. first-root-found/second-raised, np.append / np.insert(.,0,.) / "
            "[1:] / [:-1]) and the assembly of CTMCGridProbabilityStep.__init__: Model/ProbStepLoop.v, over Q, with the quadrature test "
            "and the root finder as ARBITRARY oracle functions (root x = None: the call raised) and a fuel for `while True`; tied by "
            "vm_compute on recorded oracle answers (any measure, 1e-12) and on Coq-defined oracles (constant density, 1e-9)",
            "TIE spot check (wave 8): the generated TIE definitions are spot-checked against the running Python on every run (correspond -> tie_selftest.selftest_spotchecks on the GenTie modules of GEN_DEPS: the functions are called on real CTMCGrid / Coordinate objects, so the singledispatch variant actually taken, CTMCGrid.__init__ and other caller-visible edits the translator cannot see are exercised); a disagreement is a broken obligation 'correspondence TIE <group>'"]
ASSUMPTIONS = ["grid.middle returns a point strictly inside a gap, and x/2 next to the origin (hypotheses mid_between, mid_left0, "
               "mid_right0): proved for CTMCGrid.middle (C13_amid_ok); for CTMCGridProbabilityStep.middle checked by the oracle on "
               "every refined grid (brentq bracket), not proved",
               "truncation bounds are inputs of the model (root finders are not modelled); their promised tail probability is "
               "monitored on the implementation twice: with the model's own integrate and with closed-form tails (mpmath) that do "
               "not use /repo, incl. heavy-tailed regimes where the constructor must refuse or deliver",
               "C13_probstep_gaps_spec / C13_probstep_refine_spec ASSUME the root finder's specification (exact root, strictly increasing "
               "cumulative jump probability) -- they are corollaries of that specification, not statements about brentq; on the "
               "implementation the per-gap probability p (and p/2 after one refine) is monitored within 1e-6 and the regular states are "
               "compared with ps_axis under closed-form roots (constant density, HEM)",
               "C13_probstep_loop_regular_is_ps_axis assumes that a returned root lies beyond the bracket end, that a refusal is monotone "
               "along the axis, and that the real root function agrees with the loop's oracle on the searches performed",
               "C13_probstep_right_loop / _left_loop / _ctor_admissible assume of the root finder only that a returned root lies strictly "
               "beyond the bracket end it started from (monitored on every recorded root search: histogram probloop_root_beyond_bracket_end), "
               "and that the loop terminates (fuel).  The hypothesis is NOT discharged for brentq and is false for minimum_probability_step = 0 "
               "(f(a) = 0: brentq returns its end) -- an input the repaired constructor refuses (F-C13-9).  C13_probstep_right_shape_spec / "
               "_left_shape_spec additionally assume the root SPECIFICATION F(root x) - F x == q and that a refusal is monotone along the axis "
               "(bracket [x, 100] resp. [-100, x]); both are discharged for the constant-density oracles of the Example only",
               "C13_probstep_nonpositive_p_never_returns_before_repair assumes 0 <= pleft (a probability); C13_probstep_ctor_guarded the root-beyond-"
               "the-bracket-end hypothesis and termination",
               "Coq standard-library real-number axioms (classical reals, functional extensionality) for the R theorems"]
THEOREM_NOTES = {
    "C13_fixed_admissible": "for the repaired constructor (ValueError for nb_of_points < 2, commit 'fix: create_from_fixed_nb_of_points ...' on fix-grid)",
    "C13_credit_admissible": "for the repaired constructor (ValueError unless every axis is strictly increasing, commit 'fix: CTMCCredit accepted ...' on fix-grid)",
    "C13_uniform_admissible": "for the repaired constructor (ValueError unless int(|l|/h) >= 2 and int(r/h) >= 2: fix-grid + fix-grid2); both end "
                              "points are the truncation bounds; linspace modelled as its mathematical sequence, tied exactly on dyadic steps and with "
                              "tolerance 1e-12 otherwise; int() as floor",
    "C13_uniform_grid_wf / C13_uniform_refine_n": "the grid object of CTMCUniformGrid (any dimension: one shared axis) and any number of refinements of it",
    "C13_geometric_admissible / _guards_suffice / _grid_wf / _refine_n": "Q model: truncation bounds with rational common ratios l = -h*ql^(nb-1), r = h*qr^(nb-1) "
                              "(ql, qr are witnesses, not computed by the code); guards nb >= 2, h > 0, l < -h, h < r as in the REPAIRED code (wave 7: "
                              "F-C13-7, /repo b517e80 = fix-w7-c13 6054689); no hypothesis on the argument h is left, 0 < h is a conclusion",
    "C13_geometric_admissible_R / _guards_suffice_R / _rejects_R / C13_geomspace_R_axis / C13_geometric_refine_n_R": "R model: EVERY real l, h, r, nb; np.geomspace as "
                              "a*exp(i/(n-1)*ln(b/a)) (numpy: sign*10^(log10|a| + i*step), end points overwritten: mathematically equal, tied to 1e-12); "
                              "wave 7 (audit 4 D4): _guards_suffice_R lacked 0 < h and was true of the model only (the unrepaired code returned "
                              "[-5, nan, 1, 0, -1, nan, 3] for h = -1, bounds (-5, 3), nb = 3; h = 0 escaped with numpy's ValueError): the constructors "
                              "now refuse h <= 0, the model has the guard, _guards_suffice_R has 0 < h, _admissible_R has no hypothesis at all and "
                              "_rejects_R states that each violated guard makes the constructor refuse (driven on the implementation: histogram "
                              "geometric_h_nonpositive, incl. nan)",
    "C13_refine_n_R / C13_refine_step_R": "CTMCGrid.refine with the arithmetic-mean middle on real axes (R twins of C13_refine_n_axis_admissible / C13_refine_nests)",
    "C13_probstep_gaps_spec / C13_probstep_refine_spec": "SPECIFICATION COROLLARIES (renamed in wave 7, audit 4 B6).  _gaps_spec is the root finder's "
                              "specification applied twice per step (F(root(root x (p/2)) (p/2)) - F x = p follows from root_spec alone) plus an induction "
                              "over n and strict increase; _refine_spec has a little more content (the grid's middle of a gap = the loop's intermediate "
                              "middle_point, so refining gives the axis of step p/2).  Both say what brentq + quadrature WOULD give if exact "
                              "(F strictly increasing; F(root x p) - F x = p required only while F x + p <= M; satisfiable: C13_probstep_nonvacuous); "
                              "neither says the code meets that specification.  Audit's list of what they leave out, against the CURRENT model: the exit "
                              "test `p_left < p/2` computed from the PREVIOUS middle_point, the bare `except` (incl. first root found / second raised), "
                              "its arithmetic extrapolation and last_point ARE modelled since wave 6 (Model/ProbStepLoop.v; C13_probstep_right_shape_spec / "
                              "_left_shape_spec, compared state by state); still NOT modelled: CTMCGridProbabilityStep.middle's xi == 0 / xip == 0 shortcuts, "
                              "its p == 0 and out-of-bracket fall-backs (oracle-checked only), brentq's xtol 1e-10 (tolerance of the ties), termination",
    "C13_probstep_loop_regular_is_ps_axis": "wave 7 (audit 4 A7: ps_axis was compared with nothing): the regular part h :: reg of the loop model's right half "
                              "axis IS ps_axis rootR h p (length reg) for any real root function agreeing with the loop's oracle; ps_axis is additionally "
                              "compared with the implementation directly (case file ps_axis: closed-form roots; constant density: every regular state, n up to 7; HEM: "
                              "the first two regular states of 2 axes -- interval arithmetic on the nested closed form is too slow beyond).  Right side "
                              "only (ps_axis has no left twin); the decomposition reg/ext is the one the loop produces (existential)",
    "C13_probstep_right_loop / C13_probstep_left_loop / C13_probstep_ctor_admissible": "every branch of the two loops, for oracles the theorems quantify over "
                              "(quadrature test, root finder with None = raised) under ONE stated hypothesis, ROOT BEYOND THE BRACKET END: a returned root "
                              "lies strictly beyond the bracket end the search started from (forall x y, root x = Some y -> x < y).  It is monitored "
                              "(histogram probloop_root_beyond_bracket_end), not proved of brentq, and false for p = 0 (refused since F-C13-9).  The bare "
                              "`except` is the loop's NORMAL exit path: after a regular step p_left(middle) = tail(start_right_old) - p/2 >= p/2, the exit "
                              "test cannot fire directly after a successful `try`, so every run with a regular step ends through a raising root search "
                              "(evidence histogram probloop_branches: no `regular+no-except` run); "
                              "conditional on termination (the model's fuel; `while True` in the code: termination is not proved -- a root finder "
                              "that keeps succeeding while the test never fires loops forever)",
    "C13_probstep_right_shape_spec / C13_probstep_left_shape_spec": "wave 8 (audit 5b B4): renamed `_spec`.  STRUCTURE under the root specification: what "
                              "is new is the structure of the output (regular states, then k >= 1 extrapolated states with one constant spacing 2d, "
                              "exhaustion and except branches inside); the probability content `regular gaps carry p = 2q` is the hypothesis "
                              "F(root x) - F x == q applied twice, `exhausted` is linked to neither F nor q, and the statement holds with F := 0, q := 0; the left loop is modelled as written "
                              "(delta = |start_right - middle_point|, measured from the inner end of the last gap), it is NOT the mirror image of the "
                              "right loop (delta = |middle_point - start_right|, from the moving end): observation O-C13-w6-1, the extrapolated left "
                              "steps are longer (constant density on [-2,2], h = p = 1/4: right 0.25, 1.1875, 2.125, 3.0625; left -0.25, -1.1875, -4, "
                              "-6.8125); no promise of the property is broken (the extrapolated gaps carry no promised probability)",
    "C13_probstep_nonpositive_p_never_returns_before_repair / C13_probstep_ctor_guarded / C13_probstep_ctor_rejects": "wave 8 (audit 5b D5 = F-C13-9, "
                              "repaired in /repo be7f020 = fix-w8-c13 e5add93): with the exhaustion test written as pleft m < p/2 and p <= 0 the unguarded loops "
                              "return for no fuel, no root finder, no h (theorem about the code BEFORE the repair); the repaired constructor refuses p <= 0 and "
                              "0 < p is a conclusion of `returns`.  nan is refused by the code (`not p > 0`) and has no Q counterpart.  Tied by group ctor_guard "
                              "(probstep_ctor returns iff the implementation returned, p in {-1/4, 0, -1/1024, 1/4, 1/16}) and by an implementation oracle "
                              "with a budget of integrate calls (both loops and the constructor, nan included)",
    "C13_probstep_int_h_before_repair": "wave 8 (audit 5b D4 = F-C13-8, repaired in /repo c939deb = fix-w8-c13 6825494): Example, the old behaviour (int64 left array, "
                              "states truncated towards zero: compute_left_axis_int_h) on the audit's kind of witness; the truncating model matched /repo b517e80 "
                              "on the 7 int-h cases of group probloop_int_h before the repair, the float model matches after it (the group selects the model "
                              "by the dtype of the returned array; a truncated axis is ALSO reported as a violation by the oracle)",
    "C13_gen_left_point_is_model / _right_point_ / _middle_ / C13_gen_middle_refine_n": "generated-from-source definitions (Gen/GenTieChain.v) equal the hand "
                              "models; Python int index = Z.of_nat k (non-negative coordinates, which is what the chain uses)",
    "middle": "the n-level theorems need one STATELESS middle (proved instance: the arithmetic mean); CTMCGridProbabilityStep.middle reads grid.h: "
              "only the one-step theorems C13_refine_nests_axis / C13_refine_admissible_axis apply to it (oracle-checked premises), plus C13_probstep_refine "
              "away from the origin",
    "0 < h": "a guard of the geometric constructors since wave 7 (conclusion of their theorems); still a HYPOTHESIS of C13_fixed_admissible / C13_fixed_axis: "
             "create_from_fixed_nb_of_points does not reject h <= 0 (h = -0.5, nb = 4 returns the decreasing axis [1, 0.5, 0, -0.5, -1]) -- same class of defect "
             "as F-C13-7, observed, not repaired and not driven by the oracle (Model/Grid.v is shared with C01/C03/C04/C19); CTMCUniformGrid refuses h < 0 "
             "(int(|l|/h) < 2) and raises ZeroDivisionError for h = 0",
    "tail probability": "not proved (numerical root search); monitored: mass(h/2, r)/mass(h/2, inf) within 2% of the cut tail of the target, with the model's own "
                        "integrate and with independent closed-form tails; in heavy-tailed regimes the constructor must refuse (ValueError) or deliver",
    "constructor exceptions": "an exception that is neither an argument guard nor the root search's refusal (no sign change on [-100, 100]) is reported as a violation",
}
LEVEL_TEXT = ("Proof: 45 Coq theorems + 10 examples (Q theorems closed under the global context; R theorems under the standard real-number axioms) "
              "state that create_from_fixed_nb_of_points, CTMCUniformGrid (np.linspace as its mathematical sequence), CTMCGridGeometric (both "
              "constructors; np.geomspace as start*(stop/start)^(i/(n-1)) over R for every real bound, and over Q for rational common ratios, the "
              "two linked by a theorem; guards nb >= 2, h > 0, l < -h < h < r inside the model, each necessary and together sufficient over R) and CTMCCredit "
              "return, for every argument they accept (0 < h is a hypothesis for the fixed-number-of-points and uniform constructors only), strictly increasing axes with 0 at the origin "
              "index and -h/+h as neighbours and end points at the reported truncations; that any assembly left++[0]++right with pivot len(left) "
              "does (over Q and over R); and that refine - modelled as the np.insert loop, proved equal to the interleaving - keeps every old "
              "state at 2^n times its index, inserts exactly one state strictly inside each gap at grid.middle, halves h, doubles the (shared) "
              "origin index and leaves the truncations unchanged, for every n, every admissible grid (in particular every uniform and geometric "
              "grid, composed theorems) and every middle function with the stated three properties.  Probability-step axes: two SPECIFICATION "
              "corollaries (`_spec`: IF the root finder is exact, every gap carries the requested probability p and refining yields the axis of "
              "step p/2 -- the first is the specification applied twice per step plus an induction); wave 6: the two "
              "construction loops compute_right_axis / compute_left_axis with their exhaustion and except branches are inside the model "
              "(quadrature / root-finder oracles under the stated hypothesis that a returned root lies strictly beyond the bracket end it started from -- "
              "monitored, not proved of brentq, false for p = 0): whenever they terminate the half axes are strictly increasing from +-h and the "
              "assembled axis of CTMCGridProbabilityStep is admissible; the bare `except` is the loops' normal exit path (no run with a regular step "
              "ends otherwise); two further `_spec` statements give the STRUCTURE of the output under the root specification (regular states, then "
              ">= 1 equally spaced extrapolated states, both sides, the left loop not being the mirror image of the right one) -- their probability "
              "content is the specification applied twice; wave 8: minimum_probability_step <= 0 never returned (theorem about the unguarded loops; "
              "F-C13-9) and an int h truncated the left states (F-C13-8): both repaired in /repo, the guard 0 < p is inside the model and a conclusion; wave 7: the regular part of the loop model's right half axis is proved to be the "
              "specification axis ps_axis, which is also compared with the implementation directly (closed-form roots).  left_point / right_point / middle are regenerated from the source by "
              "py2coq on every run and proved equal to the hand models.  The model is "
              "tied to /repo by exact vm_compute correspondence on dyadic inputs (fixed, credit, uniform with dyadic linspace step, refine^n, "
              "aliasing, probability-step loops on recorded oracle answers), by 1e-12 correspondence for np.geomspace (vm_compute for rational ratios, interval-arithmetic lemmas for real-model "
              "and random bounds) and by an oracle on every constructor of the implementation (dim 1-3, LevyModel / copula / SDE-model "
              "arguments).  Partial: promised tail / per-step probabilities are monitored (own integrate + independent closed-form tails, heavy "
              "tails included), not proved; brentq and the quadrature are specified, never verified; CTMCGridProbabilityStep.middle's fall-backs are "
              "oracle-checked, not modelled; termination of the two `while True` loops is not proved for p > 0 (for p <= 0 the public constructor hung before be7f020).")
LEVEL_NOTE = ("Trusted: Coq kernel + vm_compute + coq-interval; floats modelled as Q / R (exact on the dyadic inputs of the correspondence, 1e-12 "
              "elsewhere); numpy array semantics; root finders (brentq) not modelled; mpmath for the independent tails.")
TECHNIQUE = ("Coq proof over Q/list and R/list (induction on axes, lra/lia/nra, exp/ln monotonicity) + exact vm_compute correspondence on dyadic grids "
             "+ interval-arithmetic case lemmas for np.geomspace + implementation oracle with independent closed-form tail masses")


# ------------------------------------------------------------------------------------------ oracle predicates
def admissible_reason(axis, o, h):
    """None if (axis, o, h) is admissible, else a short reason (implementation-side predicate)"""
    axis = np.asarray(axis, dtype=float)
    if axis.ndim != 1 or axis.size == 0 or not np.all(np.isfinite(axis)):
        return "axis is not a finite 1-d array"
    if np.any(np.diff(axis) <= 0):
        return "axis is not strictly increasing"
    if not (isinstance(o, (int, np.integer)) and 1 <= o and o + 1 < axis.size):
        return "origin index has no neighbour on one side"
    if not h > 0:
        return "h is not positive"
    if axis[o] != 0:
        return "state at the origin index is not 0"
    if axis[o - 1] != -h:
        return "left neighbour of the origin is not -h"
    if axis[o + 1] != h:
        return "right neighbour of the origin is not +h"
    return None


def origin_indices(grid):
    v = grid.origin_coordinate.value
    return list(v) if isinstance(v, tuple) else [v]


def grid_reason(grid):
    os_ = origin_indices(grid)
    if len(os_) != len(grid.axes):
        return "origin coordinate and axes have different dimensions"
    for k, axis in enumerate(grid.axes):
        r = admissible_reason(axis, os_[k], grid.h)
        if r:
            return f"axis {k}: {r}"
        if tuple(float(t) for t in grid.truncations[k]) != (float(axis[0]), float(axis[-1])):
            return f"axis {k}: reported truncations are not the end points"
    return None


def snapshot(grid, with_mids=False):
    s = {"axes": [np.array(a, dtype=float).copy() for a in grid.axes], "h": float(grid.h), "o": origin_indices(grid),
         "trunc": [(float(a), float(b)) for a, b in grid.truncations]}
    if with_mids:   # the cell boundaries the grid itself uses, evaluated on the OLD grid (grid.middle may depend on grid.h)
        s["mids"] = [[float(grid.middle(float(x), float(y))) for x, y in zip(a, a[1:])] for a in grid.axes]
    return s


def nesting_reason(before, grid, exact_mid=True):
    """`before` = snapshot taken before ONE grid.refine(); checks the nesting statement on the implementation"""
    if float(grid.h) != before["h"] / 2:
        return "h is not halved by refine"
    if origin_indices(grid) != [2 * o for o in before["o"]]:
        return "origin index is not doubled by refine"
    if [(float(a), float(b)) for a, b in grid.truncations] != before["trunc"]:
        return "truncations changed by refine"
    for k, (old, new) in enumerate(zip(before["axes"], grid.axes)):
        if len(new) != 2 * len(old) - 1:
            return f"axis {k}: refine does not insert exactly one state per gap"
        if not np.array_equal(new[0::2], old):
            return f"axis {k}: old states are not at twice their index"
        ins = new[1::2]
        if np.any(ins <= old[:-1]) or np.any(ins >= old[1:]):
            return f"axis {k}: an inserted state is not strictly inside its gap"
        if exact_mid:
            for i in range(len(old) - 1):
                if ins[i] != 0.5 * (old[i] + old[i + 1]):
                    return f"axis {k}: an inserted state is not grid.middle of its gap"
        if "mids" in before and not np.array_equal(ins, np.array(before["mids"][k])):
            return f"axis {k}: an inserted state is not the old grid's own cell boundary middle(x_i, x_i+1)"
    return None


# ------------------------------------------------------------------------------------------ literals
def axes_lit(axes):
    return lst([lst([qlit(float(x)) for x in a]) for a in axes])


def snap_lit(s):
    os_ = s["o"]
    assert len(set(os_)) == 1
    return tup([axes_lit(s["axes"]), qlit(s["h"]), natlit(os_[0]), lst([f"({qlit(a)}, {qlit(b)})" for a, b in s["trunc"]])])


GRID_T = "list (list Q) * Q * nat * list (Q * Q)"


# ------------------------------------------------------------------------------------------ implementation drivers
def build_fixed(h, nb, dim):
    from rpylib.grid.spatial import CTMCUniformGrid
    return CTMCUniformGrid.create_from_fixed_nb_of_points(h=h, nb_of_points=nb, dimension=dim)


class _patched_truncation:
    """feeds given truncation bounds to CTMCCredit instead of running the root search (the bounds are inputs
    of the model: `compute_truncation` is specified, not modelled)"""

    def __init__(self, l, r):
        self.l, self.r = l, r

    def __enter__(self):
        import rpylib.grid.spatial as S
        self.S, self.old = S, S.compute_truncation
        S.compute_truncation = lambda model, h, truncation_probability=0.99999: (self.l, self.r)

    def __exit__(self, *a):
        self.S.compute_truncation = self.old


def dummy_model(dim):
    from stepmeasure import StepMeasure, StepModel, build_copula_model, step_spec
    nu = StepMeasure([Fr(-8), Fr(8)], [Fr(3, 4)], strict=False)
    if dim == 1:
        return StepModel(nu)
    return build_copula_model([step_spec(nu)] * dim)


def build_credit(l, r, h, levels, sym):
    from rpylib.grid.spatial import CTMCCredit
    dim = len(levels)
    with _patched_truncation(l, r):
        return CTMCCredit(h=h, level_a=(levels[0] if dim == 1 else list(levels)), model=dummy_model(dim), symmetric_grid=sym)


GUARD_MESSAGES = ("h is too large for the truncation bounds", "expected nb_of_points", "expected h > 0", "expected minimum_probability_step > 0", "CTMCCredit grid error",
                  "level a smaller than the last left point", "the number of points is greater than")
# the truncation root search refuses a model whose requested quantile lies outside its search interval [-100, 100]
# (scipy brentq: no sign change on the bracket): a refusal, not a grid -- allowed by the property ("returns ...")
ROOT_REFUSAL = "f(a) and f(b) must have different signs"


def is_guard(e) -> bool:
    """a ValueError raised by one of the constructors' own argument guards (a legitimate rejection)"""
    return isinstance(e, ValueError) and any(m in str(e) for m in GUARD_MESSAGES)


def is_root_refusal(e) -> bool:
    return isinstance(e, ValueError) and ROOT_REFUSAL in str(e)


def note_exception(res, table, e, ctor, args, viol=None):
    """argument guard / root-search refusal: counted.  ANY other exception escaping a constructor (TypeError, OverflowError,
    ZeroDivisionError, an unrelated ValueError ...) is a violation of 'every constructor returns ...': the constructor
    neither returned a grid nor refused its arguments in a controlled way."""
    if is_guard(e):
        res.bump(table, "guard ValueError")
    elif is_root_refusal(e):
        res.bump(table, "root search refuses (quantile outside [-100, 100])")
    else:
        res.bump(table, f"UNEXPECTED {type(e).__name__}")
        res.bump("unexpected_constructor_exception", f"{ctor}: {type(e).__name__}: {str(e)[:70]}")
        res.violation(f"{ctor} raises {type(e).__name__} that is neither an argument guard nor a root-search refusal",
                      {"kind": "ctor-exception", "ctor": ctor, "args": json.loads(json.dumps(args, default=str)),
                       "exception": f"{type(e).__name__}: {str(e)[:200]}"})


def try_build(f, *a):
    try:
        return f(*a), None
    except ValueError as e:
        if not is_guard(e):
            raise
        return None, f"ValueError: {e}"


UNIFORM_CASES = []


# ------------------------------------------------------------------------------------------ correspondence
def _tie_spot(res):
    """cross-cutting TIE layer (DESIGN 2.2a): the GENERATED GenTie* definitions of GEN_DEPS (just regenerated and compiled by the driver)
    against the RUNNING Python functions on real objects, dyadic inputs, exact, one coqc (harness/tie_selftest.py: q_vector, intensity_1d, dispatch_c1d, dispatch_nd2)"""
    try:
        import tie_selftest
        out = tie_selftest.selftest_spotchecks([m for m in GEN_DEPS if m.startswith("GenTie")], res.seed, name=PROP)
    except Exception as e:  # noqa: BLE001 -- the implementation raised on a spot-check input, or the case file does not compile
        res.broke("correspondence TIE spot check", f"could not run: {type(e).__name__}: {str(e)[-1500:]}")
        return
    if not out:
        res.broke("correspondence TIE spot check", "no spot-check group of harness/tie_selftest.py is covered by the GenTie modules of GEN_DEPS")
    for g, (n, bad) in sorted(out.items()):
        for i in range(n):
            res.count(("tie_spot", g, res.seed, i), kind="tie_spot")
            res.bump("tie_spot", g)
        if bad:
            res.broke(f"correspondence TIE {g}", f"generated definition(s) of group {g} disagree with the running Python function on "
                                                 f"{len(bad)} of {n} spot-check cases: indices {bad[:10]} (build/TIE/{PROP}.v)")


def correspond(res):
    del UNIFORM_CASES[:]
    from rpylib.grid.spatial import CTMCGrid
    from stepmeasure import random_dyadic_axis
    rng = random.Random(res.seed)
    _tie_spot(res)
    thorough = res.tier == "thorough"
    groups = []

    def viol(what, **kw):
        res.violation(what, dict(kw))

    # ---- 1. create_from_fixed_nb_of_points ------------------------------------------------
    fixed_cases = []
    hs = [0.5, 0.25, 1.0, 0.125, 1.5, 0.375, 2.0 ** -6, 3 * 2.0 ** -5]
    nbs = list(range(0, 14)) + [20, 21, 40, 60] + ([100, 101, 200] if thorough else [])
    for h in hs:
        for nb in nbs:
            for dim in (1, 2, 3):
                if dim > 1 and nb not in (0, 1, 2, 3, 5, 8, 21):
                    continue
                g, err = try_build(build_fixed, h, nb, dim)
                res.count(("fixed", h, nb, dim), nontrivial=nb >= 4, kind="create_from_fixed_nb_of_points")
                res.bump("fixed_outcome", "grid" if g is not None else "ValueError")
                if g is not None:
                    why = grid_reason(g)
                    if why:
                        viol("create_from_fixed_nb_of_points returns a malformed grid: " + why.split(":")[-1].strip()[:60],
                             kind="fixed", finding="F-C13-2", h=h, nb=nb, dim=dim, reason=why)
                    if len(g.axes) != dim:
                        viol("create_from_fixed_nb_of_points: wrong dimension", kind="fixed", h=h, nb=nb, dim=dim)
                fixed_cases.append(f"({qlit(h)}, {natlit(nb)}, {natlit(dim)}, {opt(g, lambda gg: snap_lit(snapshot(gg)))})")
    groups.append(("fixed", f"Q * nat * nat * option ({GRID_T})",
                   "fun c => match c with (h, nb, dim, e) => ogrid_eqb (fixed_ctor h nb dim) e end", fixed_cases))

    # ---- 2. CTMCCredit with injected dyadic truncation bounds --------------------------------
    credit_cases = []
    n_credit = 250 if not thorough else 2500
    for it in range(n_credit):
        h = rng.choice([0.25, 0.125, 0.5, 0.0625])
        l = -rng.randrange(8, 64) / 8
        r = rng.randrange(4, 64) / 8
        dim = rng.choice([1, 1, 2, 3])
        sym = rng.random() < 0.6
        mode = rng.choice(["ok", "ok", "ok", "near_h", "near_l", "wild"])
        levels = []
        for _ in range(dim):
            if mode == "ok":
                a = -rng.randrange(int(8 * h) + 1, max(int(8 * h) + 2, int(-8 * l))) / 8
            elif mode == "near_h":
                a = -h + rng.choice([-0.125, 0.0, 0.0625, -0.0625])
            elif mode == "near_l":
                a = l + rng.choice([-0.125, 0.0, 0.125, 0.25])
            else:
                a = rng.randrange(-80, 8) / 8
            levels.append(float(a))
        g, err = try_build(build_credit, l, r, h, levels, sym)
        res.count(("credit", l, r, h, tuple(levels), sym), nontrivial=True, kind=f"CTMCCredit dim={dim}")
        res.bump("credit_outcome", "grid" if g is not None else "ValueError")
        res.bump("credit_mode", mode)
        if g is not None:
            why = grid_reason(g)
            if why:
                viol("CTMCCredit returns a malformed grid: " + why.split(":")[-1].strip()[:60], kind="credit", finding="F-C13-3",
                     l=l, r=r, h=h, levels=levels, sym=sym, reason=why, axes=[a.tolist() for a in g.axes])
            elif any(t != (l, r) for t in g.truncations) or origin_indices(g) != [4] * dim:
                viol("CTMCCredit: truncations / origin index not as promised", kind="credit", l=l, r=r, h=h, levels=levels, sym=sym)
            else:
                for k, a in enumerate(levels):
                    if 0.5 * (g.axes[k][1] + g.axes[k][2]) != a:
                        viol("CTMCCredit: the cell boundary between the two threshold states is not the threshold", kind="credit",
                             l=l, r=r, h=h, levels=levels, sym=sym)
        credit_cases.append(f"({qlit(l)}, {qlit(h)}, {qlit(r)}, {lst([qlit(a) for a in levels])}, {blit(sym)}, "
                            f"{opt(g, lambda gg: snap_lit(snapshot(gg)))})")
    groups.append(("credit", f"Q * Q * Q * list Q * bool * option ({GRID_T})",
                   "fun c => match c with (l, h, r, levels, sym, e) => ogrid_eqb (credit_grid l h r levels sym) e end", credit_cases))

    # ---- 3. refine^n with aliasing and both storage modes ------------------------------------
    refine_cases = []
    n_ref = 60 if not thorough else 500
    starts = []
    for it in range(n_ref):
        h = Fr(rng.choice([1, 1, 2, 3, 4]), rng.choice([2, 4, 8]))
        nl, nr = rng.randrange(1, 7), rng.randrange(1, 7)
        axis, o = random_dyadic_axis(rng, nl, nr, h)
        starts.append(("random", [float(x) for x in axis], o, float(h)))
    for (h, nb) in [(0.5, 4), (0.25, 9), (1.5, 2)]:
        g = build_fixed(h, nb, 1)
        starts.append(("fixed", g.axes[0].tolist(), origin_indices(g)[0], h))
    g = build_credit(-4.0, 3.0, 0.25, [-2.0], False)
    starts.append(("credit", g.axes[0].tolist(), 4, 0.25))
    for (src, axis, o, h) in starts:
        dim = rng.choice([1, 1, 2, 3])
        shared = rng.random() < 0.5
        arr = np.array(axis, dtype=float)
        axes = [arr] * dim if shared else [arr.copy() for _ in range(dim)]
        grid = CTMCGrid(h=h, origin_coordinate=o, axes=axes)
        alias = grid.origin_coordinate            # reference taken before refine
        start = snapshot(grid)
        nmax = rng.randrange(1, 7) if len(axis) <= 9 else rng.randrange(1, 4)
        for n in range(1, nmax + 1):
            before = snapshot(grid)
            grid.refine()
            res.count(("refine", tuple(axis), o, h, dim, shared, n), nontrivial=True, kind="refine")
            res.bump("refine_n", n)
            res.bump("refine_storage", "shared" if shared else "per-axis")
            why = nesting_reason(before, grid) or grid_reason(grid)
            if why:
                viol("refine breaks the nesting/admissibility statement: " + why[:70], kind="refine", axis=axis, o=o, h=h, dim=dim,
                     shared=shared, n=n, reason=why)
            if alias is not grid.origin_coordinate or origin_indices(grid) != [o * 2 ** n] * dim:
                viol("an alias of grid.origin_coordinate taken before refine no longer denotes the origin", kind="refine",
                     axis=axis, o=o, h=h, dim=dim, shared=shared, n=n)
            av = alias.value if not isinstance(alias.value, tuple) else alias.value[0]
            if n in (1, nmax):
                s = snapshot(grid)
                s["o"] = [av] * dim       # the model's single cell must agree with what the alias reads
                refine_cases.append(f"({axes_lit(start['axes'])}, {qlit(h)}, {natlit(o)}, {natlit(n)}, {snap_lit(s)})")
    groups.append(("refine", f"list (list Q) * Q * nat * nat * ({GRID_T})",
                   "fun c => match c with (axes, h, o, n, (a2, h2, o2, t2)) => grid_eqb (refine_n amid n (mk_grid h o axes)) a2 h2 o2 t2 end",
                   refine_cases))

    # ---- 4. oracle stream: every constructor on step and real models ------------------------
    del GEOM_R_GRIDS[:]
    _oracle_constructors(res, rng, 1 if not thorough else 6, viol)
    _tail_probabilities(res, rng, viol, thorough)
    _probstep_massless_gaps(res, viol)
    # ---- 5. wave 5: linspace / geomspace models, heavy tails, probability-step n-d, SDE branch
    rng5 = random.Random(res.seed + 5)
    groups.append(_geometric_cases(res, rng5, viol, thorough))
    groups.append(_uniform_exact_cases(res, rng5, viol, thorough))
    _heavy_tail_monitor(res, rng5, viol, thorough)
    _probstep_nd_and_sde(res, rng5, viol, thorough)
    _geomspace_R_tie(res, rng5, thorough)
    _geometric_nonpositive_h(res, random.Random(res.seed + 7), viol)
    # ---- 6. wave 6: the loops of compute_right_axis / compute_left_axis, every branch (Model/ProbStepLoop.v)
    del PS_AXIS_CASES[:]
    groups.extend(_probstep_loop_cases(res, random.Random(res.seed + 6), viol, thorough))
    _ps_axis_tie(res, thorough)
    # ---- 8. wave 8 (audit 5b D4 / D5): int h and minimum_probability_step <= 0
    groups.extend(_probstep_argument_cases(res, viol))

    groups.append(("uniform", "Q * Q * Q * option (list Q * nat)",
                   "fun c => match c with (l, h, r, e) => match uniform_axis l h r, e with "
                   "| None, None => true "
                   "| Some (xs, o), Some (ys, o2) => Nat.eqb o o2 && Nat.eqb (length xs) (length ys) && "
                   "forallb (fun xy => Qle_bool (Qabs (fst xy - snd xy)) ((1 + Qabs (snd xy)) * (1 # 1000000000000))) (combine xs ys) "
                   "| _, _ => false end end", list(UNIFORM_CASES)))
    # ---- Coq side ---------------------------------------------------------------------------
    header = "From Coq Require Import ZArith QArith Qabs List Bool.\nFrom RV Require Import Base.QB Model.Grid Model.GridGeom Model.ProbStepLoop.\nOpen Scope Q_scope."
    res.case_lemmas += len(groups)
    bad = coq_bad_indices(PROP, "cases", header, groups, timeout=900)
    for gname, ty, chk, cases in groups:
        if bad[gname]:
            res.broke(f"correspondence {gname}", f"model and implementation differ on {len(bad[gname])} case(s), first: {cases[bad[gname][0]][:1500]}")
        else:
            res.case_ok += 1


# ------------------------------------------------------------------------------------------ wave 5: linspace / geomspace ties
TOL12 = "(1 # 1000000000000)"
GEOM_CHECK = ("fun c => match c with (h, ql, qr, nb, dim, e) => match geometric_grid h ql qr nb dim, e with "
              "| None, None => true "
              "| Some g, Some (axes, h2, o, tr) => Nat.eqb (length (g_axes g)) (length axes) && "
              f"forallb (fun p => qlist_close {TOL12} (fst p) (snd p)) (combine (g_axes g) axes) && "
              "Qeq_bool (g_h g) h2 && Nat.eqb (g_o g) o && qpl_eqb (g_trunc g) tr "
              "| _, _ => false end end")


def dummy_sde_model(dim):
    from rpylib.model.levydrivensde.levydrivensde import LevyDrivenSDEModel
    return LevyDrivenSDEModel(driver=dummy_model(dim))


def _geometric_cases(res, rng, viol, thorough):
    """CTMCGridGeometric.create_with_bounds and CTMCGridGeometric.__init__ (LevyModel, LevyCopulaModel and LevyDrivenSDEModel
    arguments; dyadic truncation bounds injected for the root search) on bounds with a rational common ratio:
    l = -h*ql^(nb-1), r = h*qr^(nb-1) exactly representable.  numpy goes through log10 and 10**x: interior states are
    compared with relative tolerance 1e-12, h / origin index / truncations (= end points) exactly."""
    from rpylib.grid.spatial import CTMCGridGeometric
    ratios = [Fr(2), Fr(3, 2), Fr(5, 4), Fr(3), Fr(9, 8), Fr(2), Fr(3, 2), Fr(1), Fr(1, 2)]
    cases = []
    reps = 3 if not thorough else 12
    # wave 7 (F-C13-7): h <= 0 must be refused by both constructors (guard `expected h > 0`), whatever the bounds -- ratios < 1 make
    # l < -h and h < r hold for a negative h, so only the new guard can refuse those
    for h in (0.25, 0.125, 0.5, 1.0, -0.25, -1.0, 0.0):
        for nb in (0, 1, 2, 3, 4, 5, 7, 10):
            for _ in range(reps):
                ql, qr = rng.choice(ratios), rng.choice(ratios)
                if h < 0 and rng.random() < 0.5:
                    ql, qr = Fr(1, 2), rng.choice([Fr(1, 2), Fr(1, 4)])
                dim = rng.choice([1, 1, 2, 3])
                e = max(nb - 1, 0)
                lq, rq = -(Fr(h) * ql ** e), Fr(h) * qr ** e
                l, r = float(lq), float(rq)
                assert Fr(l) == lq and Fr(r) == rq
                how = rng.choice(["bounds", "init", "init-sde"])
                args = {"h": h, "truncations": [l, r], "dim": dim, "nb": nb, "how": how}
                try:
                    if how == "bounds":
                        g = CTMCGridGeometric.create_with_bounds(h=h, truncations=(l, r), dimension=dim, nb_of_points_on_each_side=nb)
                    else:
                        with _patched_truncation(l, r):
                            g = CTMCGridGeometric(h=h, model=(dummy_model(dim) if how == "init" else dummy_sde_model(dim)),
                                                  nb_of_points_on_each_side=nb)
                except Exception as ex:  # noqa
                    g = None
                    note_exception(res, "geomq_outcome", ex, "CTMCGridGeometric(" + how + ")", args)
                    if not is_guard(ex):
                        continue
                res.count(("geomq", h, str(ql), str(qr), nb, dim, how), nontrivial=nb >= 2, kind=f"CTMCGridGeometric {how} (rational ratio)")
                res.bump("geomq_ratio", f"ql={ql} qr={qr}")
                res.bump("geomq_h_sign", "h > 0" if h > 0 else ("h <= 0: " + ("grid RETURNED" if g is not None else "refused")))
                if g is not None:
                    res.bump("geomq_outcome", "grid")
                    why = grid_reason(g)
                    if why:
                        viol("CTMCGridGeometric returns a malformed grid: " + why.split(":")[-1].strip()[:60], kind="ctor",
                             ctor="CTMCGridGeometric.create_with_bounds", args=args, reason=why, finding=("F-C13-4" if h > 0 else "F-C13-7"))
                    elif len(g.axes) != dim or origin_indices(g) != [nb] * dim or any(len(a) != 2 * nb + 1 for a in g.axes) \
                            or any(tuple(map(float, t)) != (l, r) for t in g.truncations):
                        viol("CTMCGridGeometric: dimension / origin index / number of states / truncations not as promised", kind="ctor",
                             ctor="CTMCGridGeometric.create_with_bounds", args=args)
                cases.append(f"({qlit(h)}, {qlit(ql)}, {qlit(qr)}, {natlit(nb)}, {natlit(dim)}, {opt(g, lambda gg: snap_lit(snapshot(gg)))})")
    return ("geomq", f"Q * Q * Q * nat * nat * option ({GRID_T})", GEOM_CHECK, cases)


def _uniform_exact_cases(res, rng, viol, thorough):
    """CTMCUniformGrid.__init__ (dimension 1-3) with dyadic truncation bounds injected for the root search and a dyadic
    linspace step (l = -k*h, or int(|l|/h) - 1 a power of two): every float operation of np.linspace is exact, the axes are
    compared EXACTLY with uniform_grid (incl. rejected arguments: int(|l|/h) < 2 or int(r/h) < 2)."""
    from rpylib.grid.spatial import CTMCUniformGrid
    cases = []

    def side(h):
        if rng.random() < 0.5:
            return rng.randrange(0, 13) * h                       # a multiple of h (k = 0, 1: rejected)
        n = rng.choice([2, 3, 5, 9, 17])                          # n - 1 is a power of two -> dyadic step
        return n * h + rng.randrange(0, 8) * h / 8
    n = 120 if not thorough else 1200
    for _ in range(n):
        h = rng.choice([0.25, 0.125, 0.5, 1.0, 0.0625])
        l, r = -side(h), side(h)
        if l == 0 or r == 0:
            l, r = l - h / 4, r + h / 4                            # the theorem (and the code) want l < 0 < r
        dim = rng.choice([1, 1, 2, 3])
        args = {"h": h, "l": l, "r": r, "dim": dim}
        try:
            with _patched_truncation(l, r):
                g = CTMCUniformGrid(h=h, model=dummy_model(dim))
        except Exception as ex:  # noqa
            g = None
            note_exception(res, "uniform_exact_outcome", ex, "CTMCUniformGrid(injected bounds)", args)
            if not is_guard(ex):
                continue
        res.count(("uniform-exact", h, l, r, dim), nontrivial=g is not None, kind="CTMCUniformGrid (dyadic linspace, exact)")
        if g is not None:
            res.bump("uniform_exact_outcome", "grid")
            why = grid_reason(g)
            if why:
                viol("CTMCUniformGrid returns a malformed grid: " + why.split(":")[-1].strip()[:60], kind="uniform-exact",
                     reason=why, finding="F-C13-1", **args)
            elif any(tuple(map(float, t)) != (l, r) for t in g.truncations) or len(g.axes) != dim:
                viol("CTMCUniformGrid: truncations are not the bounds of the root search / wrong dimension", kind="uniform-exact", **args)
        cases.append(f"({qlit(l)}, {qlit(h)}, {qlit(r)}, {natlit(dim)}, {opt(g, lambda gg: snap_lit(snapshot(gg)))})")
    return ("uniform_exact", f"Q * Q * Q * nat * option ({GRID_T})",
            "fun c => match c with (l, h, r, dim, e) => ogrid_eqb (uniform_grid l h r dim) e end", cases)


def rlit(x) -> str:
    fr = Fr(x)
    return f"({fr.numerator} / {fr.denominator})" if fr >= 0 else f"(- {-fr.numerator} / {fr.denominator})"


GEOM_R_GRIDS = []      # (l, h, r, nb, axis) of CTMCGridGeometric grids met by the oracle stream (non-dyadic real bounds)


def _geomspace_R_tie(res, rng, thorough):
    """the R model geomspace_R (point i = a*exp(i/m*ln(b/a))) against np.geomspace as used by CTMCGridGeometric on arbitrary
    (non-dyadic) bounds: real models through the root search and random create_with_bounds arguments.  One Coq lemma per
    state, proved by the `interval` tactic (90 bits):  |gs_point a b m i - state| <= 1e-12*(1+|state|); end points and the
    three states -h, 0, h are compared exactly on the Python side (they are theorems of the model)."""
    from rpylib.grid.spatial import CTMCGridGeometric
    grids = list(GEOM_R_GRIDS[: (12 if not thorough else 60)])
    for _ in range(6 if not thorough else 30):
        h = rng.choice([0.01, 0.1, 0.25, 0.3])
        l, r = -rng.uniform(1.01 * h, 5.0), rng.uniform(1.01 * h, 5.0)
        nb = rng.randrange(2, 10)
        g = CTMCGridGeometric.create_with_bounds(h=h, truncations=(l, r), dimension=1, nb_of_points_on_each_side=nb)
        grids.append((l, h, r, nb, [float(x) for x in g.axes[0]]))
    lemmas, n = [], 0
    for (l, h, r, nb, ax) in grids:
        if len(ax) != 2 * nb + 1 or ax[0] != l or ax[-1] != r or ax[nb - 1] != -h or ax[nb] != 0 or ax[nb + 1] != h:
            res.broke("correspondence geomspace_R", f"end points / -h, 0, h of the implementation's axis are not those of the model: l={l} h={h} r={r} nb={nb}")
            continue
        res.count(("geomR", l, h, r, nb), kind="CTMCGridGeometric vs geomspace_R (interval)")
        for i in range(nb):
            for (a, b, v) in ((l, -h, ax[i]), (h, r, ax[nb + 1 + i])):
                tol = Fr(1, 10 ** 12) * (1 + abs(Fr(v)))
                lemmas.append(f"Lemma c{n} : Rabs (gs_point {rlit(a)} {rlit(b)} {nb - 1} {i} - {rlit(v)}) <= {rlit(tol)}.\n"
                              f"Proof. unfold gs_point. interval with (i_prec 90). Qed.")
                n += 1
    res.bump("geomspace_R_states", n)
    if not lemmas:
        res.broke("correspondence geomspace_R", "no case: nothing would be compared")
        return
    text = ("From Coq Require Import Reals.\nFrom Interval Require Import Tactic.\nFrom RV Require Import Model.GridGeom.\n"
            "Open Scope R_scope.\n" + "\n".join(lemmas) + "\n")
    res.case_lemmas += 1
    rc, out = coq_eval_file(PROP, "geomspace_R", text, timeout=600)
    if rc != 0:
        res.broke("correspondence geomspace_R", f"a state of np.geomspace is not within 1e-12 of the R model: {out[-700:]}")
    else:
        res.case_ok += 1


# ------------------------------------------------------------------------------------------ wave 6: probability-step loops
LOOP_FUEL = 600
LOOP_TAB_CHECK = ("fun c => match c with (isr, h, rt, et, e) => "
                  f"match (if (isr : bool) then compute_right_axis (tab_exh {TOL12} et) (tab_root {TOL12} rt) {LOOP_FUEL} h "
                  f"else compute_left_axis (tab_exh {TOL12} et) (tab_root {TOL12} rt) {LOOP_FUEL} h) with "
                  f"| Some xs => qlist_close {TOL12} xs e | None => false end end")
LOOP_LIN_CHECK = ("fun c => match c with (isr, A, h, q, w, e) => "
                  f"match (if (isr : bool) then compute_right_axis (lin_exh_r A h q) (lin_root_r w A) {LOOP_FUEL} h "
                  f"else compute_left_axis (lin_exh_l A h q) (lin_root_l w A) {LOOP_FUEL} h) with "
                  "| Some xs => qlist_close (1 # 1000000000) xs e | None => false end end")


def _probstep_loop_cases(res, rng, viol, thorough):
    """compute_right_axis / compute_left_axis (and CTMCGridProbabilityStep.__init__ on top of them) against Model/ProbStepLoop.v.
    Group probloop_tab: ANY measure (dyadic step measures, HEM / Merton real models).  The answers of the root searches (root or
    `raised`) and of the exhaustion tests that the implementation met during the run are recorded by pass-through wrappers and given
    to the model as table oracles; the loop's control flow, the except-branch arithmetic, the extrapolated last point and the
    slicing are then the model's own: compared state by state (1e-12: float rounding of sr + 2*delta).
    Group probloop_lin: constant density on [-A, A] (A < 100, the tail gets exhausted, the except branch runs): the oracles are Coq
    functions (nothing recorded), states compared within 1e-9 (brentq xtol 1e-10)."""
    import c13_probloop as PL
    from rpylib.grid.spatial import CTMCGridProbabilityStep
    from stepmeasure import StepMeasure, StepModel, random_step_measure, real_model_specs, build_model
    tab_cases, lin_cases = [], []
    plan = []
    for A in (Fr(2), Fr(1), Fr(3), Fr(5, 2), Fr(3, 2)):
        for h in (Fr(1, 4), Fr(1, 8), Fr(1, 2)):
            for p in ((Fr(1, 4), Fr(1, 8), Fr(1, 2), Fr(1, 16), Fr(3, 4), Fr(1)) if thorough or A <= 2 else (Fr(1, 4), Fr(1, 16))):
                if h / 2 < A:
                    plan.append(("lin", A, h, p, StepMeasure([-A, A], [Fr(3)], strict=False)))
    for _ in range(6 if not thorough else 40):
        nu = random_step_measure(rng, Fr(-rng.randrange(1, 5)), Fr(rng.randrange(1, 5)), zero_prob=0.0)
        nu.strict = False
        plan.append(("step", None, Fr(rng.choice([1, 1, 2]), rng.choice([4, 8])), Fr(1, rng.choice([2, 4, 8, 16])), nu))
    specs = [sp for sp in real_model_specs(rng) if sp["family"] in ("HEM", "MERTON")]
    for sp in specs:
        for h, p in ((0.05, 0.1), (0.02, 0.2)) + (((0.1, 0.03),) if thorough else ()):
            plan.append(("real", sp, h, p, None))
    for kind, A, h, p, nu in plan:
        args = {"kind": "probloop", "measure": kind, "h": float(h), "p": float(p), "A": (float(A) if kind == "lin" else None),
                "spec": (A if kind == "real" else None)}
        try:
            with warnings.catch_warnings():
                warnings.simplefilter("ignore")
                model = build_model(A) if kind == "real" else StepModel(nu)
                measure = model.levy_triplet.nu
                runs = {side: PL.record(side, measure, float(h), float(p)) for side in ("right", "left")}
                g = CTMCGridProbabilityStep(h=float(h), model=model, minimum_probability_step=float(p))
        except Exception as e:  # noqa
            note_exception(res, "probloop_outcome", e, "CTMCGridProbabilityStep/compute_*_axis", args)
            continue
        res.count(("probloop", kind, str(A), float(h), float(p), repr(nu)), kind=f"compute_right/left_axis ({kind} measure)")
        L, R = runs["left"]["axis"], runs["right"]["axis"]
        # oracle on the implementation: the statement of C13_probstep_right_loop / _left_loop / _ctor_admissible
        bad = None
        if len(R) < 2 or R[0] != float(h) or any(b <= a for a, b in zip(R, R[1:])):
            bad = "compute_right_axis: not strictly increasing from h with >= 2 states"
        elif len(L) < 2 or L[-1] != -float(h) or any(b <= a for a, b in zip(L, L[1:])):
            bad = "compute_left_axis: not strictly increasing up to -h with >= 2 states"
        elif [float(x) for x in g.axes[0]] != L + [0.0] + R or origin_indices(g) != [len(L)]:
            bad = "CTMCGridProbabilityStep: axis is not left ++ [0] ++ right with pivot len(left)"
        elif grid_reason(g):
            bad = "CTMCGridProbabilityStep: " + grid_reason(g)
        if bad:
            viol(bad, ctor="CTMCGridProbabilityStep", args=args, left=L, right=R)
        _collect_ps_axis_case(res, kind, A, h, p, runs["right"])
        for side in ("right", "left"):
            run = runs[side]
            res.bump("probloop_branches", f"{side}: " + run["branches"])
            res.bump("probloop_root_beyond_bracket_end", "yes" if run["roots_beyond"] else "NO (premise of the theorem not met)")
            right = side == "right"
            tab_cases.append(tup([blit(right), qlit(float(h)),
                                  lst([f"({qlit(k)}, {opt(v, qlit)})" for k, v in run["roots"]]),
                                  lst([f"({qlit(m)}, {blit(b)})" for m, b in run["tests"]]),
                                  lst([qlit(x) for x in run["axis"]])]))
            if kind == "lin":
                # the Coq oracles decide `p_left < q` and `x + w <= A` exactly; the code decides them in floats: a case sitting on
                # one of the two boundaries (within 1e-9) is not compared in this group (it still is in probloop_tab)
                w_, q_ = p * (A - h / 2), p / 2
                on_edge = any(abs((A - min(abs(Fr(m)), A)) / (2 * (A - h / 2)) - q_) < Fr(1, 10 ** 9) for m, _ in run["tests"]) \
                    or any(abs(abs(Fr(k)) + w_ - A) < Fr(1, 10 ** 9) for k, _ in run["roots"])
                res.bump("probloop_lin_boundary", "on a decision boundary: skipped" if on_edge else "compared")
                if on_edge:
                    continue
                lin_cases.append(tup([blit(right), qlit(A), qlit(h), qlit(p / 2), qlit(p * (A - h / 2)), lst([qlit(x) for x in run["axis"]])]))
    return [("probloop_tab", "bool * Q * list (Q * option Q) * list (Q * bool) * list Q", LOOP_TAB_CHECK, tab_cases),
            ("probloop_lin", "bool * Q * Q * Q * Q * list Q", LOOP_LIN_CHECK, lin_cases)]


# ------------------------------------------------------------------------------------------ wave 8: int h (F-C13-8), p <= 0 (F-C13-9)
INT_H_CHECK = ("fun c => match c with (trunc, A, h, q, w, e) => "
               f"match (if (trunc : bool) then compute_left_axis_int_h (lin_exh_l A h q) (lin_root_l w A) {LOOP_FUEL} h "
               f"else compute_left_axis (lin_exh_l A h q) (lin_root_l w A) {LOOP_FUEL} h) with "
               "| Some xs => qlist_close (1 # 1000000000) xs e | None => false end end")
CTOR_GUARD_CHECK = ("fun c => match c with (p, A, h, returned) => "
                    f"match probstep_ctor p (lin_pleft_l A h) (lin_pleft_r A h) (lin_root_l (p * (A - h / 2)) A) (lin_root_r (p * (A - h / 2)) A) {LOOP_FUEL} h "
                    "with Some _ => returned | None => negb returned end end")
LOOP_BUDGET = 3000       # levy_measure.integrate calls (3 per iteration of a loop whose root searches raise)


class _LoopBudget(Exception):
    pass


class _CountingMeasure:
    """pass-through measure that raises once the budget of integrate calls is spent.  Raised inside the `try` it is swallowed by the
    loop's bare `except`, but the exhaustion test's own integrate call is outside the `try`: the next iteration propagates it."""

    def __init__(self, nu, budget):
        self.nu, self.budget, self.calls = nu, budget, 0

    def integrate(self, a, b):
        self.calls += 1
        if self.calls > self.budget:
            raise _LoopBudget(self.calls)
        return self.nu.integrate(a, b)


def _probstep_argument_cases(res, viol):
    """audit 5b D4 / D5.  (a) CTMCGridProbabilityStep / compute_*_axis with a Python-int h must return the axis of float(h), strictly
    increasing (F-C13-8: int64 left array truncated the states); the left half axis is compared with the loop model on Coq-side
    constant-density oracles -- with the truncating model compute_left_axis_int_h when the returned array has an integer dtype.
    (b) minimum_probability_step <= 0 / nan must be refused with ValueError by both loops and by the constructor (F-C13-9: the loops
    never returned); `never returned` is observed deterministically as: the budget of integrate calls is spent.  Group ctor_guard:
    probstep_ctor (guard + loops on Coq-side oracles) returns iff the implementation returned."""
    import types
    import rpylib.grid.spatial as S
    from rpylib.grid.spatial import CTMCGridProbabilityStep
    from stepmeasure import StepMeasure, StepModel
    int_cases, guard_cases = [], []
    for A, h, p in ((Fr(2), 1, Fr(1, 4)), (Fr(3), 1, Fr(1, 4)), (Fr(5, 2), 1, Fr(1, 8)), (Fr(7, 2), 2, Fr(1, 4)), (Fr(5), 2, Fr(1, 8)),
                    (Fr(5), 1, Fr(1, 16)), (Fr(7, 2), 1, Fr(1, 2))):
        nu = StepMeasure([-A, A], [Fr(3)], strict=False)
        model = StepModel(nu)
        args = {"kind": "probstep-int-h", "A": float(A), "h": h, "p": float(p)}
        try:
            with warnings.catch_warnings():
                warnings.simplefilter("ignore")
                gi = CTMCGridProbabilityStep(h=h, model=model, minimum_probability_step=float(p))
                gf = CTMCGridProbabilityStep(h=float(h), model=model, minimum_probability_step=float(p))
                li = S.compute_left_axis(h=h, levy_measure=nu, minimum_probability_step=float(p))
                ri = S.compute_right_axis(h=h, levy_measure=nu, minimum_probability_step=float(p))
        except Exception as e:  # noqa
            note_exception(res, "probstep_int_h_outcome", e, "CTMCGridProbabilityStep(h=<int>)", args)
            continue
        res.count(("probstep-int-h", str(A), h, str(p)), kind="CTMCGridProbabilityStep(h=<int>)")
        ai, af = [float(x) for x in gi.axes[0]], [float(x) for x in gf.axes[0]]
        truncated = bool(np.issubdtype(li.dtype, np.integer))
        res.bump("probstep_int_h", "left half axis is an integer array (states truncated)" if truncated else "float arrays: same axis as float(h)")
        why = grid_reason(gi) or (None if ai == af and ai == [float(x) for x in li] + [0.0] + [float(x) for x in ri]
                                  else "axis differs from the axis built with float(h)")
        if why:
            viol("CTMCGridProbabilityStep(h=<int>): " + why.split(":")[-1].strip()[:70], kind="probstep-int-h", finding="F-C13-8", ctor="CTMCGridProbabilityStep",
                 args=args, got_axis=ai, axis_with_float_h=af, reason=why)
        w_, q_ = p * (A - Fr(h) / 2), p / 2
        run = PLrecord_left(nu, float(h), float(p))
        on_edge = any(abs((A - min(abs(Fr(m)), A)) / (2 * (A - Fr(h) / 2)) - q_) < Fr(1, 10 ** 9) for m, _ in run["tests"]) \
            or any(abs(abs(Fr(k)) + w_ - A) < Fr(1, 10 ** 9) for k, _ in run["roots"])
        if not on_edge:
            int_cases.append(tup([blit(truncated), qlit(A), qlit(Fr(h)), qlit(q_), qlit(w_), lst([qlit(float(x)) for x in li])]))
    for A, h in ((Fr(2), Fr(1, 4)), (Fr(3), Fr(1, 2))):
        nu = StepMeasure([-A, A], [Fr(3)], strict=False)
        for p in (Fr(-1, 4), Fr(0), Fr(-1, 1024), float("nan"), Fr(1, 4), Fr(1, 16)):
            outcomes = {}
            for name in ("compute_right_axis", "compute_left_axis", "CTMCGridProbabilityStep"):
                cm = _CountingMeasure(nu, LOOP_BUDGET)
                try:
                    with warnings.catch_warnings():
                        warnings.simplefilter("ignore")
                        if name == "CTMCGridProbabilityStep":
                            fake = types.SimpleNamespace(levy_triplet=types.SimpleNamespace(nu=cm), mass=StepModel(nu).mass)
                            CTMCGridProbabilityStep(h=float(h), model=fake, minimum_probability_step=float(p))
                        else:
                            getattr(S, name)(h=float(h), levy_measure=cm, minimum_probability_step=float(p))
                    outcomes[name] = "returned"
                except _LoopBudget:
                    outcomes[name] = "still looping"
                except ValueError as e:
                    outcomes[name] = "ValueError" if "expected minimum_probability_step > 0" in str(e) else f"ValueError: {e}"[:80]
                except Exception as e:  # noqa
                    outcomes[name] = f"{type(e).__name__}: {e}"[:80]
            positive = p == p and p > 0
            res.count(("probstep-p", str(A), str(h), str(p)), kind="CTMCGridProbabilityStep(minimum_probability_step <= 0 / > 0)")
            for name, out in outcomes.items():
                res.bump("probstep_p_guard", f"p {'> 0' if positive else '<= 0 or nan'}: {out}")
                if out != ("returned" if positive else "ValueError"):
                    viol(f"{name}(minimum_probability_step={float(p)!r}): " + ("never returns" if out == "still looping" else out)[:60],
                         kind="probstep-p-nonpositive", finding="F-C13-9", ctor=name, args={"kind": "probstep-p-nonpositive", "A": float(A), "h": float(h), "p": repr(float(p))},
                         outcome=out, budget_of_integrate_calls=LOOP_BUDGET)
            if p == p:
                guard_cases.append(tup([qlit(p), qlit(A), qlit(h), blit(outcomes["CTMCGridProbabilityStep"] == "returned")]))
    return [("probloop_int_h", "bool * Q * Q * Q * Q * list Q", INT_H_CHECK, int_cases),
            ("ctor_guard", "Q * Q * Q * bool", CTOR_GUARD_CHECK, guard_cases)]


def PLrecord_left(nu, h, p):
    import c13_probloop as PL
    with warnings.catch_warnings():
        warnings.simplefilter("ignore")
        return PL.record("left", nu, h, p)


# ------------------------------------------------------------------------------------------ wave 7: ps_axis against the code
PS_AXIS_CASES = []     # (kind, params, h, p, n_regular, [h, reg_1, ..., reg_n]) of right half axes built by the implementation


def _collect_ps_axis_case(res, kind, A, h, p, run):
    """the REGULAR part of a right half axis built by compute_right_axis (states found by two successful root searches each):
    n = (number of successful root searches before the first refusal) // 2; state i must be the 2i-th recorded root"""
    if kind == "lin":
        params = {"W": 2 * (Fr(A) - Fr(h) / 2)}
    elif kind == "real" and A["family"] == "HEM":
        params = dict(A["kwargs"])
    else:
        return
    ok = 0
    for _, r in run["roots"]:
        if r is None:
            break
        ok += 1
    n = ok // 2
    states = run["axis"][: n + 1]
    if len(states) != n + 1 or any(states[i] != run["roots"][2 * i - 1][1] for i in range(1, n + 1)) or states[0] != float(h):
        res.broke("correspondence ps_axis", f"the regular states of compute_right_axis are not the recorded second roots: {states} / {run['roots'][:6]}")
        return
    PS_AXIS_CASES.append((kind, params, float(h), float(p), n, states))


def _ps_axis_tie(res, thorough):
    """audit 4, A7: `ps_axis` (the axis of the specification corollaries C13_probstep_gaps_spec / _refine_spec) against the right half
    axes the implementation builds with brentq + its own integrate.  The root function given to ps_axis is the CLOSED-FORM solution of
    F(root x q) - F x = q for the measure at hand (nothing recorded from the run goes into the model side):
      constant density on [-A, A]:  root x q = x + q * 2(A - h/2)
      HEM (Kou) right tail:         root x q = -ln(exp(-eta1 x) - q * I / (lam p)) / eta1,   I = lam p e^(-eta1 h/2) + lam (1-p) e^(-eta2 h/2)
    One Coq lemma per regular state (HEM: the first two regular states of each axis only, see below), by `interval`:  |nthr (ps_axis root h p n) i - state_i| <= tol*(1+|state_i|), tol = 1e-9 (constant
    density) / 1e-7 (HEM: 2n root searches of xtol 1e-10 whose errors are amplified by the density ratio along the tail)."""
    cases = [c for c in PS_AXIS_CASES if c[4] >= 1]
    lin = [c for c in cases if c[0] == "lin"][: (14 if not thorough else 60)]
    hem = [c for c in cases if c[0] == "real"][: (2 if not thorough else 6)]
    defs, lemmas, k = [], [], 0
    for kind, prm, h, p, n, states in lin + hem:
        res.count(("ps_axis", kind, json.dumps({a: str(b) for a, b in prm.items()}, sort_keys=True), h, p), kind=f"ps_axis vs compute_right_axis ({kind})")
        res.bump("ps_axis_regular_steps", f"{kind}: n={n}")
        if kind == "lin":
            defs.append(f"Definition rt{k} (x q : R) : R := x + q * {rlit(prm['W'])}.")
            tolr, prec = Fr(1, 10 ** 9), 90
        else:
            lam, pp, e1, e2 = (rlit(prm[a]) for a in ("intensity", "p", "eta1", "eta2"))
            inten = f"({lam} * {pp} * exp (- {e1} * ({rlit(h)} / 2)) + {lam} * (1 - {pp}) * exp (- {e2} * ({rlit(h)} / 2)))"
            defs.append(f"Definition rt{k} (x q : R) : R := - ln (exp (- {e1} * x) - q * {inten} / ({lam} * {pp})) / {e1}.")
            tolr, prec = Fr(1, 10 ** 7), 120
        # HEM: only the first two regular states -- `interval` on the nested ln(exp(.) - c) costs ~6x more per further state (2 s, 13 s, > 300 s)
        for i in range(1, (n if kind == "lin" else min(n, 2)) + 1):
            v = states[i]
            tol = tolr * (1 + abs(Fr(v)))
            lemmas.append(f"Lemma c{k}_{i} : Rabs (nthr (ps_axis rt{k} {rlit(h)} {rlit(p)} {n}%nat) {i}%nat - {rlit(v)}) <= {rlit(tol)}.\n"
                          f"Proof. unfold nthr; cbn [ps_axis nth]; unfold rt{k}; interval with (i_prec {prec}). Qed.")
        k += 1
    res.bump("ps_axis_states", len(lemmas))
    if not lemmas or not hem or not lin:
        res.broke("correspondence ps_axis", f"no case of one kind (constant density: {len(lin)}, HEM: {len(hem)}): nothing would be compared")
        return
    text = ("From Coq Require Import Reals List.\nFrom Interval Require Import Tactic.\nFrom RV Require Import Model.GridGeom.\n"
            "Open Scope R_scope.\n" + "\n".join(defs) + "\n" + "\n".join(lemmas) + "\n")
    res.case_lemmas += 1
    rc, out = coq_eval_file(PROP, "ps_axis", text, timeout=600)
    if rc != 0:
        res.broke("correspondence ps_axis", f"a regular state of compute_right_axis is not the state of ps_axis with the closed-form root: {out[-700:]}")
    else:
        res.case_ok += 1


# ------------------------------------------------------------------------------------------ wave 7: h <= 0 (F-C13-7)
def _geometric_nonpositive_h(res, rng, viol):
    """audit 4, D4: CTMCGridGeometric.__init__ / create_with_bounds with h <= 0 (and nan) on arbitrary bounds and on real models
    (real root search for the truncation): the constructor must REFUSE with its own guard ValueError (C13_geometric_rejects_R);
    a returned grid (the unrepaired code: nan / decreasing states) or an exception that is not an argument guard (numpy's
    'Geometric sequence cannot include zero' for h = 0) is a violation of `every grid constructor returns ... strictly increasing
    finite states`.  First case = the audit's witness."""
    from rpylib.grid.spatial import CTMCGridGeometric
    from stepmeasure import real_model_specs, build_model
    from rpylib.model.levydrivensde.levydrivensde import LevyDrivenSDEModel
    spec = real_model_specs(rng)[0]
    plan = [("bounds", -1.0, (-5.0, 3.0), 3, 1)]
    for h in (-1.0, -0.25, -1e-3, 0.0, -0.0, float("nan")):
        for nb in (2, 3, 5):
            plan.append(("bounds", h, (-rng.uniform(0.5, 5.0), rng.uniform(0.5, 5.0)), nb, rng.choice([1, 2, 3])))
            plan.append((rng.choice(["init", "init-sde"]), h, None, nb, 1))
    for how, h, lr, nb, dim in plan:
        args = {"h": h, "truncations": (list(lr) if lr else None), "dim": dim, "nb": nb, "how": how, "model": (spec if lr is None else None)}
        res.count(("geom-h<=0", how, repr(h), nb, dim, lr), kind=f"CTMCGridGeometric {how} with h <= 0 / nan")
        try:
            with warnings.catch_warnings():
                warnings.simplefilter("ignore")
                if how == "bounds":
                    g = CTMCGridGeometric.create_with_bounds(h=h, truncations=lr, dimension=dim, nb_of_points_on_each_side=nb)
                else:
                    m = build_model(spec)
                    g = CTMCGridGeometric(h=h, model=(m if how == "init" else LevyDrivenSDEModel(driver=m)), nb_of_points_on_each_side=nb)
        except Exception as e:  # noqa
            if is_guard(e):
                res.bump("geometric_h_nonpositive", "refused (guard ValueError)")
            else:
                res.bump("geometric_h_nonpositive", f"UNEXPECTED {type(e).__name__}")
                viol("CTMCGridGeometric with h <= 0 is not refused by an argument guard: " + f"{type(e).__name__}: {str(e)[:60]}",
                     kind="geom-h", finding="F-C13-7", exception=f"{type(e).__name__}: {str(e)[:200]}", **args)
            continue
        res.bump("geometric_h_nonpositive", "grid RETURNED")
        viol("CTMCGridGeometric accepts h <= 0 and returns a grid: " + (grid_reason(g) or "h is not positive").split(":")[-1].strip()[:60],
             kind="geom-h", finding="F-C13-7", got_axis=[repr(float(x)) for x in g.axes[0]][:25], **args)


# ------------------------------------------------------------------------------------------ wave 5: promised tail, heavy tails
HEAVY_SPECS = [
    {"family": "CGMY", "kwargs": dict(c=1.0, g=5.0, m=0.02, y=0.5)},       # slowly decaying right tail
    {"family": "CGMY", "kwargs": dict(c=0.5, g=0.03, m=4.0, y=-0.5)},      # slowly decaying left tail
    {"family": "CGMY", "kwargs": dict(c=0.3, g=0.4, m=0.3, y=1.3)},
    {"family": "CGMY", "kwargs": dict(c=1.0, g=2.0, m=0.08, y=0.2)},
    {"family": "HEM", "kwargs": dict(sigma=0.1, p=0.5, eta1=0.05, eta2=20.0, intensity=3.0)},
    {"family": "HEM", "kwargs": dict(sigma=0.1, p=0.3, eta1=12.0, eta2=0.12, intensity=5.0)},
    {"family": "MERTON", "kwargs": dict(sigma=0.1, mu_j=0.0, sigma_j=40.0, intensity=3.0)},
    {"family": "VG", "kwargs": dict(sigma=3.0, nu=5.0, theta=2.5)},
]


def _independent_tail(res, viol, spec, h, grid, ctor, args, p):
    """the grid's reported truncation bounds against the closed-form tail of the family (mpmath, independent of /repo):
    both sides must carry the REQUESTED probability (the bound is the p-quantile of the jumps beyond the first cell)"""
    import c13_tails as T
    if not T.supported(spec):
        return
    l, r = (float(v) for v in grid.truncations[0])
    cl, cr = T.coverage(spec, h, l, r)
    tol = max(1e-9, 0.02 * (1 - p))
    ok = abs(cl - p) <= tol and abs(cr - p) <= tol
    res.bump("independent_tail", f"{ctor}: {'ok' if ok else 'off'}")
    if not ok:
        viol(f"{ctor}: the reported truncation bounds do not carry the promised tail probability (closed-form tail)", kind="tail-indep",
             ctor=ctor, spec=spec, h=h, p=p, args=args, left=float(cl), right=float(cr), bounds=[l, r])


def _build_for_tail(ctor, model, h, p):
    from rpylib.grid.spatial import CTMCUniformGrid, CTMCGridGeometric, CTMCCredit
    if ctor == "CTMCUniformGrid":
        return CTMCUniformGrid(h=h, model=model, truncation_probability=p)
    if ctor == "CTMCGridGeometric":
        return CTMCGridGeometric(h=h, model=model, nb_of_points_on_each_side=6, truncation_probability=p)
    return CTMCCredit(h=h, level_a=-3.0 * h, model=model)            # takes no probability: promises the default 0.99999


def _heavy_tail_monitor(res, rng, viol, thorough):
    """heavy-tailed regimes (small exponential rates, wide jump laws; large p): EITHER the constructor refuses (guard /
    root-search ValueError) OR the grid it returns carries the requested tail probability on both sides, measured with the
    closed-form tail -- a grid that silently ends somewhere else is a violation."""
    from stepmeasure import build_model
    u = rng.uniform
    specs = list(HEAVY_SPECS)
    for _ in range(3 if not thorough else 16):
        specs.append({"family": "CGMY", "kwargs": dict(c=u(0.1, 1.5), g=10 ** u(-2, 1), m=10 ** u(-2, 1), y=rng.choice([-0.5, 0.3, 0.5, 0.8, 1.2, 1.5]))})
        specs.append({"family": "HEM", "kwargs": dict(sigma=0.1, p=u(0.2, 0.8), eta1=10 ** u(-1.5, 1.3), eta2=10 ** u(-1.5, 1.3), intensity=u(1, 6))})
    probs = [0.99999, 0.999999, 0.999, 0.9999]
    for k, spec in enumerate(specs):
        model = build_model(spec)
        for p in (probs if thorough else [probs[0], probs[1 + k % 3]]):
            for ctor in ("CTMCUniformGrid", "CTMCGridGeometric", "CTMCCredit"):
                if ctor == "CTMCCredit" and p != 0.99999:
                    continue
                h = 0.1 if k % 2 == 0 else 0.05
                args = {"model": spec, "h": h, "truncation_probability": p}
                try:
                    with warnings.catch_warnings():
                        warnings.simplefilter("ignore")
                        with np.errstate(all="ignore"):
                            g = _build_for_tail(ctor, model, h, p)
                except Exception as e:  # noqa
                    res.count(("heavy", ctor, k, p), nontrivial=False, kind=f"heavy tail {ctor}")
                    note_exception(res, "heavy_tail_outcome", e, ctor, args)
                    continue
                res.count(("heavy", ctor, json.dumps(spec, sort_keys=True), p, h), kind=f"heavy tail {ctor}")
                res.bump("heavy_tail_outcome", "grid")
                why = grid_reason(g)
                if why:
                    viol(f"{ctor} (heavy-tailed model) returns a malformed grid: " + why.split(":")[-1].strip()[:60], kind="tail-indep",
                         ctor=ctor, spec=spec, h=h, p=p, args=args, reason=why)
                    continue
                _independent_tail(res, viol, spec, h, g, ctor, args, p)


# ------------------------------------------------------------------------------------------ wave 5: probability-step n-d, SDE branch
def _probstep_nd_and_sde(res, rng, viol, thorough):
    """(i) CTMCGridProbabilityStep with dimension 2 and 3: the same axis for every dimension, well formed, refine nests with the
    grid's own middle on every axis.  (ii) the LevyDrivenSDEModel branch of compute_truncation (model.driver...): a geometric
    grid built from the SDE model must be the grid built from its driver (1-d LevyModel driver and 2-d copula driver)."""
    from rpylib.grid.spatial import CTMCGridProbabilityStep, CTMCGridGeometric, compute_truncation
    from rpylib.model.levydrivensde.levydrivensde import LevyDrivenSDEModel
    from stepmeasure import real_model_specs, build_model, build_copula_model
    specs = real_model_specs(rng)
    spec = specs[0]                                                   # HEM: closed-form mass, fast root searches
    for dim in (2, 3):
        h, pstep = 0.05, 0.1
        args = {"model": spec, "h": h, "p": pstep, "dim": dim}
        try:
            with warnings.catch_warnings():
                warnings.simplefilter("ignore")
                model = build_model(spec)
                g = CTMCGridProbabilityStep(h=h, model=model, minimum_probability_step=pstep, dimension=dim)
                res.count(("probstep-nd", dim), kind=f"CTMCGridProbabilityStep dim={dim}")
                if len(g.axes) != dim or any(not np.array_equal(a, g.axes[0]) for a in g.axes):
                    viol("CTMCGridProbabilityStep: the axes of an n-d grid differ / wrong dimension", kind="ctor",
                         ctor="CTMCGridProbabilityStep", args=args)
                _probstep_monitor(res, viol, model, g, pstep, args)
                _check_grid_and_refine(res, viol, g, "CTMCGridProbabilityStep", args, n_refine=1, exact_mid=False)
                if float(g.h) == h / 2:                                   # refined once: every gap now carries p/2
                    _probstep_monitor(res, viol, model, g, pstep / 2, args, refined=True)
        except Exception as e:  # noqa
            note_exception(res, "probstep_outcome", e, "CTMCGridProbabilityStep", args)
    for drv_specs in ([specs[0]], [specs[1]], [specs[0], specs[1]], [specs[3], specs[0], specs[1]]):
        dim = len(drv_specs)
        driver = build_model(drv_specs[0]) if dim == 1 else build_copula_model(drv_specs, "clayton")
        sde = LevyDrivenSDEModel(driver=driver, x0=(0.0 if dim == 1 else np.zeros(dim)))
        for h, p, nb in ((0.05, 0.99999, 4), (0.1, 0.999, 3)):
            args = {"models": drv_specs, "h": h, "truncation_probability": p, "nb": nb, "sde": True}
            try:
                with warnings.catch_warnings():
                    warnings.simplefilter("ignore")
                    g_sde = CTMCGridGeometric(h=h, model=sde, nb_of_points_on_each_side=nb, truncation_probability=p)
                    g_drv = CTMCGridGeometric(h=h, model=driver, nb_of_points_on_each_side=nb, truncation_probability=p)
                    lr = compute_truncation(sde, h, p)
            except Exception as e:  # noqa
                note_exception(res, "sde_branch_outcome", e, "CTMCGridGeometric(LevyDrivenSDEModel)", args)
                continue
            res.count(("sde-branch", dim, h, p), kind=f"CTMCGridGeometric(LevyDrivenSDEModel) dim={dim}")
            res.bump("sde_branch_outcome", "grid")
            why = grid_reason(g_sde)
            if why:
                viol("CTMCGridGeometric(LevyDrivenSDEModel) returns a malformed grid: " + why.split(":")[-1].strip()[:60], kind="sde",
                     reason=why, **args)
                continue
            if len(g_sde.axes) != dim or any(not np.array_equal(a, b) for a, b in zip(g_sde.axes, g_drv.axes)) \
                    or tuple(map(float, lr)) != tuple(map(float, g_sde.truncations[0])):
                viol("the grid of a LevyDrivenSDEModel is not the grid of its driver (compute_truncation, SDE branch)", kind="sde", **args)
                continue
            GEOM_R_GRIDS.append((float(lr[0]), h, float(lr[1]), nb, [float(x) for x in g_sde.axes[0]]))
            if dim == 1:
                _independent_tail(res, viol, drv_specs[0], h, g_sde, "CTMCGridGeometric(LevyDrivenSDEModel)", args, p)
            else:
                # l = min of the margins' left bounds, r = max of the right bounds: the margin attaining it keeps exactly p
                import c13_tails as T
                cov = [T.coverage(sp, h, float(lr[0]), float(lr[1])) for sp in drv_specs]
                tol = max(1e-9, 0.02 * (1 - p))
                if abs(min(c[0] for c in cov) - p) > tol or abs(min(c[1] for c in cov) - p) > tol:
                    viol("n-d SDE model: the grid's end points do not carry the requested truncation probability (closed-form tails)",
                         kind="sde", left=float(min(c[0] for c in cov)), right=float(min(c[1] for c in cov)), **args)



def _check_grid_and_refine(res, viol, grid, ctor, args, n_refine=2, exact_mid=True, finding=None):
    why = grid_reason(grid)
    extra = {"finding": finding} if finding else {}
    if why:
        viol(f"{ctor} returns a malformed grid: " + why.split(":")[-1].strip()[:60], kind="ctor", ctor=ctor, args=args, reason=why, **extra)
        return
    for n in range(1, n_refine + 1):
        before = snapshot(grid, with_mids=True)
        try:
            grid.refine()
        except Exception as e:  # noqa
            viol(f"{ctor}: refine raises {type(e).__name__}", kind="ctor", ctor=ctor, args=args, n=n, reason=str(e)[:200])
            return
        why = nesting_reason(before, grid, exact_mid=exact_mid) or grid_reason(grid)
        if why:
            viol(f"{ctor}: refine breaks nesting/admissibility: " + why[:60], kind="ctor", ctor=ctor, args=args, n=n, reason=why, **extra)
            return


def _tail_monitor(res, viol, model, grid, ctor, args, target=0.99999, finding=None):
    """promised tail probability of compute_truncation at the grid's reported truncation bounds (monitor, tolerance 2e-7:
    2% of the tail 1e-5 that is being cut; brentq's own tolerance is ~1e-12)"""
    nu = model.levy_triplet.nu
    h = grid.h
    l, r = grid.truncations[0]
    try:
        with np.errstate(all="ignore"):
            pr = nu.integrate(h / 2, r) / nu.integrate(h / 2, np.inf)
            pl = nu.integrate(l, -h / 2) / nu.integrate(-np.inf, -h / 2)
    except Exception as e:  # noqa
        res.bump("tail_monitor", f"not evaluated: {type(e).__name__}")
        return
    if not (np.isfinite(pr) and np.isfinite(pl)):
        res.bump("tail_monitor", "not evaluated: non-finite mass ratio")
        return
    ok = abs(pr - target) <= 2e-7 and abs(pl - target) <= 2e-7
    res.bump("tail_monitor", f"{ctor}: {'ok' if ok else 'off'}")
    if not ok:
        viol(f"{ctor}: end points do not carry the promised tail probability", kind="ctor", ctor=ctor, args=args,
             left=float(pl), right=float(pr), target=target, **({"finding": finding} if finding else {}))


def _probstep_monitor(res, viol, model, grid, pstep, args, refined=False):
    """per-gap probability of a probability-step grid (level 0): every interior gap beyond [0, h] carries the requested
    probability p of the jump measure (two root searches of p/2 each, xtol 1e-10); the last two gaps of a side are built
    by extrapolation when the tail is exhausted and are exempt.  Monitor with tolerance 1e-6."""
    nu = model.levy_triplet.nu
    ax = [float(x) for x in grid.axes[0]]
    o = origin_indices(grid)[0]
    lam = float(grid.intensity_of_jumps)
    off = []
    with np.errstate(all="ignore"):
        # refined=True: the grid was refined once (C13_probstep_refine: every gap then carries pstep = p/2); the two halves of the
        # old gaps [-h, 0], [0, h] and twice as many end gaps are exempt
        near, ends = (2, 3) if refined else (1, 1)
        for k in list(range(0, o - near)) + list(range(o + near, len(ax) - 1)):
            pk = float(nu.integrate(ax[k], ax[k + 1])) / lam
            exempt = k <= ends or k >= len(ax) - 2 - ends
            res.bump("probstep_gap", "exempt end gap" if exempt else ("p" if abs(pk - pstep) <= 1e-6 else "off"))
            if not exempt and abs(pk - pstep) > 1e-6:
                off.append((k, pk))
    if off:
        viol("CTMCGridProbabilityStep: an interior gap does not carry the requested step probability" + (" after refine (p/2)" if refined else ""),
             kind="ctor", ctor="CTMCGridProbabilityStep", args=args, gaps=[[k, pk] for k, pk in off[:5]], requested=pstep, refined=refined)


def _probstep_massless_gaps(res, viol):
    """F-C13-6: probability-step grids whose end gaps have float mass 0 (narrow jump law, large h): refine must not duplicate states"""
    from rpylib.grid.spatial import CTMCGridProbabilityStep
    from stepmeasure import build_model
    for kw, h, pstep in ((dict(sigma=0.1, mu_j=0.01, sigma_j=0.0626, intensity=7.6), 0.3, 0.01),
                         (dict(sigma=0.1, mu_j=0.0, sigma_j=0.05, intensity=3.0), 0.25, 0.02)):
        spec = {"family": "MERTON", "kwargs": kw}
        args = {"model": spec, "h": h, "p": pstep}
        try:
            with warnings.catch_warnings():
                warnings.simplefilter("ignore")
                g = CTMCGridProbabilityStep(h=h, model=build_model(spec), minimum_probability_step=pstep)
                res.count(("probstep-massless", h, pstep), kind="CTMCGridProbabilityStep (massless end gaps)")
                _check_grid_and_refine(res, viol, g, "CTMCGridProbabilityStep", args, n_refine=2, exact_mid=False, finding="F-C13-6")
        except Exception as e:  # noqa
            note_exception(res, "probstep_outcome", e, "CTMCGridProbabilityStep", args)


def _tail_probabilities(res, rng, viol, thorough):
    """every constructor that takes a truncation_probability (CTMCUniformGrid, CTMCGridGeometric; CTMCCredit and the
    probability-step grid take none), dimension 1-3, several NON-default probabilities: the tail mass kept on each side
    must be the requested one (root finder tolerance; 2% of the tail that is cut)"""
    from rpylib.grid.spatial import CTMCUniformGrid, CTMCGridGeometric
    from stepmeasure import real_model_specs, build_model, build_copula_model
    specs = real_model_specs(rng)
    probs = [0.9, 0.99, 0.999, 0.999999]
    plan = []
    for k, spec in enumerate(specs):
        for p in (probs if thorough else [probs[(k + i) % 4] for i in (0, 2)]):
            plan.append(([spec], p))
    plan += [([specs[0], specs[0]], 0.99), ([specs[1], specs[2]], 0.999), ([specs[0], specs[1], specs[0]], 0.9)]   # copula models, dim 2-3
    for model_specs, p in plan:
        dim = len(model_specs)
        margins = [build_model(sp) for sp in model_specs]
        model = margins[0] if dim == 1 else build_copula_model(model_specs, "clayton")
        for ctor in ("uniform", "geometric"):
            h = 0.02
            args = {"models": model_specs, "h": h, "truncation_probability": p, "ctor": ctor}
            try:
                with warnings.catch_warnings():
                    warnings.simplefilter("ignore")
                    g = (CTMCUniformGrid(h=h, model=model, truncation_probability=p) if ctor == "uniform"
                         else CTMCGridGeometric(h=h, model=model, nb_of_points_on_each_side=4, truncation_probability=p))
            except Exception as e:  # noqa
                note_exception(res, "tailprob_outcome", e, ctor, args)
                continue
            res.count(("tailprob", ctor, dim, p, json.dumps(model_specs, sort_keys=True)), kind=f"tail probability {ctor} dim={dim}")
            res.bump("tail_probability_requested", p)
            why = grid_reason(g)
            if why:
                viol(f"{ctor} grid with a non-default truncation probability is malformed: " + why.split(":")[-1].strip()[:60],
                     kind="tailprob", reason=why, **args)
                continue
            # l = min over the margins' left bounds, r = max over the right bounds: the margin attaining the bound keeps exactly p
            l, r = g.truncations[0]
            lefts, rights = [], []
            for m in margins:
                nu = m.levy_triplet.nu
                with np.errstate(all="ignore"):
                    rights.append(nu.integrate(h / 2, r) / nu.integrate(h / 2, np.inf))
                    lefts.append(nu.integrate(l, -h / 2) / nu.integrate(-np.inf, -h / 2))
            tol = max(1e-9, 0.02 * (1 - p))
            got_l, got_r = min(lefts), min(rights)
            if not (abs(got_l - p) <= tol and abs(got_r - p) <= tol):
                viol("the grid's end points do not carry the REQUESTED truncation probability", kind="tailprob",
                     left=float(got_l), right=float(got_r), requested=p, **args)


def _oracle_constructors(res, rng, scale, viol):
    from rpylib.grid.spatial import (CTMCUniformGrid, CTMCGridGeometric, CTMCGridProbabilityStep, CTMCCredit, compute_truncation)
    from stepmeasure import real_model_specs, build_model, build_copula_model, random_step_measure, step_spec, StepModel
    for rep in range(scale):
        specs = real_model_specs(rng)
        for _ in range(3):
            nu = random_step_measure(rng, Fr(-rng.randrange(2, 6)), Fr(rng.randrange(2, 6)), zero_prob=0.0)
            nu.strict = False
            specs.append(step_spec(nu))
        # truncation bounds between h and 2h on one side: int(r/h) = 1 resp. int(|l|/h) = 1 (F-C13-5 / F-C13-1)
        from stepmeasure import StepMeasure
        specs.append(dict(step_spec(StepMeasure([Fr(-2), Fr(0), Fr(2, 5)], [Fr(3), Fr(3)], strict=False)), hs=[0.25, 0.125]))
        specs.append(dict(step_spec(StepMeasure([Fr(-2, 5), Fr(0), Fr(2)], [Fr(3), Fr(3)], strict=False)), hs=[0.25, 0.125]))
        for spec in specs:
            fam = spec["family"]
            try:
                model = build_model(spec)
            except Exception as e:  # noqa
                res.notes.append(f"model family {fam} could not be built: {type(e).__name__}: {e}")
                continue
            hs = [0.02, 0.05, 0.1] if fam != "STEP" else [0.25, 0.5, 1.0]
            hs.append(rng.choice([0.3, 0.6, 1.2, 2.5]))          # large h relative to the truncation
            hs = spec.pop("hs", hs)
            for h in hs:
                args = {"model": spec, "h": h}
                # uniform (also a tolerance correspondence case: linspace is modelled as its mathematical sequence)
                try:
                    lr = compute_truncation(model, h)
                except Exception:  # noqa
                    lr = None
                # the model takes int(|l|/h) as the floor of the EXACT quotient; the code floors the ROUNDED float quotient.  They
                # differ only if the float division rounds across an integer: decided exactly (no tolerance band) and counted
                if lr is not None and lr[0] < 0 < lr[1]:
                    same_floor = all(int(abs(v) / h) == math.floor(abs(Fr(float(v))) / Fr(h)) for v in lr)
                    res.bump("uniform_int_division", "float floor == exact floor" if same_floor else "float division rounds across an integer")
                if lr is not None and lr[0] < 0 < lr[1] and same_floor:
                    try:
                        gu = CTMCUniformGrid(h=h, model=model)
                        exp = (gu.axes[0].tolist(), origin_indices(gu)[0]) if len(gu.axes[0]) <= 400 else "skip"
                    except ValueError as e:
                        exp = None if is_guard(e) else "skip"
                    if exp != "skip":
                        UNIFORM_CASES.append(f"({qlit(lr[0])}, {qlit(h)}, {qlit(lr[1])}, "
                                             f"{opt(exp, lambda e: '(' + lst([qlit(x) for x in e[0]]) + ', ' + natlit(e[1]) + ')')})")
                try:
                    g = CTMCUniformGrid(h=h, model=model)
                    res.count(("uniform", fam, h, rep), kind="CTMCUniformGrid")
                    res.bump("uniform_outcome", "grid")
                    _tail_monitor(res, viol, model, g, "CTMCUniformGrid", args, finding="F-C13-5")
                    _independent_tail(res, viol, spec, h, g, "CTMCUniformGrid", args, 0.99999)
                    _check_grid_and_refine(res, viol, g, "CTMCUniformGrid", args, finding="F-C13-1")
                except Exception as e:  # noqa
                    res.count(("uniform", fam, h, rep), nontrivial=False, kind="CTMCUniformGrid")
                    note_exception(res, "uniform_outcome", e, "CTMCUniformGrid", args)
                # geometric
                for nb in (2, 3, rng.randrange(4, 12)):
                    try:
                        g = CTMCGridGeometric(h=h, model=model, nb_of_points_on_each_side=nb)
                        res.count(("geometric", fam, h, nb, rep), kind="CTMCGridGeometric")
                        if fam != "STEP" and rep == 0:
                            GEOM_R_GRIDS.append((float(g.truncations[0][0]), h, float(g.truncations[0][1]), nb, [float(x) for x in g.axes[0]]))
                            if nb == 3:
                                _independent_tail(res, viol, spec, h, g, "CTMCGridGeometric", dict(args, nb=nb), 0.99999)
                        if nb == 3:
                            _tail_monitor(res, viol, model, g, "CTMCGridGeometric", dict(args, nb=nb))
                        _check_grid_and_refine(res, viol, g, "CTMCGridGeometric", dict(args, nb=nb), finding="F-C13-4")
                    except Exception as e:  # noqa
                        note_exception(res, "geometric_outcome", e, "CTMCGridGeometric", dict(args, nb=nb))
                # credit through the real root search
                try:
                    l, r = compute_truncation(model, h)
                    a = float(rng.uniform(l * 0.9, -1.5 * h))
                    g = CTMCCredit(h=h, level_a=a, model=model)
                    res.count(("credit-real", fam, h, rep), kind="CTMCCredit(real truncation)")
                    _tail_monitor(res, viol, model, g, "CTMCCredit", dict(args, level_a=a))
                    _check_grid_and_refine(res, viol, g, "CTMCCredit", dict(args, level_a=a), finding="F-C13-3")
                except Exception as e:  # noqa
                    note_exception(res, "credit_real_outcome", e, "CTMCCredit", args)
            # with bounds (no model)
            for _ in range(2):
                h = rng.choice([0.01, 0.1, 0.25])
                l, r = -rng.uniform(2 * h, 3.0), rng.uniform(2 * h, 3.0)
                nb = rng.randrange(2, 10)
                dim = rng.choice([1, 2, 3])
                g = CTMCGridGeometric.create_with_bounds(h=h, truncations=(l, r), dimension=dim, nb_of_points_on_each_side=nb)
                res.count(("bounds", h, l, r, nb, dim), kind="create_with_bounds")
                _check_grid_and_refine(res, viol, g, "CTMCGridGeometric.create_with_bounds", {"h": h, "truncations": [l, r], "dim": dim, "nb": nb}, finding="F-C13-4")
            # probability step (slow root searches: few cases); the grid's own middle is +-h/2 next to the origin and a
            # root-found equal-probability point elsewhere: inserted states must be the OLD grid's cell boundaries
            if fam in ("HEM", "MERTON", "VG") and rep == 0:
                for h, pstep in ((0.05, 0.1), (0.02, 0.2)):
                    try:
                        g = CTMCGridProbabilityStep(h=h, model=model, minimum_probability_step=pstep)
                        res.count(("probstep", fam, h), kind="CTMCGridProbabilityStep")
                        _probstep_monitor(res, viol, model, g, pstep, {"model": spec, "h": h, "p": pstep})
                        _check_grid_and_refine(res, viol, g, "CTMCGridProbabilityStep", {"model": spec, "h": h, "p": pstep},
                                               n_refine=2 if h == 0.05 else 1, exact_mid=False)
                    except Exception as e:  # noqa
                        note_exception(res, "probstep_outcome", e, "CTMCGridProbabilityStep", {"model": spec, "h": h, "p": pstep})
        # copula models: shared axes for every margin
        sp = real_model_specs(rng)
        cm = build_copula_model([sp[0], sp[1]], "clayton")
        for h in (0.05, 0.1):
            try:
                g = CTMCUniformGrid(h=h, model=cm)
                res.count(("uniform-2d", h, rep), kind="CTMCUniformGrid 2d")
                _check_grid_and_refine(res, viol, g, "CTMCUniformGrid(copula)", {"h": h, "models": [sp[0], sp[1]]}, n_refine=1)
                l, r = compute_truncation(cm, h)
                g = CTMCCredit(h=h, level_a=[float(rng.uniform(l * 0.8, -2 * h)), float(rng.uniform(l * 0.8, -2 * h))], model=cm,
                               symmetric_grid=rng.random() < 0.5)
                res.count(("credit-2d", h, rep), kind="CTMCCredit 2d (real truncation)")
                _check_grid_and_refine(res, viol, g, "CTMCCredit(copula)", {"h": h, "models": [sp[0], sp[1]]}, n_refine=1, finding="F-C13-3")
            except ValueError as e:
                note_exception(res, "copula_ctor_outcome", e, "CTMCUniformGrid/CTMCCredit(copula)", {"h": h})
        # CTMCCredit in dimension 2 and 3 with well separated thresholds, real truncation search
        for levels, h in (([-0.05, -0.2], 0.02), ([-0.2, -0.05, -0.1], 0.02), ([-0.3, -0.08], 0.01)):
            for sym in (True, False):
                cmN = build_copula_model([sp[k % len(sp)] for k in range(len(levels))], "clayton")
                try:
                    g = CTMCCredit(h=h, level_a=list(levels), model=cmN, symmetric_grid=sym)
                except ValueError as e:
                    note_exception(res, "copula_ctor_outcome", e, "CTMCCredit(copula)", {"h": h, "levels": levels})
                    continue
                res.count(("credit-nd", tuple(levels), h, sym, rep), kind=f"CTMCCredit {len(levels)}d (real truncation)")
                for k, a in enumerate(levels):
                    if abs(0.5 * (g.axes[k][1] + g.axes[k][2]) - a) > 1e-15:
                        viol("CTMCCredit: the cell boundary between the two threshold states is not the threshold", kind="ctor",
                             ctor="CTMCCredit(copula)", args={"h": h, "levels": levels, "sym": sym})
                _check_grid_and_refine(res, viol, g, "CTMCCredit(copula)", {"h": h, "levels": levels, "sym": sym}, n_refine=2, finding="F-C13-3")


def search(res):
    rng = random.Random(res.seed + 1)

    def viol(what, **kw):
        res.violation(what, dict(kw))
    _oracle_constructors(res, rng, 4 if res.tier == "quick" else 12, viol)


def replay(path):
    data = json.load(open(path))
    print(json.dumps(data, indent=1)[:4000])
    from rpylib.grid.spatial import CTMCGrid, CTMCUniformGrid, CTMCGridGeometric, CTMCCredit
    from stepmeasure import build_model
    k = data.get("kind")
    try:
        if k == "fixed":
            g = build_fixed(data["h"], data["nb"], data["dim"])
        elif k == "credit":
            g = build_credit(data["l"], data["r"], data["h"], data["levels"], data["sym"])
        elif k == "refine":
            arr = np.array(data["axis"], dtype=float)
            axes = [arr] * data["dim"] if data["shared"] else [arr.copy() for _ in range(data["dim"])]
            g = CTMCGrid(h=data["h"], origin_coordinate=data["o"], axes=axes)
            for n in range(data["n"]):
                before = snapshot(g)
                g.refine()
                why = nesting_reason(before, g) or grid_reason(g)
                if why:
                    print("still fails:", why)
                    return 1
            print("no failure on replay")
            return 0
        elif k == "tailprob":
            out = []
            from stepmeasure import build_copula_model
            ms = data["models"]
            margins = [build_model(sp) for sp in ms]
            model = margins[0] if len(ms) == 1 else build_copula_model(ms, "clayton")
            p, h = data["truncation_probability"], data["h"]
            g = (CTMCUniformGrid(h=h, model=model, truncation_probability=p) if data["ctor"] == "uniform"
                 else CTMCGridGeometric(h=h, model=model, nb_of_points_on_each_side=4, truncation_probability=p))
            l, r = g.truncations[0]
            lefts = [m.levy_triplet.nu.integrate(l, -h / 2) / m.levy_triplet.nu.integrate(-np.inf, -h / 2) for m in margins]
            rights = [m.levy_triplet.nu.integrate(h / 2, r) / m.levy_triplet.nu.integrate(h / 2, np.inf) for m in margins]
            print("requested", p, "achieved left", min(lefts), "right", min(rights))
            bad = abs(min(lefts) - p) > max(1e-9, 0.02 * (1 - p)) or abs(min(rights) - p) > max(1e-9, 0.02 * (1 - p))
            print("still fails" if bad else "no failure on replay")
            return 1 if bad else 0
        elif k == "tail-indep":
            import c13_tails as T
            spec, h, p = data["spec"], data["h"], data["p"]
            try:
                g = _build_for_tail(data["ctor"].split("(")[0], build_model(spec), h, p)
            except ValueError as e:
                print("constructor refuses (ValueError):", e)
                return 0
            l, r = (float(v) for v in g.truncations[0])
            cl, cr = T.coverage(spec, h, l, r)
            print("bounds", (l, r), "requested", p, "closed-form coverage left", float(cl), "right", float(cr))
            bad = abs(cl - p) > max(1e-9, 0.02 * (1 - p)) or abs(cr - p) > max(1e-9, 0.02 * (1 - p))
            print("still fails" if bad else "no failure on replay")
            return 1 if bad else 0
        elif k == "geom-h":
            if data["how"] == "bounds":
                g = CTMCGridGeometric.create_with_bounds(h=data["h"], truncations=tuple(data["truncations"]), dimension=data["dim"],
                                                         nb_of_points_on_each_side=data["nb"])
            else:
                from rpylib.model.levydrivensde.levydrivensde import LevyDrivenSDEModel
                m = build_model(data["model"])
                g = CTMCGridGeometric(h=data["h"], model=(m if data["how"] == "init" else LevyDrivenSDEModel(driver=m)),
                                      nb_of_points_on_each_side=data["nb"])
        elif k == "uniform-exact":
            with _patched_truncation(data["l"], data["r"]):
                g = CTMCUniformGrid(h=data["h"], model=dummy_model(data["dim"]))
        elif k == "ctor":
            a = data["args"]
            model = build_model(a["model"]) if "model" in a else None
            if data["ctor"] == "CTMCUniformGrid":
                g = CTMCUniformGrid(h=a["h"], model=model)
            elif data["ctor"] == "CTMCGridGeometric":
                g = CTMCGridGeometric(h=a["h"], model=model, nb_of_points_on_each_side=a["nb"])
            elif data["ctor"] == "CTMCCredit":
                g = CTMCCredit(h=a["h"], level_a=a["level_a"], model=model)
            elif data["ctor"] == "CTMCGridGeometric.create_with_bounds":
                g = CTMCGridGeometric.create_with_bounds(h=a["h"], truncations=tuple(a["truncations"]), dimension=a["dim"],
                                                         nb_of_points_on_each_side=a["nb"])
            else:
                print("replay: re-run ./check C13 for this constructor")
                return 1
        else:
            print("replay: unknown kind; re-run ./check C13")
            return 1
    except ValueError as e:
        if k == "geom-h" and not is_guard(e):
            print("still fails: h <= 0 is not refused by an argument guard:", e)
            return 1
        print("constructor now raises ValueError:", e)
        return 0
    why = grid_reason(g)
    print("axes:", [a.tolist() for a in g.axes], "origin:", origin_indices(g), "h:", g.h)
    if why:
        print("still fails:", why)
        return 1
    for n in range(2):
        before = snapshot(g)
        g.refine()
        why = nesting_reason(before, g, exact_mid=(data.get("ctor") != "CTMCGridProbabilityStep")) or grid_reason(g)
        if why:
            print("still fails after refine:", why)
            return 1
    print("no failure on replay")
    return 0

"""C14 -- index/state enumerations are bijections: correspondence + implementation oracle."""
import itertools
import json
import random

from common import zlit, lst, tup, blit, coq_bad_indices, parallel_coq_bad, CoqError

PROP = "C14"
PROPERTY_FILE = "Properties/C14.v"
GEN_DEPS = ["GenPairing"]
RULE = ("cases: exhaustive small ranges + boundary families m^2-1,m^2,m^2+1 (m up to 2^31), m^3+-1, random 60-bit values, "
        "interval shapes L,R in [1,40] with shuffled call orders, size tuples of length 1-4; real Domain/StatesManager objects on 16 "
        "1-d shapes (+ 6 with the origin on an edge of the grid, L = 0 or R = 0) and 16 n-d grids (d = 2,3; centred, off-centre and edge origins; unequal axes) x {Szudzik, Rosenberg-Strong} x "
        "{no, rectangle, simplex, small simplex, MyBoundary} boundaries, on each of them every position of the frontier deque drawn on exhaustion "
        "(np.random.choice scripted; every drawn state compared with the model's fd_state over the model's deque, its class and recorded cause and the boolean hypotheses of the admissibility theorems evaluated in Coq) + one protocol history with draws and restarts; a_n on 0..599, around squares, random < 2e6 and m^2-1 above 2^52; "
        "upper_bound_a_n on 0..259, block edges a_n(m)-1, a_n(m), a_n(m)+1 and random z < 3e5 with the recorded float guesses; hyperbolic pairing2d/projection2d "
        "against the model with sympy's factorisation as data (0-6 distinct primes, primality of the bases re-checked in Coq); is_prime_b against sympy.isprime on 0..699 + large values; "
        "the bracket of upper_bound_a_n for EVERY z <= 16000 (quick) / 100000 (thorough) as one generated Coq theorem; "
        "non-trivial = distinct case whose index/tuple is not all-zero")
MODELLED = ["PairingToZ1d.__init__ dispatch, PairingToZd glue (d = 2 pair form and general d list form zdn_*), the generic nested "
            "Pairing.pairing/projection (nest_*), PepisKalmar recursion, lazy_indices_product, RosenbergStrong n-d, a_n "
            "(hand models in Model/Pairing.v, tied by vm_compute correspondence)",
            "Domain.compute_total_number_of_states_and_frontier, StatesManager.__init__/is_outside (Model/Domain.v) and "
            "project_index_to_state_increment (Model/StatesManager.v): hand models; the grid box is axis sizes + one origin index, "
            "Domain.outside enters as the list of in-grid states it rejects (data), tied by correspondence on real Domain/StatesManager objects",
            "StatesManager._sample_frontier_state_increment / the exhaustion branch of project_index_to_state_increment (Model/FrontierDraw.v): "
            "np.random.choice(deque) = deque[c] with the position c an explicit input; the deque is the one the model of Domain computes; tied on real "
            "objects by scripting np.random.choice only (every position, and protocol histories: returned (state, flag) and machine state after every call)",
            "RosenbergStrong.projection's upward correction of the float root (pairing.py:93) for roots above 2^27 and Cantor.projection(dim != 2) "
            "(NotImplementedError): oracle only (the exact iroot of the model is too slow by vm_compute at that size)",
            "HyperbolicPairing (Model/Hyperbolic.v): upper_bound_a_n = bracket selection + bisection with the three float guesses of inv_guess_a "
            "(scipy Halley root finder) as inputs; pairing2d / projection2d with sympy.factorint's result as an input that the model checks (fact_of: "
            "increasing bases > 1, positive exponents, product = n -- NO primality, e.g. [(4,1);(15,1)] passes for 60; primality is the separate check fact_primes); sympy.multiplicity by repeated division; the float division "
            "floor((z - a_n(n-1)) / prod) of projection2d as integer division (exact below 2^53); np.prod as an unbounded product; "
            "inv_guess_a and factorint themselves are NOT modelled: factorint's result is verified inside Coq (fact_of, and fact_primes of Model/HyperbolicPrimes.v: "
            "trial-division primality of every base, itself compared with sympy.isprime), inv_guess_a's three guesses are recorded from the real function",
            "boolean forms of the hypotheses of the frontier-draw theorems and the class / recorded cause of a drawn state (Model/FrontierDrawCheck.v: fd_hyp_nd, fd_hyp_1d, "
            "draw_class, fd_known_cause_*): evaluated by vm_compute for every real object and for every violation matches_known() is asked about",
            "functools.cache/lru_cache: modelled as identity on pure functions"]
ASSUMPTIONS = ["Python int is unbounded (Z); math.isqrt is the integer square root (Z.sqrt)"]
THEOREM_NOTES = {
    "C14_rs_nd_*": "d-dimensional Rosenberg-Strong: both directions for every dimension d >= 1; iroot is the exact integer root (the repaired code corrects its float guess to it; C14_iroot_unique)",
    "C14_sm_*": "StatesManager.project_index_to_state_increment as a state machine: over increasing indices without reset it returns exactly the in-grid indices <= max frontier, each once, then exhaustion for ever (the frontier draw returned with the exhaustion flag: C14_frontier_* / C14_fd_protocol)",
    "C14_sm_complete_*": "ONE theorem per enumeration (1-d PairingToZ1d; d >= 2 nested Szudzik, d = 2 being the factory's; d >= 2 Rosenberg-Strong): with max_frontier_indices computed by the model of Domain/StatesManager.__init__, the increasing drive returns every in-grid, in-domain, non-origin state exactly once, then exhaustion; the domain is an arbitrary predicate on state increments; origin index 0 <= o < last axis size is assumed only by the frontier entry all_states[o], not by the theorems",
    "C14_sm_protocol": "repaired method (fix a459753: a restart resumes after the last LOGGED state; state = (_last_projected_index, _last_logged_index)): under InversionMethod's protocol (x = rank of the requested admissible state, max_logged = M >= 1, restarts at rank M once M states are stored, repeats after exhaustion) the call with rank x returns the x-th admissible index for EVERY enumeration; C14_sm_step_char characterises every call exactly; the unrepaired method was refuted (F-C14-6, root cause of F-C02-7: 0,2,2,3 instead of 0,2,3,exhaustion on the witness of Example sm_restart_nonvacuous)",
    "C14_zdn*": "PairingToZd for every dimension over Rosenberg-Strong (d >= 1) and nested Szudzik (d >= 2), omit_zero True and False, both directions; C14_nested_* hold for ANY 2-d bijection (Cantor.projection raises for dim != 2 in the code)",
    "C14_a_n_divisor_summatory": "a_n with the integer square root (the repaired code, fix 21d4376; finding F-C14-7 for the float sqrt) equals sum_{k<=n} floor(n/k); HyperbolicPairing beyond a_n: C14_upper_bound_*, C14_a_n_block_* and C14_hyperbolic_*",
    "C14_frontier_entries / C14_frontier_draw_char": "exact content of the deque Domain.compute_total_number_of_states_and_frontier returns (n-d, any domain predicate, any pairing that is a bijection): per line of the box the FIRST and LAST in-domain state, or -- whole line outside the domain -- the state of the line at the last axis' origin (fr_axis: an out-of-domain state, defect F-C14-8); a draw returns exactly that state since project inverts pair on every state, the origin (index -1) included",
    "C14_frontier_draw_{szudzik_nd,rs_nd,factory,z1d}": "admissible (in grid, in domain, not the origin) frontier state for EVERY position c, under: every line meets the domain + the origin has in-domain states on both sides of its line; unconditional for the factory's Boundary() with 0 < o < last_size - 1 (an origin on the edge of the last axis is OUTSIDE the theorem and the draw then returns the origin: C14_frontier_draw_edge_origin_refuted); 'frontier' is the code's notion (first/last in-domain state along the LAST axis only); 1-d: the deque is [pair R; pair(-L)] whatever the boundary (ends outside the domain come back: F-C14-8)",
    "C14_frontier_draw_checked / _z1d_checked": "wave 7 (audit4 table: the two hypotheses were evaluated only inside matches_known): the hypotheses as ONE boolean of the model (fd_hyp_nd / fd_hyp_1d, reflection lemmas lines_meet_b_spec, origin_interior_b_spec); where it evaluates to true every position of the real deque draws a state of class 0. The fdstate1d / fdstatend correspondence evaluates it for every real object, compares it with the value computed from the implementation's Domain.outside, compares the model's fd_state with the implementation's draw at EVERY position, and requires every inadmissible draw to be of a recorded class for its recorded cause (fd_known_cause_*)",
    "C14_fd_protocol_spec": "RELABELLED (audit4 B8: definitional): fd_step hands sm_step_index's machine state through, so C14_sm_protocol lifts by map fst -- true by construction of the model, with a FREE deque (empty or unrelated deques are instances; the default -1 of nth would be read). Kept only as the lemma the real-deque theorems are built on. That the CODE's draw does not touch (_last_projected_index, _last_logged_index) is a tested fact (fd_lasts in the fdraw1d / fdrawnd correspondence after every call), not a theorem",
    "C14_fd_protocol_{nd,szudzik_nd,rs_nd,z1d}": "the protocol with draws over the REAL deque: frontier = snd (dom_nd ..) / snd (dom_1d ..), maxf = dom_maxf of the same result, outside = StatesManager.is_outside of the same box and domain; hypotheses: InversionMethod's protocol and every scripted position c < len(deque) (np.random.choice returns an element; on an empty deque it raises -- the n-d deque is proved non-empty, the 1-d one has length 2). Conclusion per call: (x-th admissible state, False) with is_outside false, or (state of deque entry c, True) where that state satisfies draw_char = the conclusion of C14_frontier_draw_char (first / last in-domain state of a line, or the last-axis-origin state of a line wholly outside the domain); 1-d: R for c = 0, -L for c = 1. A composition of C14_sm_protocol, C14_frontier_length, C14_frontier_draw_char, C14_frontier_draw_z1d; 1-d needs the interior origin 0 < o < n - 1 (edge origins: refuted, see below)",
    "C14_fd_state_default_irrelevant": "audit4 B8, C02's copy of the draw: Model/InversionFrontier.v (C02's file) defines frontier_state c = proj (nth c fr 0), C14's fd_state reads nth c fr (-1). The default is read only for c >= len(deque), which np.random.choice cannot produce; on every position of the deque the two definitions are the same function (this theorem, any default). Not aligned textually because the file belongs to C02; the index -1 is the natural default here (project(-1) is the origin for omit_zero pairings, the worst case)",
    "C14_frontier_draw_{origin,outside,edge_origin}_refuted": "F-C14-8 on the faithful model (code as is): RectangleBoundary([(-2,2),(-.5,.5)]) on a 5x5 grid, position 4 -> the origin; SimplexBoundary([(-1,1),(-1,1)]), position 0 -> (2,0) outside the domain; and WITHOUT any custom Domain (audit4 D1): the default Boundary() on a grid whose origin is on the edge of the (last) axis -- 1-d, 5 points, origin index 0, position 1 and 2-d 4x4, origin index 0, position 7 return the origin. Such grids come only from the public constructor CTMCGrid(origin_coordinate=0) (samplingfactory has a left == 0 branch for them), no library grid builder makes them; the oracle reports all three kinds on real objects, each with its cause; the sentence 'not reachable through the factory' of the recorded text of F-C14-8 is true only for interior origins (correction of the text proposed to the integrator)",
    "C14_upper_bound_a_n_spec / _unique": "conditional on the validity of the bracket selected from the float guesses (0 <= n_guess; a_n(n_low) <= z if a_n(n_guess) > z; z < a_n(n_high) if a_n(n_guess) < z): NOT proved for all z (Halley iteration in floating point; asymptotically the bracket width 3 z^(1/4) is the conjectured, unproved, order of the Dirichlet divisor error); certified for every z <= N per run (C14_ub_table_spec) and validated on the implementation's guesses for every other z visited (histogram upper_bound_bracket_valid); numbers.py:58 (z == 0) is the first branch of the model",
    "C14_mixed_radix_{decode,encode}": "audit4 B9: these were C14_hyperbolic_offset_{decode,encode} (earlier _partial) with a phantom n (used only in fact_of fact n) and a fact used only through its radices 1 + e_i; they hold for ANY positive radices and say nothing about the pairing. Restated as what they are: the generic mixed-radix bijection between the box and [0, prod m_i) (lazy_tuple inverts mixed_encode and conversely)",
    "C14_hyperbolic_offset_of_pairing": "the statement that IS about the pairing: for a factorisation passing fact_of AND fact_primes, pairing2d(x, y) = a_n(n-1) + mixed-radix code of the exponent vector of x+1, 0 <= code < a_n(n) - a_n(n-1), and projection2d's x_exponents decode it to that vector ((0,0) is the code's special case). Example C14_hyp_offset_needs_primes: fact_of alone accepts [(4,1);(15,1)] and [(60,1)] for 60 and the three accepted lists give the offsets 5, 1, 0 for (11,4): every theorem that mentions hyp_pairing2d / hyp_projection2d / fprod carries fact_primes",
    "C14_divisor_exponent_vector / C14_exponent_vector_unique / C14_multiplicity_spec": "unique factorisation as HyperbolicPairing uses it, for a factorisation that passes the model's checks fact_of (increasing bases > 1, positive exponents, product n) AND fact_primes (every base prime by trial division, C14_is_prime_b_sound): every positive divisor of n is prod p_i^r_i for a vector of the box (Gauss / Euclid via Znumtheory), and sympy.multiplicity (repeated division, model multiplicity) reads the vector back, so distinct vectors give distinct divisors",
    "C14_a_n_block_is_divisor_count / C14_a_n_block_size": "a_n(n) - a_n(n-1) = number of divisors of n (from a_n = divisor summatory function) = prod (1 + e_i): the block of n has exactly as many indices as the offset code has values",
    "C14_hyperbolic_{pairing_in_block,proj_pair,pair_proj}": "FULL round trip of HyperbolicPairing on the model, both directions, all x, y, z >= 0 (no statement about the pairing holds for arbitrary radices: all carry fact_of and fact_primes): projection2d(pairing2d(x,y)) = (x,y) with upper_bound_a_n returning (x+1)(y+1), and pairing2d(projection2d(z)) = z with non-negative components; hypotheses: the factorisation handed in passes fact_of and fact_primes (sympy.factorint is data, verified inside Coq for every case of the correspondence) and the bracket of upper_bound_a_n is valid (ub_bracket_ok: the float root finder inv_guess_a is not modelled; certified per run for EVERY z <= N by the generated theorem impl_bracket_valid, see C14_ub_table_spec). Float caveat of the code not in the model: floor((z - a_n(n-1)) / np.prod(...)) is a float division, exact below 2^53",
    "C14_ub_table_spec": "lifting lemma for the certified sweep: a table of (z, n_low, n_guess, n_high) rows whose z column is exactly 0..N and whose rows all pass the boolean bracket test gives, for EVERY z in [0, N], a valid bracket and hence upper_bound_a_n(z) = the n with a_n(n-1) <= z < a_n(n).  Each run instantiates it with the guesses recorded from the implementation's inv_guess_a for all z <= N (N = 16000 quick / 100000 thorough; file build/C14/ubsweep.v, theorem impl_bracket_valid, closed under the global context): a for-all statement on a finite range about THIS machine's scipy/libm, not a theorem about the Halley iteration",
    "C14_pepis_kalmar_*": "pk_pairing2d is generated from the source; pk_projection2d (recursive _aux_k/_aux_j) is the hand model of Model/Pairing.v, tied by correspondence",
}


def _boundary_values(rng, tier):
    vals = set(range(0, 400))
    ms = [2, 3, 7, 10, 255, 256, 1000, 4095, 4096, 65535, 65536, 2 ** 20 + 1, 2 ** 26, 2 ** 27 - 1, 2 ** 27, 2 ** 31 - 1, 2 ** 31,
          94906265, 94906266, 94906267, 5774, 5775, 5776, 208063, 208064]
    ms += [rng.randrange(2, 2 ** 31) for _ in range(40 if tier == "quick" else 400)]
    for m in ms:
        for p in (2, 3):
            for d in (-2, -1, 0, 1, 2):
                vals.add(m ** p + d)
        vals.add(m * (m + 1))
        vals.add(m * (m + 1) - 1)
        vals.add(m * (m + 1) // 2)
        vals.add(m * (m + 1) // 2 - 1)
    vals |= {rng.getrandbits(60) for _ in range(100 if tier == "quick" else 2000)}
    vals |= {rng.getrandbits(rng.randrange(1, 64)) for _ in range(100 if tier == "quick" else 2000)}
    return sorted(v for v in vals if v >= 0)


def correspond(res):
    from rpylib.distribution import pairing as P
    from rpylib.tools.generic import lazy_indices_product
    rng = random.Random(res.seed)
    tier = res.tier
    del _F8_PENDING[:]
    zs = _boundary_values(rng, tier)
    xys = [(x, y) for x in range(25) for y in range(25)]
    big = [2 ** 26, 2 ** 27 - 1, 2 ** 27, 2 ** 31 - 1, 94906265, 94906266, 3037000499, 3037000500]
    xys += [(a + da, b + db) for a in big for b in big[:4] + [0, 1] for da in (-1, 0, 1) for db in (0, 1)]
    xys += [(rng.getrandbits(rng.randrange(1, 40)), rng.getrandbits(rng.randrange(1, 40))) for _ in range(300 if tier == "quick" else 5000)]

    classes = {"cantor": P.Cantor, "rs": P.RosenbergStrong, "szudzik": P.Szudzik, "pk": P.PepisKalmar}
    groups = []

    # ---------- oracle on the implementation: round trips -------------------------------------
    def viol(what, **kw):
        res.violation(what, dict(kw))

    for name, cls in classes.items():
        obj = cls()
        zlist = zs if name != "pk" else [z for z in zs if z < 2 ** 62]
        proj_cases, pair_cases = [], []
        for z in zlist:
            try:
                p = tuple(int(v) for v in obj.projection2d(z))
                back = obj.pairing2d(*p)
            except Exception as e:  # noqa
                viol(f"{name}.projection2d raises {type(e).__name__}", kind="pairing2d", cls=name, z=z)
                continue
            res.count(("proj", name, z), nontrivial=z > 0, kind=f"{name}.projection2d")
            if back != z or min(p) < 0:
                viol(f"{name}: pairing2d(projection2d(z)) != z", kind="pairing2d", cls=name, z=z, got=list(p), back=int(back))
            proj_cases.append((z, p))
        for (x, y) in xys:
            if name == "pk" and y > 200:
                y = y % 200
            z = obj.pairing2d(x, y)
            p = tuple(int(v) for v in obj.projection2d(z))
            res.count(("pair", name, x, y), nontrivial=(x, y) != (0, 0), kind=f"{name}.pairing2d")
            if p != (x, y):
                viol(f"{name}: projection2d(pairing2d(x,y)) != (x,y)", kind="pairing2d", cls=name, x=x, y=y, z=int(z), got=list(p))
            pair_cases.append(((x, y), int(z)))
        projf = {"cantor": "cantor_projection2d", "rs": "rs_projection2d", "szudzik": "szudzik_projection2d", "pk": "pk_projection2d"}[name]
        pairf = {"cantor": "cantor_pairing2d", "rs": "rs_pairing2d", "szudzik": "szudzik_pairing2d", "pk": "pk_pairing2d"}[name]
        groups.append((f"{name}_proj", "Z * (Z * Z)", f"fun c => zpair_eqb ({projf} (fst c)) (snd c)",
                       [f"({zlit(z)}, ({zlit(p[0])}, {zlit(p[1])}))" for z, p in proj_cases]))
        groups.append((f"{name}_pair", "(Z * Z) * Z", f"fun c => Z.eqb ({pairf} (fst (fst c)) (snd (fst c))) (snd c)",
                       [f"(({zlit(x)}, {zlit(y)}), {zlit(z)})" for (x, y), z in pair_cases]))

    # mapping_to_z / projection_to_z
    m_cases = []
    for n in list(range(-300, 300)) + [rng.randrange(-2 ** 60, 2 ** 60) for _ in range(200)]:
        z = P.mapping_to_z(n)
        res.count(("map", n), nontrivial=n != 0, kind="mapping_to_z")
        if P.projection_to_z(z) != n or z < 0:
            viol("projection_to_z(mapping_to_z(n)) != n", kind="to_z", n=n)
        m_cases.append((n, z))
    groups.append(("toz", "Z * Z", "fun c => Z.eqb (mapping_to_z (fst c)) (snd c) && Z.eqb (projection_to_z (snd c)) (fst c)",
                   [f"({zlit(n)}, {zlit(z)})" for n, z in m_cases]))

    # PairingToZd, d = 2 (both pairings the factory may use) and d = 3 (Rosenberg-Strong)
    zd_cases = []
    for pname, pobj in (("szudzik", P.Szudzik()), ("rs", P.RosenbergStrong())):
        pz = P.PairingToZd(pairing=pobj, dimension=2, omit_zero=True)
        seen = {}
        N = 1500 if tier == "quick" else 20000
        for n in range(N):
            s = tuple(int(v) for v in pz.project(n))
            res.count(("zd2", pname, n), kind="PairingToZd2.project")
            if s == (0, 0) or s in seen or pz.pair(s) != n:
                viol("PairingToZd(d=2): project not injective / pair does not invert / hits origin", kind="zd", pairing=pname, dim=2, n=n, got=list(s))
            seen[s] = n
            if pname == "szudzik" and n < 600:
                zd_cases.append((n, s))
        R = 12
        want = {(a, b) for a in range(-R, R + 1) for b in range(-R, R + 1)} - {(0, 0)}
        miss = [s for s in want if pz.pair(s) >= (2 * R + 1) ** 2 + 4 * R * 4 + 10 or tuple(pz.project(pz.pair(s))) != s]
        if miss:
            viol("PairingToZd(d=2): project(pair(s)) != s", kind="zd", pairing=pname, dim=2, s=list(miss[0]))
    groups.append(("zd2", "Z * (Z * Z)", "fun c => zpair_eqb (zd2_project szudzik_projection2d 1 (fst c)) (snd c) && Z.eqb (zd2_pair szudzik_pairing2d 1 (snd c)) (fst c)",
                   [f"({zlit(n)}, ({zlit(s[0])}, {zlit(s[1])}))" for n, s in zd_cases]))

    rs = P.RosenbergStrong()
    rs_cases = []
    for d, N, box in ((3, 4000 if tier == "quick" else 60000, 7), (4, 3000 if tier == "quick" else 30000, 4)):
        seen = set()
        for z in range(N):
            x = tuple(int(v) for v in rs.projection(z, d))
            res.count(("rsnd", d, z), nontrivial=z > 0, kind=f"rs.projection d={d}")
            if rs.pairing(x) != z or x in seen or min(x) < 0:
                viol("RosenbergStrong n-d: pairing(projection(z)) != z or duplicate", kind="rsnd", dim=d, z=z, got=list(x))
            seen.add(x)
            if z < 400 or z % 37 == 0:
                rs_cases.append((d, z, x))
        for x in itertools.product(range(box), repeat=d):
            if tuple(rs.projection(rs.pairing(x), d)) != x:
                viol("RosenbergStrong n-d: projection(pairing(x)) != x", kind="rsnd", dim=d, x=list(x))
    for m in [5775, 5776, 46340, 208063, 2 ** 17, 2 ** 20 + 1] + [rng.randrange(2, 2 ** 20) for _ in range(30)]:
        for dlt in (-1, 0, 1):
            z = m ** 3 + dlt
            x = tuple(int(v) for v in rs.projection(z, 3))
            res.count(("rsnd-b", z), kind="rs.projection d=3 boundary")
            if rs.pairing(x) != z or min(x) < 0:
                viol("RosenbergStrong 3-d: pairing(projection(z)) != z near a cube", kind="rsnd", dim=3, z=z, got=list(x))
    groups.append(("rsnd", "nat * Z * list Z", "fun c => zlist_eqb (rs_projection (fst (fst c)) (snd (fst c))) (snd c) && Z.eqb (rs_pairing (snd c)) (snd (fst c))",
                   [f"({d}%nat, {zlit(z)}, {lst([zlit(v) for v in x])})" for d, z, x in rs_cases]))

    # PairingToZ1d: all shapes, shuffled call order; compare with the model's pure function
    z1_cases = []
    shapes = [(L, R) for L in range(1, 13) for R in range(1, 13)] + [(rng.randrange(1, 41), rng.randrange(1, 41)) for _ in range(40 if tier == "quick" else 400)]
    for (L, R) in shapes:
        for omit in (True, False):
            p = P.PairingToZ1d((-L, R), omit_zero=omit)
            n = L + R + (0 if omit else 1)
            order = list(range(n))
            mode = rng.choice(["asc", "desc", "shuffle", "beyond-first"])
            if mode == "desc":
                order.reverse()
            elif mode == "shuffle":
                rng.shuffle(order)
            elif mode == "beyond-first":
                order = order[n // 2:] + order[:n // 2]
            out = {k: int(p.project(k)) for k in order}
            res.bump("z1d_call_order", mode)
            fresh = P.PairingToZ1d((-L, R), omit_zero=omit)
            asc = {k: int(fresh.project(k)) for k in range(n)}
            res.count(("z1d", L, R, omit, mode), kind="PairingToZ1d")
            expect = set(range(-L, R + 1)) - ({0} if omit else set())
            if out != asc:
                k = next(k for k in range(n) if out[k] != asc[k])
                viol("PairingToZ1d.project depends on the call order", kind="z1d", L=L, R=R, omit=omit, order=order, index=k,
                     got=out[k], in_increasing_order=asc[k])
            elif set(out.values()) != expect or len(set(out.values())) != n:
                viol("PairingToZ1d.project does not enumerate every state exactly once", kind="z1d", L=L, R=R, omit=omit, order=order)
            elif any(p.pair(out[k]) != k for k in range(n)):
                viol("PairingToZ1d.pair does not invert project", kind="z1d", L=L, R=R, omit=omit, order=order)
            for k in range(n):
                z1_cases.append((L, R, 1 if omit else 0, k, out[k]))
    if tier == "quick":
        z1_cases = z1_cases[::3]
    groups.append(("z1d", "Z * Z * Z * Z * Z",
                   "fun c => match c with (L, R, o, k, s) => Z.eqb (z1d_project (- L) R o k) s && Z.eqb (z1d_pair (- L) R o s) k end",
                   [f"({zlit(L)}, {zlit(R)}, {zlit(o)}, {zlit(k)}, {zlit(s)})" for L, R, o, k, s in z1_cases]))

    # lazy_indices_product
    lz_cases = []
    size_lists = [[a] for a in range(1, 6)] + [list(t) for n in (2, 3) for t in itertools.product(range(1, 5), repeat=n)]
    size_lists += [[rng.randrange(1, 7) for _ in range(rng.randrange(1, 5))] for _ in range(30 if tier == "quick" else 300)]
    for sizes in size_lists:
        got = [tuple(int(v) for v in t) for t in lazy_indices_product(list(sizes))]
        want = set(itertools.product(*[range(s) for s in sizes]))
        res.count(("lazy", tuple(sizes)), nontrivial=len(sizes) > 1, kind="lazy_indices_product")
        res.bump("lazy_sizes_equal", len(set(sizes)) == 1)
        if len(got) != len(want) or set(got) != want:
            viol("lazy_indices_product does not yield every tuple exactly once", kind="lazy", sizes=list(sizes), got=[list(t) for t in got][:40])
        lz_cases.append((sizes, got))
    groups.append(("lazy", "list Z * list (list Z)", "fun c => list_eqb zlist_eqb (lazy_product (fst c)) (snd c)",
                   [f"({lst([zlit(s) for s in sizes])}, {lst([lst([zlit(v) for v in t]) for t in got])})" for sizes, got in lz_cases]))

    # Hyperbolic pairing: oracle only.  The inverse goes through a float root finder + bracketed bisection
    # (numbers.upper_bound_a_n) whose failures are sparse (a narrowed bracket first fails at index 10673), so the
    # sweep is contiguous and long, plus random windows further out; both directions.
    hp = P.HyperbolicPairing()
    n_sweep = 24000 if tier == "quick" else 320000
    seen_pairs = {}
    hyp_bad = 0
    # the same sweep records the three float guesses upper_bound_a_n gets from inv_guess_a (wrapped, not replaced) for EVERY z <= n_tab:
    # the table is checked as a whole by a generated Coq theorem (Proofs/C14_UbSweep.v: ub_table_spec), see below
    from c14_ubsweep import GuessRecorder, sweep_text, first_invalid
    from rpylib.numerical import numbers as _numbers
    n_tab = min(n_sweep - 1, 16000 if tier == "quick" else 100000)
    ub_rows = [(0, 0, 0, 0)]
    _rec = GuessRecorder()
    _rec.__enter__()
    for z in range(0, n_sweep):
        _rec.take()
        x, y = (int(v) for v in hp.projection2d(z))
        if 0 < z <= n_tab:
            g3 = _rec.take()
            if len(g3) != 3:                                  # projection2d answered from its cache: ask upper_bound_a_n itself
                _numbers.upper_bound_a_n(z)
                g3 = _rec.take()
            ub_rows.append((z,) + tuple(g3) if len(g3) == 3 else (z, -1, -1, -1))
        res.count(("hyp", z), nontrivial=z > 0, kind="hyperbolic")
        back = hp.pairing2d(x, y)
        if back != z or x < 0 or y < 0 or (x, y) in seen_pairs:
            hyp_bad += 1
            if hyp_bad <= 3:
                viol("HyperbolicPairing: pairing2d(projection2d(z)) != z (or two indices share a pair)", kind="hyp", z=z, got=[x, y],
                     back=int(back), other_index=seen_pairs.get((x, y)))
        seen_pairs[(x, y)] = z
    _rec.__exit__(None, None, None)
    bad_row = first_invalid(ub_rows)
    res.bump("upper_bound_bracket_sweep", f"all z <= {n_tab} valid on the implementation" if bad_row is None else "invalid bracket")
    if bad_row is not None:
        viol("upper_bound_a_n: the bracket selected from the float guesses of inv_guess_a does not contain the n with a_n(n-1) <= z < a_n(n)",
             kind="ub", z=bad_row[0], guesses=list(bad_row[1:]))
    from common import coq_eval_file
    res.case_lemmas += 1
    rc, out = coq_eval_file(PROP, "ubsweep", sweep_text(ub_rows, n_tab), timeout=900)
    if rc == 0 and "Closed under the global context" in out:
        res.case_ok += 1
    else:
        res.broke(f"certified bracket sweep: impl_bracket_valid for all z <= {n_tab}", out[-600:])
    for _ in range(12 if tier == "quick" else 60):
        z0 = rng.randrange(n_sweep, 40 * n_sweep)
        for z in range(z0, z0 + 150):
            x, y = (int(v) for v in hp.projection2d(z))
            res.count(("hyp-w", z), kind="hyperbolic window")
            if hp.pairing2d(x, y) != z or x < 0 or y < 0:
                viol("HyperbolicPairing: pairing2d(projection2d(z)) != z", kind="hyp", z=z, got=[x, y])
                break
    # products of two large primes: sympy.factorint returns such factors in discovery order, not sorted, so any code
    # that relies on the dict order of the factorisation breaks only there (first at n = 3613 * 4051)
    from sympy import primerange
    big_primes = list(primerange(1000, 6500))
    prime_pairs = []
    for _ in range(30 if tier == "quick" else 300):
        pa, pb = rng.choice(big_primes), rng.choice(big_primes)
        prime_pairs += [(pa - 1, pb - 1), (pb - 1, pa - 1)]
    prime_pairs += [(3612, 4050), (4050, 3612)]
    for (x, y) in [(a, b) for a in range(60) for b in range(60)] + [(rng.randrange(0, 3000), rng.randrange(0, 3000)) for _ in range(200)] + prime_pairs:
        z = hp.pairing2d(x, y)
        res.count(("hyp-p", x, y), nontrivial=(x, y) != (0, 0), kind="hyperbolic pairing2d")
        if tuple(int(v) for v in hp.projection2d(z)) != (x, y):
            viol("HyperbolicPairing: projection2d(pairing2d(x,y)) != (x,y)", kind="hyp", x=x, y=y, z=int(z))

    # StatesManager over increasing indices (1-d, 2-d, 3-d grids; centred or not) and as a state machine
    _states_manager(res, rng, viol, groups)
    _states_manager_machine(res, rng, groups)
    _reset_history(res, rng, viol)
    _nested_and_zdn(res, rng, viol, groups)
    _a_n(res, rng, viol, groups)
    _hyperbolic_model(res, rng, viol, groups)
    _coverage_holes(res, rng, viol)

    # ---------- Coq side: the model must compute exactly what the implementation returned -----
    header = ("From Coq Require Import ZArith List Bool.\nFrom RV Require Import Gen.GenPairing Model.Pairing Model.StatesManager Model.Domain Model.FrontierDraw Model.FrontierDrawCheck Model.Hyperbolic Model.HyperbolicPrimes Proofs.C14_StatesManager.\nOpen Scope Z_scope.\n"
              "Fixpoint sm_lasts (o : Z -> bool) (maxf : Z) (st : Z * Z) (cs : list (Z*Z)) : list (Z * Z) := match cs with nil => nil | c :: r => "
              "let s := sm_step Z (fun i => i) o maxf st (fst c) (snd c) in snd s :: sm_lasts o maxf (snd s) r end.")
    res.case_lemmas += len(groups)
    bad = coq_bad_indices(PROP, "cases", header, groups, timeout=900)
    for g, ty, chk, cases in groups:
        if bad[g]:
            res.broke(f"correspondence {g}", f"model and implementation differ on {len(bad[g])} case(s), first: {cases[bad[g][0]]}")
        else:
            res.case_ok += 1
    # the F-C14-8 violations of this run, confirmed (or not) by the MODEL in one batch: matches_known() absorbs only confirmed ones
    if _F8_PENDING:
        res.case_lemmas += 1
        _model_confirm(_F8_PENDING, "known_f8")
        n_no = sum(1 for k, _, _ in _F8_PENDING if not _MODEL_VERDICT.get(k))
        res.bump("frontier_draw_known_confirmed_by_model", f"{len(_F8_PENDING) - n_no} of {len(_F8_PENDING)}")
        if n_no:
            res.broke("F-C14-8 confirmation by the model", f"{n_no} inadmissible frontier draw(s) are not the model's fd_state / not of a recorded cause")
        else:
            res.case_ok += 1


def _nested_and_zdn(res, rng, viol, groups):
    """Pairing.pairing/projection for dim > 2 (generic nesting), PairingToZd in dimension 2..4 with omit_zero True/False"""
    from rpylib.distribution import pairing as P
    tier = res.tier
    nest_cases = []
    for tag, obj, dims, N in ((0, P.Szudzik(), (3, 4), 3000 if tier == "quick" else 40000), (1, P.PepisKalmar(), (3,), 600 if tier == "quick" else 3000)):
        for d in dims:
            seen = set()
            zs = list(range(N)) + (sorted({N + rng.getrandbits(rng.randrange(12, 50)) for _ in range(60)}) if tag == 0 else [])
            for z in zs:
                x = tuple(int(v) for v in obj.projection(z, d))
                res.count(("nest", tag, d, z), nontrivial=z > 0, kind=f"{type(obj).__name__}.projection d={d}")
                if len(x) != d or min(x) < 0 or obj.pairing(x) != z or x in seen:
                    viol("generic nested pairing: pairing(projection(z, d)) != z or duplicate", kind="nest", cls=type(obj).__name__, dim=d, z=z, got=list(x))
                seen.add(x)
                if z < 300 or z % 29 == 0 or z >= N:
                    nest_cases.append((tag, d, z, x))
    groups.append(("nest", "Z * nat * Z * list Z",
                   "fun c => match c with (tag, d, z, x) => "
                   "let p2 := if tag =? 0 then szudzik_pairing2d else pk_pairing2d in "
                   "let pr2 := if tag =? 0 then szudzik_projection2d else pk_projection2d in "
                   "zlist_eqb (nest_projection pr2 d z) x && Z.eqb (nest_pairing p2 x) z end",
                   [f"({tag}, {d}%nat, {zlit(z)}, {lst([zlit(v) for v in x])})" for tag, d, z, x in nest_cases]))
    zdn_cases = []
    for tag, mk, dims in ((0, P.RosenbergStrong, (2, 3, 4)), (1, P.Szudzik, (2, 3))):
        for d in dims:
            for omit in (True, False):
                pz = P.PairingToZd(pairing=mk(), dimension=d, omit_zero=omit)
                seen = set()
                N = 700 if tier == "quick" else 8000
                for n in range(N):
                    s = tuple(int(v) for v in pz.project(n))
                    res.count(("zdn", tag, d, omit, n), kind=f"PairingToZd d={d} omit_zero={omit}")
                    if len(s) != d or s in seen or pz.pair(s) != n or (omit and not any(s)):
                        viol("PairingToZd: project not injective / pair does not invert / hits the omitted origin", kind="zd",
                             pairing=mk.__name__, dim=d, omit_zero=omit, n=n, got=list(s))
                    seen.add(s)
                    if n < 120 or n % 13 == 0:
                        zdn_cases.append((tag, d, 1 if omit else 0, n, s))
                if not omit and tuple([0] * d) not in seen:
                    viol("PairingToZd(omit_zero=False) never returns the origin", kind="zd", pairing=mk.__name__, dim=d, omit_zero=omit)
    groups.append(("zdn", "Z * nat * Z * Z * list Z",
                   "fun c => match c with (tag, d, omit, n, s) => "
                   "let npair := if tag =? 0 then rs_pairing else nest_pairing szudzik_pairing2d in "
                   "let nproj := if tag =? 0 then rs_projection else nest_projection szudzik_projection2d in "
                   "zlist_eqb (zdn_project nproj d omit n) s && Z.eqb (zdn_pair npair omit s) n end",
                   [f"({tag}, {d}%nat, {o}, {zlit(n)}, {lst([zlit(v) for v in s])})" for tag, d, o, n, s in zdn_cases]))
    # the 2-d pair form with omit_zero = False
    pz = P.PairingToZd(pairing=P.Szudzik(), dimension=2, omit_zero=False)
    zd0 = [(n, tuple(int(v) for v in pz.project(n))) for n in range(400)]
    groups.append(("zd2_0", "Z * (Z * Z)", "fun c => zpair_eqb (zd2_project szudzik_projection2d 0 (fst c)) (snd c) && Z.eqb (zd2_pair szudzik_pairing2d 0 (snd c)) (fst c)",
                   [f"({zlit(n)}, ({zlit(s[0])}, {zlit(s[1])}))" for n, s in zd0]))


def _a_n_reference(n):
    """sum_{k=1..n} floor(n/k) by the hyperbola method with the INTEGER square root, vectorised"""
    import math
    import numpy as np
    s, tot, k0 = math.isqrt(n), 0, 1
    while k0 <= s:
        k1 = min(s, k0 + 4_000_000 - 1)
        tot += int((n // np.arange(k0, k1 + 1, dtype=np.int64)).sum())
        k0 = k1 + 1
    return 2 * tot - s * s


def _a_n(res, rng, viol, groups):
    from rpylib.numerical.numbers import a_n
    cases = []
    ns = list(range(0, 600)) + [m * m + dlt for m in (31, 100, 999, 1000, 4096) for dlt in (-1, 0, 1)] + [rng.randrange(600, 2 * 10 ** 6) for _ in range(40)]
    for n in ns:
        v = int(a_n(n))
        res.count(("a_n", n), nontrivial=n > 0, kind="a_n")
        want = sum(n // k for k in range(1, n + 1)) if n < 3000 else _a_n_reference(n)
        if v != want:
            viol("a_n(n) is not the divisor summatory function sum_{k<=n} floor(n/k)", kind="a_n", n=n, got=v, expected=want)
        cases.append((n, v))
    groups.append(("a_n", "Z * Z", "fun c => Z.eqb (a_n (fst c)) (snd c)", [f"({zlit(n)}, {zlit(v)})" for n, v in cases]))
    # the float square root: n = m^2 - 1 just above 2^52 (one call, ~6 s: 2^26 loop iterations in the implementation)
    for m in ([2 ** 26 + 1] if res.tier == "quick" else [2 ** 26 + 1, 2 ** 26 + 12345]):
        n = m * m - 1
        v, want = int(a_n(n)), _a_n_reference(n)
        res.count(("a_n-big", n), kind="a_n near 2^52")
        if v != want:
            viol("a_n(n) is not the divisor summatory function for n = m^2 - 1 above 2^52 (floating-point sqrt rounds up to m)",
                 kind="a_n", n=n, m=m, got=v, expected=want)


def _hyperbolic_model(res, rng, viol, groups):
    """HyperbolicPairing beyond a_n against Model/Hyperbolic.v.  upper_bound_a_n: the three float guesses of inv_guess_a are
    recorded (the function is wrapped, not replaced) and handed to the model, which redoes the bracket selection and the
    bisection; the oracle checks a_n(n-1) <= z < a_n(n) on the implementation and histograms the validity of the bracket
    (hypothesis of C14_upper_bound_a_n_spec).  pairing2d / projection2d: sympy's factorisation is data (verified by
    fact_of inside Coq); projection2d is composed with the model's own upper_bound_a_n."""
    from sympy import factorint
    from rpylib.numerical import numbers as N
    from rpylib.distribution import pairing as P
    hp = P.HyperbolicPairing()
    a_n = N.a_n
    tier = res.tier
    zs = set(range(0, 260)) | {10672, 10673, 10674} | {rng.randrange(260, 300000) for _ in range(150 if tier == "quick" else 1500)}
    for m in [rng.randrange(2, 40000) for _ in range(40 if tier == "quick" else 400)]:
        zs |= {int(a_n(m)) - 1, int(a_n(m)), int(a_n(m)) + 1}                      # block edges: a_guess == z and its neighbours
    real = N.inv_guess_a
    ub_cases, pr_cases = [], []
    for z in sorted(zs):
        rec = []

        def wrapped(c, rec=rec):
            v = real(c)
            rec.append(int(v))
            return v
        N.inv_guess_a = wrapped
        try:
            n = int(N.upper_bound_a_n(z))
        finally:
            N.inv_guess_a = real
        lo, g, hi = rec if len(rec) == 3 else (0, 0, 0)
        res.count(("ub", z), nontrivial=z > 0, kind="upper_bound_a_n")
        if z > 0:
            ag = int(a_n(g))
            branch = "equal" if ag == z else ("lower" if ag > z else "upper")
            ok = g >= 0 and (ag <= z or (lo >= 0 and int(a_n(lo)) <= z)) and (ag >= z or z < int(a_n(hi)))
            res.bump("upper_bound_branch", branch)
            res.bump("upper_bound_bracket_valid", ok)
        if not (n >= 1 and int(a_n(n - 1)) <= z < int(a_n(n))):
            viol("upper_bound_a_n(z) is not the n with a_n(n-1) <= z < a_n(n)", kind="ub", z=z, got=n, guesses=[lo, g, hi])
        ub_cases.append((z, lo, g, hi, n))
        if z < 260 or len(pr_cases) < 420:
            x, y = (int(v) for v in hp.projection2d(z))
            fact = sorted((int(p), int(e)) for p, e in factorint(n).items())
            pr_cases.append((z, lo, g, hi, fact, x, y))
    groups.append(("hyp_ub", "Z * Z * Z * Z * Z", "fun c => match c with (z, lo, g, hi, n) => Z.eqb (upper_bound_a_n z lo g hi) n end",
                   [f"({zlit(z)}, {zlit(lo)}, {zlit(g)}, {zlit(hi)}, {zlit(n)})" for z, lo, g, hi, n in ub_cases]))

    def flit(fact):
        return lst([f"({zlit(p)}, {zlit(e)})" for p, e in fact])
    groups.append(("hyp_proj", "Z * Z * Z * Z * list (Z * Z) * (Z * Z)",
                   "fun c => match c with (z, lo, g, hi, fact, xy) => let n := upper_bound_a_n z lo g hi in "
                   "fact_of fact n && fact_primes fact && zpair_eqb (hyp_projection2d fact n z) xy end",
                   [f"({zlit(z)}, {zlit(lo)}, {zlit(g)}, {zlit(hi)}, {flit(fact)}, ({zlit(x)}, {zlit(y)}))" for z, lo, g, hi, fact, x, y in pr_cases]))
    pa_cases = []
    xys = [(a, b) for a in range(18) for b in range(18)] + [(rng.randrange(0, 3000), rng.randrange(0, 3000)) for _ in range(120)]
    xys += [(3612, 4050), (4050, 3612), (2 ** 10 - 1, 3 ** 5 - 1), (2 * 3 * 5 * 7 - 1, 11 * 13 - 1), (0, 30029), (30029, 0)]
    for (x, y) in xys:
        z = int(hp.pairing2d(x, y))
        n = (x + 1) * (y + 1)
        fact = sorted((int(p), int(e)) for p, e in factorint(n).items())
        res.count(("hyp-model", x, y), nontrivial=(x, y) != (0, 0), kind="hyperbolic pairing2d (model)")
        res.bump("hyperbolic_distinct_primes", len(fact))
        pa_cases.append((x, y, fact, z))
    # the primality checker of the model (hypothesis fact_primes of the round-trip theorems) against sympy.isprime: complete, not only sound
    from sympy import isprime
    pr_vals = sorted(set(range(0, 700)) | {3613, 4051, 3613 * 4051, 30029, 30031, 2 ** 31 - 1, 94906249, 94906249 * 3} | {rng.randrange(700, 10 ** 7) for _ in range(150)})
    for pv in pr_vals:
        res.count(("isprime", pv), nontrivial=pv > 1, kind="is_prime_b")
    groups.append(("isprime", "Z * bool", "fun c => Bool.eqb (is_prime_b (fst c)) (snd c)", [f"({zlit(pv)}, {blit(bool(isprime(pv)))})" for pv in pr_vals]))
    groups.append(("hyp_pair", "Z * Z * list (Z * Z) * Z",
                   "fun c => match c with (x, y, fact, z) => fact_of fact ((x + 1) * (y + 1)) && fact_primes fact && Z.eqb (hyp_pairing2d fact x y) z end",
                   [f"({zlit(x)}, {zlit(y)}, {flit(fact)}, {zlit(z)})" for x, y, fact, z in pa_cases]))


def _coverage_holes(res, rng, viol):
    """lines no other case reaches (audit3 C.14), oracle on the implementation only:
    pairing.py:93 -- RosenbergStrong.projection corrects its float root UPWARD (`m += 1`): needs z ** (1/dim) + 1e-8 to fall below
    the integer root, i.e. roots above ~2^27 (dim 3) where the float power loses more than the epsilon guard; the Coq model's
    iroot is the exact root (C14_iroot_unique) but far too slow by vm_compute at this size, so round trip only;
    Cantor.projection(z, dim != 2) raises NotImplementedError (dimension d >= 3 is not offered by Cantor's projection)."""
    from math import floor
    from rpylib.distribution import pairing as P
    rs = P.RosenbergStrong()
    for dim, lo, hi in ((3, 2 ** 30, 2 ** 46), (4, 2 ** 22, 2 ** 34), (5, 2 ** 18, 2 ** 27)):
        for _ in range(60 if res.tier == "quick" else 600):
            m = rng.randrange(lo, hi)
            for z in (m ** dim - 1, m ** dim, m ** dim + rng.randrange(0, m)):
                guess = floor(z ** (1 / dim) + rs._epsilon)
                root = m - 1 if z < m ** dim else m
                x = tuple(int(v) for v in rs.projection(z, dim))
                res.count(("rs-root", dim, z), kind=f"rs.projection d={dim} large root")
                res.bump("rs_float_root_correction", "up (pairing.py:93)" if guess < root else ("down" if guess > root else "none"))
                if len(x) != dim or min(x) < 0 or max(x) != root or int(rs.pairing(x)) != z:
                    viol("RosenbergStrong n-d: pairing(projection(z)) != z for a large root (float guess corrected to the integer root)",
                         kind="rsnd", dim=dim, z=z, got=list(x), float_guess=guess, root=root)
    c = P.Cantor()
    for dim in (1, 3, 4):
        res.count(("cantor-dim", dim), kind="Cantor.projection dim != 2")
        try:
            got = c.projection(7, dim)
            viol("Cantor.projection(z, dim != 2) returned a value instead of raising NotImplementedError", kind="cantor-dim", dim=dim, got=list(got))
        except NotImplementedError:
            res.bump("cantor_projection_dim_ne_2", "NotImplementedError")
        except Exception as e:  # noqa
            viol(f"Cantor.projection(z, dim != 2) raises {type(e).__name__} instead of NotImplementedError", kind="cantor-dim", dim=dim)
    if tuple(int(v) for v in c.projection(c.pairing((3, 4)), 2)) != (3, 4):
        viol("Cantor.projection(pairing((3,4)), 2) != (3,4)", kind="cantor-dim", dim=2)


def _enumerate(sm, limit=200000):
    got, x = [], 0
    while x < limit:
        s, done = sm.project_index_to_state_increment(x)
        if done:
            break
        got.append(tuple(int(v) for v in s) if hasattr(s, "__len__") else int(s))
        x += 1
    return got


def _make_boundary(P, name, truncations, threshold):
    tr = None if truncations is None else [tuple(t) for t in truncations]
    if name == "none":
        return P.Boundary()
    if name == "rectangle":
        return P.RectangleBoundary(truncations=tr)
    if name in ("simplex", "simplex-small"):
        return P.SimplexBoundary(truncations=tr)
    if name == "my":
        return P.MyBoundary(truncations=tr, threshold=threshold)
    raise ValueError(name)


def _build_sm(P, dim, sizes, o, pname, boundary):
    """a real grid + pairing + Domain + StatesManager (1-d: PairingToZ1d; n-d: PairingToZd over Szudzik / Rosenberg-Strong)"""
    import numpy as np
    from rpylib.grid.spatial import CTMCGrid
    axes = [np.array([float(k) for k in range(-o, n - o)]) for n in sizes]
    grid = CTMCGrid(h=1.0, origin_coordinate=o, axes=axes)
    if dim == 1:
        pairing = P.PairingToZ1d((-o, sizes[0] - o - 1), omit_zero=True)
    else:
        pairing = P.PairingToZd(pairing=P.Szudzik() if pname == "szudzik" else P.RosenbergStrong(), dimension=dim)
    dom = P.Domain(boundary=boundary, grid=grid, pairing=pairing)
    return grid, pairing, dom, P.StatesManager(pairing=pairing, domain=dom, grid=grid)


def _as_state(s):
    return tuple(int(v) for v in s) if hasattr(s, "__len__") else (int(s),)


def _call_with_choice(sm, x, ml, c):
    """one call of project_index_to_state_increment with np.random.choice scripted to pick position c of its argument
    (the only source of randomness of the method); returns (state, flag, whether choice was consumed)"""
    import numpy as np
    real, used = np.random.choice, []

    def scripted(a, *args, **kw):
        used.append(len(a))
        return list(a)[c]
    np.random.choice = scripted
    try:
        s, done = sm.project_index_to_state_increment(x, ml)
    finally:
        np.random.choice = real
    return _as_state(s), bool(done), bool(used)


_F8_PENDING = []        # (key, dim, Coq case literal) of every F-C14-8 violation emitted in this run
_MODEL_VERDICT = {}     # key -> does the MODEL confirm the draw and the recorded cause (Coq, fd_known_cause_*)?


def _in_grid(sizes, o, s):
    return len(s) == len(sizes) and all(0 <= o + v <= n - 1 for v, n in zip(s, sizes))


def _impl_hypotheses(dim, sizes, o, dout):
    """the hypotheses of the admissibility theorems evaluated with the IMPLEMENTATION's Domain.outside (dout on state
    increments): n-d = fd_hyp_nd (0 <= o < last size, every line of the box meets the domain, the origin has in-domain
    states on both sides of its line); 1-d = fd_hyp_1d (interior origin, both grid ends in the domain)"""
    if dim == 1:
        return 0 < o < sizes[0] - 1 and not dout((-o,)) and not dout((sizes[0] - o - 1,))
    last = sizes[-1]
    if not 0 <= o < last:
        return False
    lines = all(any(not dout(tuple(k - o for k in ks) + (j - o,)) for j in range(last))
                for ks in itertools.product(*[range(n) for n in sizes[:-1]]))
    z = tuple([0] * (dim - 1))
    interior = any(not dout(z + (j - o,)) for j in range(0, o)) and any(not dout(z + (j - o,)) for j in range(o + 1, last))
    return lines and interior


def _f8_cause(dim, sizes, o, bname, s, dom_out):
    """which recorded class of F-C14-8 an inadmissible IN-GRID draw belongs to (the Coq side re-derives it: fd_known_cause_*)"""
    edge = o == 0 or o == sizes[-1] - 1
    if not any(s):
        return "edge-origin (Boundary())" if (bname == "none" and edge) else "origin is an end of the in-domain part of its line"
    if dom_out:
        return "grid end outside the domain (1-d)" if dim == 1 else "line wholly outside the domain"
    return None


def _f8_key(dim, sizes, o, pname, spec, c, s):
    return json.dumps([dim, list(sizes), o, pname, spec.get("boundary"), spec.get("truncations"), spec.get("threshold"), c, list(s)])


def _f8_literal(dim, sizes, o, pname, outs, c, s):
    if dim == 1:
        return f"({zlit(sizes[0])}, {zlit(o)}, {lst([zlit(v) for v in outs])}, {c}%nat, {zlit(s[0])})"
    return (f"({0 if pname == 'rs' else 1}, {lst([zlit(v) for v in sizes])}, {zlit(o)}, {lst([lst([zlit(v) for v in x]) for x in outs])}, "
            f"{c}%nat, {lst([zlit(v) for v in s])})")


_F8_CHECK_1D = ("Z * Z * list Z * nat * Z",
                "fun c => match c with (n, o, outs, pos, got) => "
                "let dout := fun s => existsb (Z.eqb s) outs in let L := o in let R := n - o - 1 in "
                "let r := dom_1d (z1d_pair (- L) R 1) n o in "
                "(pos <? length (snd r))%nat && Z.eqb (fd_state Z (z1d_project (- L) R 1) (snd r) pos) got "
                "&& fd_known_cause_1d n o dout got && negb (fd_hyp_1d n o dout) end")
_F8_CHECK_ND = ("Z * list Z * Z * list (list Z) * nat * list Z",
                "fun c => match c with (tag, sizes, o, outs, pos, got) => "
                "let dout := fun s => existsb (zlist_eqb s) outs in "
                "let npair := if tag =? 0 then rs_pairing else nest_pairing szudzik_pairing2d in "
                "let nproj := if tag =? 0 then rs_projection else nest_projection szudzik_projection2d in "
                "let r := dom_nd dout (zdn_pair npair 1) sizes o in "
                "(pos <? length (snd r))%nat && zlist_eqb (fd_state (list Z) (zdn_project nproj (length sizes) 1) (snd r) pos) got "
                "&& fd_known_cause_nd sizes o dout got && negb (fd_hyp_nd sizes o dout) end")
_F8_HEADER = ("From Coq Require Import ZArith List Bool.\nFrom RV Require Import Gen.GenPairing Model.Pairing Model.StatesManager Model.Domain "
              "Model.FrontierDraw Model.FrontierDrawCheck.\nOpen Scope Z_scope.")


def _model_confirm(items, name):
    """items: (key, dim, literal).  Asks the Coq model, for each: is the position inside the model's deque, does the model's
    fd_state equal the recorded state, is that state of a recorded class FOR ITS RECORDED CAUSE (fd_known_cause_*), and does the
    object lie outside the hypotheses of the admissibility theorems (fd_hyp_* = false)?  Stores the verdicts."""
    one = [(k, lit) for k, dim, lit in items if dim == 1]
    nd = [(k, lit) for k, dim, lit in items if dim != 1]
    groups = []
    if one:
        groups.append(("f8_1d",) + _F8_CHECK_1D + ([lit for _, lit in one],))
    if nd:
        groups.append(("f8_nd",) + _F8_CHECK_ND + ([lit for _, lit in nd],))
    if not groups:
        return
    bad = coq_bad_indices(PROP, name, _F8_HEADER, groups, timeout=600)
    for g, ks in (("f8_1d", one), ("f8_nd", nd)):
        for i, (k, _) in enumerate(ks):
            _MODEL_VERDICT[k] = i not in set(bad.get(g, []))


def _frontier_draws(res, rng, P, dim, sizes, o, pname, bname, boundary, K, fd_cases, viol, rejected=None, fs_cases=None):
    """(a) oracle on the implementation: every position of the frontier deque, drawn on exhaustion, must give an admissible
    state (in the grid, in the domain, not the origin) -- F-C14-8 where it does not AND the state is in the grid (a state
    outside the GRID contradicts C14_frontier_draw_char and is reported without a finding id); one unscripted draw (real
    np.random.choice) must return the state of some deque entry.  Every drawn state goes to the fdstate correspondence
    (model's fd_state at every position of the model's deque, class and cause of every inadmissible one, value of the boolean
    hypotheses).  (b) a protocol history with exhausted calls, scripted draws and restarts on a fresh object, recorded call by
    call for the correspondence with Model/FrontierDraw.v."""
    import numpy as np
    from rpylib.grid.grid import Coordinates
    grid, pairing, dom, sm = _build_sm(P, dim, sizes, o, pname, boundary)
    frontier = [int(v) for v in sm.frontier_states_indices]
    for x in range(K):
        sm.project_index_to_state_increment(x)
    zero = tuple([0] * dim)
    edge = o == 0 or o == sizes[-1] - 1
    spec = dict(boundary._c14_spec)
    reported = set()
    rej = set(tuple(x) if hasattr(x, "__len__") else (x,) for x in (rejected or []))
    drawn = []
    for c in range(len(frontier)):
        s, done, used = _call_with_choice(sm, K, -1, c)
        res.count(("fdraw", dim, tuple(sizes), o, pname, bname, c), kind=f"frontier draw {dim}d {bname}")
        drawn.append(s)
        in_grid = _in_grid(sizes, o, s)
        # out-of-GRID and out-of-DOMAIN are different failures: Domain.outside is only asked about states of the grid
        dom_out = in_grid and bool(dom.outside(grid[Coordinates([o + v for v in s] if dim > 1 else o + s[0])]))
        cls = "outside the grid" if not in_grid else ("origin" if s == zero else ("outside" if dom_out else "admissible"))
        res.bump("frontier_draw", cls)
        if not done or not used:
            viol("StatesManager: a call after exhaustion does not signal exhaustion / does not draw from the frontier", kind="frontier-draw",
                 dim=dim, sizes=sizes, origin=o, pairing=pname, position=c, **spec)
        elif not in_grid:
            viol("StatesManager: the frontier draw on exhaustion returns a state outside the GRID", kind="frontier-draw-out-of-grid",
                 dim=dim, sizes=sizes, origin=o, pairing=pname, position=c, n_states=K, frontier=frontier, got=list(s), **spec)
        elif cls in ("origin", "outside") and cls not in reported:
            reported.add(cls)          # one report per object and kind (every position is still drawn, histogrammed and compared with the model)
            cause = _f8_cause(dim, sizes, o, bname, s, dom_out)
            res.bump("frontier_draw_known_cause", cause)
            what = {"edge-origin (Boundary())": "StatesManager: the frontier draw on exhaustion returns the origin with the default Boundary() on a grid whose "
                                                "origin is on the edge of the last axis (public CTMCGrid(origin_coordinate=0); audit4 D1)"}.get(
                cause, "StatesManager: the frontier draw on exhaustion returns the origin" if s == zero else
                "StatesManager: the frontier draw on exhaustion returns a state outside the domain")
            viol(what, finding="F-C14-8", kind="frontier-draw", dim=dim, sizes=sizes, origin=o, pairing=pname, position=c, n_states=K,
                 frontier=frontier, got=list(s), is_origin=s == zero, outside_domain=dom_out, origin_on_edge=edge, cause=cause, **spec)
            if rejected is not None:
                _F8_PENDING.append((_f8_key(dim, sizes, o, pname, spec, c, s), dim,
                                    _f8_literal(dim, sizes, o, pname, [r if dim > 1 else r[0] for r in sorted(rej)], c, s)))
    if fs_cases is not None and rejected is not None:
        hyp = _impl_hypotheses(dim, sizes, o, lambda inc: tuple(inc) in rej)
        res.bump("frontier_draw_hypotheses_hold", bool(hyp))
        if hyp and any(s == zero or not _in_grid(sizes, o, s) or tuple(s) in rej for s in drawn):
            viol("StatesManager: an inadmissible frontier draw on an object that meets the hypotheses of the admissibility theorems",
                 kind="frontier-draw-under-hypotheses", dim=dim, sizes=sizes, origin=o, pairing=pname, **spec)
        fs_cases.append((drawn, bool(hyp)))
    s_real, done = sm.project_index_to_state_increment(K)
    if _as_state(s_real) not in {_as_state(pairing.project(f)) for f in frontier} or not done:
        viol("StatesManager: the state returned on exhaustion is not the projection of an entry of frontier_states_indices", kind="frontier-draw",
             dim=dim, sizes=sizes, origin=o, pairing=pname, got=list(_as_state(s_real)), **spec)
    if fd_cases is None:
        return
    # protocol history on a fresh object: __init__ call, logged ranks, then samples running into exhaustion, restarts at rank M
    grid, pairing, dom, sm = _build_sm(P, dim, sizes, o, pname, boundary)
    M = rng.randint(1, K + 1)
    calls = [(0, -1, 0)] + [(x, M, rng.randrange(len(frontier))) for x in range(1, min(M, K + 1))]
    for _ in range(3):
        if M <= K:
            hi = rng.choice([K, K, rng.randint(M, K)])
            calls += [(x, M, rng.randrange(len(frontier))) for x in range(M, hi + 1)]
            if hi == K and rng.random() < 0.5:
                calls.append((K, M, rng.randrange(len(frontier))))          # the call is repeated after an exhaustion
    rets, lasts = [], []
    for x, ml, c in calls:
        s, done, used = _call_with_choice(sm, x, ml, c)
        rets.append((s, done))
        lasts.append((int(sm._last_projected_index), int(sm._last_logged_index)))
        if used != done:
            viol("StatesManager: np.random.choice is consumed by a call that does not signal exhaustion (or the reverse)", kind="frontier-draw",
                 dim=dim, sizes=sizes, origin=o, pairing=pname, call=[x, ml, c], **spec)
    res.count(("fdraw-hist", dim, tuple(sizes), o, pname, bname, tuple(calls)), kind="frontier draw protocol history")
    res.bump("frontier_draw_history_exhausted_calls", sum(1 for _, d in rets if d))
    fd_cases.append((calls, rets, lasts))


def _boundaries(P, rng, dim, sizes, o):
    """the default boundary and non-trivial ones inside the box; truncations as (negative left, positive right) per axis"""
    def trunc(shrink):
        t = []
        for n in sizes:
            lo, hi = max(1, o), max(1, n - o - 1)
            if shrink:
                lo, hi = rng.randint(1, lo), rng.randint(1, hi)
            t.append((-float(lo), float(hi)))
        return t
    specs = [("none", None, None)]
    specs.append(("rectangle", trunc(1), None))
    specs.append(("simplex", trunc(0), None))
    specs.append(("simplex-small", trunc(1), None))
    if dim >= 2:
        specs.append(("my", trunc(0), rng.choice([0.5, 1.5])))
    out = []
    for name, tr, th in specs:
        b = _make_boundary(P, name, tr, th)
        b._c14_spec = {"boundary": name, "truncations": None if tr is None else [list(t) for t in tr], "threshold": th}
        out.append((name, b))
    return out


def _states_manager(res, rng, viol, groups):
    """real Domain + StatesManager objects: (i) oracle: the increasing drive returns every in-grid, in-domain, non-origin
    state exactly once before exhaustion; (ii) correspondence of Model/Domain.v: max_state_index, the frontier deque and
    the whole enumeration are recomputed by the Coq model from (axis sizes, origin index, rejected states)"""
    import itertools as it
    import numpy as np
    from rpylib.distribution import pairing as P
    from rpylib.grid.grid import Coordinates
    from rpylib.grid.spatial import CTMCGrid
    one_d, n_d, one_d_fd, n_d_fd, one_d_fs, n_d_fs = [], [], [], [], [], []
    np.random.seed(res.seed % 2 ** 32)
    # 1-d: interval shapes x boundaries
    shapes = [(rng.randrange(1, 8), rng.randrange(1, 8)) for _ in range(12)] + [(1, 1), (1, 5), (5, 1), (3, 3)]
    # origin on an edge of the grid (L = 0 or R = 0): CTMCGrid(origin_coordinate=0) is public, samplingfactory has a `left == 0` branch (audit4 D1)
    shapes += [(0, 4), (4, 0), (0, 1), (1, 0), (0, rng.randrange(2, 8)), (rng.randrange(2, 8), 0)]
    for (L, R) in shapes:
        n = L + R + 1
        for bname, boundary in _boundaries(P, rng, 1, [n], L):
            axis = np.array([float(k) for k in range(-L, R + 1)])
            grid = CTMCGrid(h=1.0, origin_coordinate=L, axes=[axis])
            pairing = P.PairingToZ1d((-L, R), omit_zero=True)
            dom = P.Domain(boundary=boundary, grid=grid, pairing=pairing)
            sm = P.StatesManager(pairing=pairing, domain=dom, grid=grid)
            frontier, msi = [int(v) for v in sm.frontier_states_indices], int(dom.max_state_index)
            got = _enumerate(sm, 10 * (L + R) + 10)
            res.count(("sm1d", L, R, bname), kind=f"StatesManager 1d {bname}")
            res.bump("sm1d_origin", "edge" if L == 0 or R == 0 else "interior")
            res.bump("sm_boundary", bname)
            rejected = [k for k in range(-L, R + 1) if bool(dom.outside(grid[Coordinates(L + k)]))]
            want = set(range(-L, R + 1)) - {0} - set(rejected)
            if sorted(got) != sorted(want):
                viol("StatesManager(1-d) does not return every in-grid, in-domain non-origin state exactly once before exhaustion",
                     kind="sm", L=L, R=R, boundary=bname, got=got, missing=sorted(want - set(got)), extra=sorted(set(got) - want))
            fd1, fs1 = [], []
            _frontier_draws(res, rng, P, 1, [n], L, "z1d", bname, boundary, len(got), fd1, viol, rejected=rejected, fs_cases=fs1)
            one_d.append((n, L, rejected, msi, frontier, got))
            one_d_fd.append((n, L, rejected) + fd1[0])
            one_d_fs.append((n, L, rejected) + fs1[0])
    # n-d: centred / off-centre origin (also on the edge), equal / unequal axis lengths, both pairings the factory can choose
    grids = [(2, [5, 5], 2), (2, [7, 7], 3), (2, [7, 7], 4), (2, [7, 7], 1), (2, [5, 9], 2), (2, [9, 5], 2), (2, [4, 6], 1),
             (2, [3, 4], 1), (2, [6, 3], 2), (2, [4, 4], 0), (2, [5, 4], 3),
             (3, [3, 3, 3], 1), (3, [5, 5, 5], 2), (3, [4, 3, 5], 1), (3, [5, 5, 5], 1), (3, [3, 5, 4], 2)]
    for dim, sizes, o in grids:
        for pname in ("szudzik", "rs"):
            for bname, boundary in _boundaries(P, rng, dim, sizes, o):
                axes = [np.array([float(k) for k in range(-o, n - o)]) for n in sizes]
                grid = CTMCGrid(h=1.0, origin_coordinate=o, axes=axes)
                pairing = P.PairingToZd(pairing=P.Szudzik() if pname == "szudzik" else P.RosenbergStrong(), dimension=dim)
                dom = P.Domain(boundary=boundary, grid=grid, pairing=pairing)
                sm = P.StatesManager(pairing=pairing, domain=dom, grid=grid)
                frontier, msi = [int(v) for v in sm.frontier_states_indices], int(dom.max_state_index)
                got = _enumerate(sm)
                res.count(("smnd", dim, tuple(sizes), o, pname, bname), kind=f"StatesManager {dim}d {pname} {bname}")
                res.bump("sm_boundary", bname)
                res.bump("sm_origin", "centred" if all(n == 2 * o + 1 for n in sizes) else "off-centre")
                box = list(it.product(*[range(-o, n - o) for n in sizes]))
                rejected = [s for s in box if bool(dom.outside(grid[Coordinates([o + v for v in s])]))]
                want = set(box) - {tuple([0] * dim)} - set(rejected)
                res.bump("sm_rejected_in_grid_states", "0" if not rejected else ("1-5" if len(rejected) <= 5 else ">5"))
                if sorted(got) != sorted(want):
                    miss = sorted(want - set(got))
                    viol(f"StatesManager({dim}-d, {pname}) does not return every in-grid, in-domain non-origin state exactly once before exhaustion",
                         kind="sm", dim=dim, sizes=sizes, origin=o, pairing=pname, boundary=bname, n_returned=len(got), n_expected=len(want),
                         duplicates=len(got) != len(set(got)), missing=[list(m) for m in miss[:12]],
                         extra=[list(m) for m in sorted(set(got) - want)[:12]])
                if msi != max([int(pairing.pair(s)) for s in box if s not in set(rejected)] + [-1]):
                    viol("Domain.max_state_index is not the largest pairing index of an in-domain state", kind="dom", dim=dim, sizes=sizes,
                         origin=o, pairing=pname, boundary=bname, max_state_index=msi)
                fdn, fsn = [], []
                _frontier_draws(res, rng, P, dim, sizes, o, pname, bname, boundary, len(got), fdn, viol, rejected=rejected, fs_cases=fsn)
                n_d.append((0 if pname == "rs" else 1, sizes, o, rejected, msi, frontier, got))
                n_d_fd.append((0 if pname == "rs" else 1, sizes, o, rejected) + fdn[0])
                n_d_fs.append((0 if pname == "rs" else 1, sizes, o, rejected) + fsn[0])

    def zl(xs):
        return lst([zlit(v) for v in xs])
    groups.append(("dom1d", "Z * Z * list Z * Z * list Z * list Z",
                   "fun c => match c with (n, o, outs, msi, fr, states) => "
                   "let dout := fun s => existsb (Z.eqb s) outs in let L := o in let R := n - o - 1 in "
                   "let r := dom_1d (z1d_pair (- L) R 1) n o in "
                   "Z.eqb (fst r) msi && zlist_eqb (snd r) fr && "
                   "zlist_eqb (map (z1d_project (- L) R 1) (sm_good Z (z1d_project (- L) R 1) (sm_is_outside_1d n o dout) (dom_maxf r))) states end",
                   [f"({zlit(n)}, {zlit(o)}, {zl(outs)}, {zlit(msi)}, {zl(fr)}, {zl(states)})" for n, o, outs, msi, fr, states in one_d]))
    groups.append(("domnd", "Z * list Z * Z * list (list Z) * Z * list Z * list (list Z)",
                   "fun c => match c with (tag, sizes, o, outs, msi, fr, states) => "
                   "let dout := fun s => existsb (zlist_eqb s) outs in "
                   "let npair := if tag =? 0 then rs_pairing else nest_pairing szudzik_pairing2d in "
                   "let nproj := if tag =? 0 then rs_projection else nest_projection szudzik_projection2d in "
                   "let d := length sizes in let r := dom_nd dout (zdn_pair npair 1) sizes o in "
                   "Z.eqb (fst r) msi && zlist_eqb (snd r) fr && "
                   "list_eqb zlist_eqb (map (zdn_project nproj d 1) (sm_good (list Z) (zdn_project nproj d 1) (sm_is_outside sizes o dout) (dom_maxf r))) states end",
                   [f"({tag}, {zl(sizes)}, {zlit(o)}, {lst([zl(x) for x in outs])}, {zlit(msi)}, {zl(fr)}, {lst([zl(x) for x in states])})"
                    for tag, sizes, o, outs, msi, fr, states in n_d]))


    # every position of the deque drawn on exhaustion (real objects) against the model's fd_state over the MODEL's deque; every inadmissible
    # state must be of a recorded class of F-C14-8 for its recorded cause (fd_known_cause_*: never a state outside the grid, never an
    # out-of-domain state on a line that meets the domain); the boolean hypotheses of the admissibility theorems evaluated by the model
    # (fd_hyp_*, C14_frontier_draw_checked) against their value computed from the implementation's Domain.outside
    groups.append(("fdstate1d", "Z * Z * list Z * list Z * bool",
                   "fun c => match c with (n, o, outs, states, hyp) => "
                   "let dout := fun s => existsb (Z.eqb s) outs in let L := o in let R := n - o - 1 in "
                   "let r := dom_1d (z1d_pair (- L) R 1) n o in "
                   "zlist_eqb (map (fd_state Z (z1d_project (- L) R 1) (snd r)) (seq 0 (length (snd r)))) states && "
                   "forallb (fun s => (draw_class_1d n o dout s =? 0) || fd_known_cause_1d n o dout s) states && "
                   "Bool.eqb (fd_hyp_1d n o dout) hyp && (negb hyp || forallb (fun s => draw_class_1d n o dout s =? 0) states) end",
                   [f"({zlit(n)}, {zlit(o)}, {zl(outs)}, {zl([st[0] for st in states])}, {blit(hyp)})" for n, o, outs, states, hyp in one_d_fs]))
    groups.append(("fdstatend", "Z * list Z * Z * list (list Z) * list (list Z) * bool",
                   "fun c => match c with (tag, sizes, o, outs, states, hyp) => "
                   "let dout := fun s => existsb (zlist_eqb s) outs in "
                   "let npair := if tag =? 0 then rs_pairing else nest_pairing szudzik_pairing2d in "
                   "let nproj := if tag =? 0 then rs_projection else nest_projection szudzik_projection2d in "
                   "let r := dom_nd dout (zdn_pair npair 1) sizes o in "
                   "list_eqb zlist_eqb (map (fd_state (list Z) (zdn_project nproj (length sizes) 1) (snd r)) (seq 0 (length (snd r)))) states && "
                   "forallb (fun s => (draw_class sizes o dout s =? 0) || fd_known_cause_nd sizes o dout s) states && "
                   "Bool.eqb (fd_hyp_nd sizes o dout) hyp && (negb hyp || forallb (fun s => draw_class sizes o dout s =? 0) states) end",
                   [f"({tag}, {zl(sizes)}, {zlit(o)}, {lst([zl(x) for x in outs])}, {lst([zl(x) for x in states])}, {blit(hyp)})"
                    for tag, sizes, o, outs, states, hyp in n_d_fs]))

    # the frontier draw: protocol histories with scripted np.random.choice positions against Model/FrontierDraw.v
    # (returned (state, flag) of every call and the machine state after it; deque, max_frontier_indices and the
    # admissibility test are recomputed by the model from the box, the origin index and the rejected states)
    def calls_lit(calls):
        return lst([f"(({zlit(x)}, {zlit(ml)}), {c}%nat)" for x, ml, c in calls])

    def lasts_lit(lasts):
        return lst([f"({zlit(a)}, {zlit(b)})" for a, b in lasts])
    groups.append(("fdraw1d", "Z * Z * list Z * list (Z * Z * nat) * list (Z * bool) * list (Z * Z)",
                   "fun c => match c with (n, o, outs, calls, rets, lasts) => "
                   "let dout := fun s => existsb (Z.eqb s) outs in let L := o in let R := n - o - 1 in "
                   "let r := dom_1d (z1d_pair (- L) R 1) n o in let out := sm_is_outside_1d n o dout in "
                   "list_eqb (fun a b => Z.eqb (fst a) (fst b) && Bool.eqb (snd a) (snd b)) "
                   "(fd_run Z (z1d_project (- L) R 1) out (dom_maxf r) (snd r) sm_init calls) rets && "
                   "list_eqb zpair_eqb (fd_lasts Z (z1d_project (- L) R 1) out (dom_maxf r) (snd r) sm_init calls) lasts end",
                   [f"({zlit(n)}, {zlit(o)}, {zl(outs)}, {calls_lit(calls)}, "
                    f"{lst([f'({zlit(s[0])}, {blit(d)})' for s, d in rets])}, {lasts_lit(lasts)})" for n, o, outs, calls, rets, lasts in one_d_fd]))
    groups.append(("fdrawnd", "Z * list Z * Z * list (list Z) * list (Z * Z * nat) * list (list Z * bool) * list (Z * Z)",
                   "fun c => match c with (tag, sizes, o, outs, calls, rets, lasts) => "
                   "let dout := fun s => existsb (zlist_eqb s) outs in "
                   "let npair := if tag =? 0 then rs_pairing else nest_pairing szudzik_pairing2d in "
                   "let nproj := if tag =? 0 then rs_projection else nest_projection szudzik_projection2d in "
                   "let d := length sizes in let r := dom_nd dout (zdn_pair npair 1) sizes o in let out := sm_is_outside sizes o dout in "
                   "list_eqb (fun a b => zlist_eqb (fst a) (fst b) && Bool.eqb (snd a) (snd b)) "
                   "(fd_run (list Z) (zdn_project nproj d 1) out (dom_maxf r) (snd r) sm_init calls) rets && "
                   "list_eqb zpair_eqb (fd_lasts (list Z) (zdn_project nproj d 1) out (dom_maxf r) (snd r) sm_init calls) lasts end",
                   [f"({tag}, {zl(sizes)}, {zlit(o)}, {lst([zl(x) for x in outs])}, {calls_lit(calls)}, "
                    f"{lst([f'({zl(s)}, {blit(d)})' for s, d in rets])}, {lasts_lit(lasts)})" for tag, sizes, o, outs, calls, rets, lasts in n_d_fd]))


def _reset_history(res, rng, viol):
    """restarts on the implementation (real Domain/StatesManager objects), InversionMethod's protocol: x is the rank of the
    requested admissible state, max_logged = M; ranks 0..M-1 are requested once, then samples restart at rank M any number
    of times.  The call with rank x must return the x-th state of the plain enumeration (no state twice, none lost),
    whatever indices were skipped before (F-C14-6 / F-C02-7 on the unrepaired method)."""
    import numpy as np
    from rpylib.distribution import pairing as P
    from rpylib.grid.spatial import CTMCGrid

    def build(dim, sizes, o, pname):
        axes = [np.array([float(k) for k in range(-o, n - o)]) for n in sizes]
        grid = CTMCGrid(h=1.0, origin_coordinate=o, axes=axes)
        pairing = P.PairingToZd(pairing=P.Szudzik() if pname == "szudzik" else P.RosenbergStrong(), dimension=dim)
        dom = P.Domain(boundary=P.Boundary(), grid=grid, pairing=pairing)
        return P.StatesManager(pairing=pairing, domain=dom, grid=grid)

    for dim, sizes, o in [(2, [5, 5], 1), (2, [5, 5], 2), (2, [4, 6], 1), (2, [7, 7], 4), (3, [3, 3, 3], 1), (3, [4, 3, 5], 1)]:
        for pname in ("szudzik", "rs"):
            order = _enumerate(build(dim, sizes, o, pname))
            K = len(order)
            for M in sorted({1, 2, 3, 16, K - 1, K, K + 2, rng.randint(2, K)}):
                if M < 1:
                    continue
                sm = build(dim, sizes, o, pname)
                calls = [(0, -1)] + [(x, M) for x in range(1, min(M, K + 1))]      # __init__ call, then the logged ranks
                if M <= K:
                    for _ in range(4):                                                # samples after the storage is full
                        calls += [(x, M) for x in range(M, rng.randint(M, K + 1) + 1)]
                got = []
                for x, ml in calls:
                    s, done = sm.project_index_to_state_increment(x, ml)
                    got.append(None if done else tuple(int(v) for v in s))
                want = [order[x] if x < K else None for x, _ in calls]
                res.count(("sm-restart", dim, tuple(sizes), o, pname, M), kind="StatesManager restart protocol")
                res.bump("sm_restart_storage", "M<=K" if M <= K else "M>K")
                if got != want:
                    k = next(k for k in range(len(calls)) if got[k] != want[k])
                    viol("StatesManager: after a restart (x == max_logged) the call with rank x does not return the x-th admissible state",
                         kind="sm-reset", dim=dim, sizes=sizes, origin=o, pairing=pname, max_logged=M, n_states=K, first_bad_call=k,
                         rank=calls[k][0], got=None if got[k] is None else list(got[k]), expected=None if want[k] is None else list(want[k]))


def _redraw(r):
    """re-run a recorded frontier draw on the implementation: rebuild the grid / boundary / StatesManager of the replay,
    exhaust it, draw position r['position'].  Returns a dict: state, in the grid?, outside the domain? (asked only for a state
    of the grid), the in-grid states Domain.outside rejects (the data the model's dom_outside is built from), the hypotheses of
    the admissibility theorems evaluated with the implementation's own Domain.outside (_impl_hypotheses), did the call draw,
    number of admissible states"""
    import itertools as it
    from rpylib.distribution import pairing as P
    from rpylib.grid.grid import Coordinates
    dim, sizes, o = r["dim"], list(r["sizes"]), r["origin"]
    boundary = _make_boundary(P, r["boundary"], r["truncations"], r["threshold"])
    grid, pairing, dom, sm = _build_sm(P, dim, sizes, o, r["pairing"], boundary)
    K = len(_enumerate(sm))
    s, done, used = _call_with_choice(sm, K, -1, r["position"])

    def dout(inc):
        return bool(dom.outside(grid[Coordinates([o + v for v in inc] if dim > 1 else o + inc[0])]))
    box = list(it.product(*[range(-o, n - o) for n in sizes]))
    outs = [x for x in box if dout(x)]
    in_grid = _in_grid(sizes, o, s)
    return {"state": s, "in_grid": in_grid, "dom_out": in_grid and dout(s), "outs": outs, "drew": bool(done and used), "K": K,
            "hyp": _impl_hypotheses(dim, sizes, o, lambda inc: tuple(inc) in set(outs)), "n_frontier": len(sm.frontier_states_indices)}


def matches_known(v, known):
    """F-C14-8 (frontier draw returns the origin / a state outside the domain).  A violation is the recorded one only if
    (1) every field is present; (2) the draw RE-RUN on the implementation gives the recorded state, which is IN THE GRID (a state
    outside the grid contradicts C14_frontier_draw_char: never absorbed) and is the origin or rejected by Domain.outside, with
    the recorded flags, cause and number of states; (3) the object lies outside the hypotheses of the admissibility theorems
    as evaluated on the implementation; (4) the Coq MODEL, fed with the box, the origin index and the states the
    implementation's Domain.outside rejects, (a) has this position in its deque, (b) returns the same state (fd_state),
    (c) finds it of a recorded class FOR THE RECORDED CAUSE -- the origin as first/last in-domain state of its line (incl.
    Boundary() with the origin on the edge of the last axis) or on a line wholly outside the domain; an out-of-domain state at
    the last axis' origin of a line wholly outside the domain; 1-d: a grid end that is outside the domain or is the origin --
    (fd_known_cause_*), and (d) evaluates the theorems' hypotheses to false (fd_hyp_*).  Everything else is unlisted."""
    if known.get("id") != "F-C14-8":
        return False
    r = v.get("replay", {})
    need = ("kind", "dim", "sizes", "origin", "pairing", "position", "got", "boundary", "truncations", "threshold", "is_origin",
            "outside_domain", "origin_on_edge", "n_states", "cause")
    if any(k not in r for k in need) or r["kind"] != "frontier-draw":
        return False
    if bool(r["is_origin"]) == bool(r["outside_domain"]) and not r["is_origin"]:
        return False
    try:
        d = _redraw(r)
        s = d["state"]
        dim, sizes, o = r["dim"], list(r["sizes"]), r["origin"]
        if not (d["drew"] and d["in_grid"] and not d["hyp"] and list(s) == list(r["got"]) and d["K"] == r["n_states"]
                and (not any(s)) == bool(r["is_origin"]) and d["dom_out"] == bool(r["outside_domain"])
                and (not any(s) or d["dom_out"])
                and bool(r["origin_on_edge"]) == (o == 0 or o == sizes[-1] - 1)
                and r["cause"] == _f8_cause(dim, sizes, o, r["boundary"], s, d["dom_out"])
                and 0 <= r["position"] < d["n_frontier"]):
            return False
        spec = {"boundary": r["boundary"], "truncations": r["truncations"], "threshold": r["threshold"]}
        key = _f8_key(dim, sizes, o, r["pairing"], spec, r["position"], s)
        if key not in _MODEL_VERDICT:                      # not one of this run's own violations: ask the model now
            import hashlib
            outs = [x if dim > 1 else x[0] for x in d["outs"]]
            _model_confirm([(key, dim, _f8_literal(dim, sizes, o, r["pairing"], outs, r["position"], s))],
                           "known_f8_" + hashlib.sha1(key.encode()).hexdigest()[:10])
        return bool(_MODEL_VERDICT.get(key))
    except Exception:  # noqa
        return False


def _states_manager_machine(res, rng, groups):
    """the method itself as a state machine: random call histories (resets via max_logged, repeats, indices above the
    frontier) on a StatesManager whose enumeration/outside predicate are scripted; compared call by call with Model/StatesManager.v"""
    from rpylib.distribution.pairing import StatesManager
    cases = []
    for t in range(120 if res.tier == "quick" else 1500):
        maxf = rng.randint(-1, 14)
        outs = sorted({i for i in range(0, 20) if rng.random() < rng.choice([0.2, 0.6, 0.9])})
        sm = object.__new__(StatesManager)
        sm.max_frontier_indices = maxf
        sm._last_projected_index = -1
        sm._last_logged_index = -1

        class _P:
            @staticmethod
            def project(i):
                return i
        sm.pairing = _P
        sm.is_outside = lambda s, outs=outs: s in outs
        sm._sample_frontier_state_increment = lambda: None
        calls, rets, lasts = [], [], []
        x = 0
        fixed_m = rng.choice([None, None, rng.randint(1, 8)])
        for k in range(rng.randint(1, 25)):
            if rng.random() < 0.6:
                xx = x
                x += 1
            elif fixed_m is not None and rng.random() < 0.5:
                xx = x = fixed_m          # restart of a sample at rank M
                x += 1
            else:
                xx = rng.randint(0, 18)
            if fixed_m is not None:
                ml = fixed_m
            else:
                ml = xx if rng.random() < 0.15 else rng.choice([-1, 1000, xx + 1])
            st, brk = sm.project_index_to_state_increment(xx, ml)
            calls.append((xx, ml))
            rets.append(None if brk else int(st))
            lasts.append((int(sm._last_projected_index), int(sm._last_logged_index)))
        res.count(("smm", maxf, tuple(outs), tuple(calls)), kind="StatesManager state machine")
        res.bump("sm_history_len", len(calls) // 5 * 5)
        cases.append((maxf, outs, calls, rets, lasts))
    lits = []
    for maxf, outs, calls, rets, lasts in cases:
        lits.append("(" + ", ".join([zlit(maxf), lst([zlit(i) for i in outs]), lst([f"({zlit(a)}, {zlit(b)})" for a, b in calls]),
                                     lst(["None" if r is None else f"(Some {zlit(r)})" for r in rets]), lst([f"({zlit(a)}, {zlit(b)})" for a, b in lasts])]) + ")")
    groups.append(("smm", "Z * list Z * list (Z * Z) * list (option Z) * list (Z * Z)",
                   "fun c => match c with (maxf, outs, calls, rets, lasts) => "
                   "list_eqb (option_eqb Z.eqb) (sm_run_index Z (fun i => i) (fun i => existsb (Z.eqb i) outs) maxf sm_init calls) rets "
                   "&& list_eqb zpair_eqb (sm_lasts (fun i => existsb (Z.eqb i) outs) maxf sm_init calls) lasts end", lits))


def replay(path):
    import sys
    data = json.load(open(path))
    print(json.dumps(data, indent=1)[:3000])
    from rpylib.distribution import pairing as P
    k = data.get("kind")
    if k == "pairing2d":
        cls = {"cantor": P.Cantor, "rs": P.RosenbergStrong, "szudzik": P.Szudzik, "pk": P.PepisKalmar}[data["cls"]]()
        if "z" in data and "x" not in data:
            p = cls.projection2d(data["z"]); print("projection2d ->", p, "pairing2d back ->", cls.pairing2d(*p))
            return 0 if cls.pairing2d(*p) == data["z"] else 1
        z = cls.pairing2d(data["x"], data["y"]); p = tuple(cls.projection2d(z)); print("pairing2d ->", z, "projection2d ->", p)
        return 0 if p == (data["x"], data["y"]) else 1
    if k == "a_n":
        from rpylib.numerical.numbers import a_n
        v, want = int(a_n(data["n"])), _a_n_reference(data["n"])
        print("a_n ->", v, "divisor summatory function ->", want)
        return 0 if v == want else 1
    if k == "sm-reset":
        class _R:
            tier = "quick"
            def count(self, *a, **kw): pass
            def bump(self, *a, **kw): pass
        hits = []
        _reset_history(_R(), random.Random(0), lambda what, **kw: hits.append((what, kw)))
        print("restart protocol:", hits[0][1] if hits else "every call with rank x returned the x-th admissible state")
        return 1 if hits else 0
    if k in ("frontier-draw", "frontier-draw-out-of-grid") and "position" in data and "boundary" in data:
        d = _redraw(data)
        s = d["state"]
        print("frontier draw at position", data["position"], "after", d["K"], "states ->", list(s), "| origin:", not any(s),
              "| in the grid:", d["in_grid"], "| outside the domain:", d["dom_out"],
              "| hypotheses of the admissibility theorems hold (implementation's Domain.outside):", d["hyp"])
        return 1 if (not any(s) or not d["in_grid"] or d["dom_out"] or not d["drew"]) else 0
    print("replay: re-run ./check C14 to re-evaluate this class of input")
    return 1

LEVEL_TEXT = ("Proof: 88 Coq theorems (closed under the global context, no axioms). The Cantor, Rosenberg-Strong (2-d and d-dimensional), Szudzik "
              "and Pepis-Kalmar pairings and their projections are mutually inverse on all naturals; the generic nested pairing/projection "
              "for dim > 2 is a bijection for any 2-d bijection; the N<->Z maps, PairingToZd (every d, over Rosenberg-Strong and nested "
              "Szudzik, omit_zero True and False) and PairingToZ1d (every interval [-L,R], every index, hence every call order, omit_zero "
              "True and False) are bijections onto the (non-zero) states; lazy_indices_product enumerates every tuple exactly once. "
              "Admissible-state enumeration: Domain's max_state_index / StatesManager.max_frontier_indices bound the index of every in-grid "
              "in-domain state (any domain predicate, any box and origin), and composed with the bijections and the state machine of "
              "project_index_to_state_increment this gives ONE theorem per enumeration (1-d, d-dim Szudzik, d-dim Rosenberg-Strong): the "
              "increasing drive returns each in-grid, in-domain, non-origin state exactly once, then exhaustion. Restarts (x == max_logged, "
              "the repaired method) are proved harmless for every enumeration under InversionMethod's protocol: the call with rank x "
              "returns the x-th admissible index. a_n is proved equal "
              "to the divisor summatory function. Straight-line functions are re-translated from /repo by py2coq on every run; loops/classes "
              "are hand-modelled and compared with the implementation by vm_compute on ~29k boundary and random cases, including real "
              "Domain/StatesManager objects (max_state_index, frontier deque, whole enumeration) under non-trivial boundaries. The frontier "
              "draw on exhaustion is inside the model (random position as an input): the deque is characterised entry by entry, every draw returns an "
              "admissible frontier state for the factory's Boundary() with an interior origin (and under two stated hypotheses for any domain), the protocol "
              "with draws is stated over the real deque / max_frontier_indices / is_outside of one Domain (non-empty deque, positions inside it): every call returns the x-th admissible state or a "
              "characterised deque state (that the draw leaves the machine state alone is true of the model by construction and TESTED on the code after every call); the theorems' hypotheses are "
              "booleans the model evaluates per object; with other boundaries, or the default boundary on a grid whose origin is on the edge of the last axis (public CTMCGrid only), the draw "
              "returns the origin or an out-of-domain state: refuted on the model, known finding F-C14-8 (absorbed only when the model reproduces the draw and its recorded cause). Hyperbolic pairing: a_n strictly increasing; upper_bound_a_n (bracket + bisection, "
              "float guesses as inputs) returns the unique n with a_n(n-1) <= z < a_n(n) whenever the bracket is valid (validated per visited z); "
              "pairing2d/projection2d modelled with the factorisation as checked data (product, order, primality of the bases). The full round trip of the "
              "hyperbolic pairing is proved in both directions for all naturals: divisors of n <-> exponent vectors (unique factorisation), block size "
              "a_n(n) - a_n(n-1) = number of divisors = prod(1+e_i), pairing2d lands in the block of (x+1)(y+1). The one remaining hypothesis is the validity "
              "of the float bracket of upper_bound_a_n: certified on every run for ALL z <= 16000 (quick) / 100000 (thorough) by a generated Coq theorem over "
              "the guesses recorded from the implementation, not proved for all z.")
LEVEL_NOTE = ("Trusted: Coq kernel + vm_compute; py2coq translator (fail-closed, also cross-checked by running generated definitions "
              "against the implementation); Python ints modelled as Z, math.isqrt as Z.sqrt; caches modelled as identity.")
TECHNIQUE = "Coq proof (lia/nia over Z, induction over size lists) on py2coq-generated definitions + vm_compute correspondence"

"""C14 -- index/state enumerations are bijections: correspondence + implementation oracle."""
import itertools
import json
import random

from common import zlit, lst, tup, coq_bad_indices, parallel_coq_bad, CoqError

PROP = "C14"
PROPERTY_FILE = "Properties/C14.v"
GEN_DEPS = ["GenPairing"]
RULE = ("cases: exhaustive small ranges + boundary families m^2-1,m^2,m^2+1 (m up to 2^31), m^3+-1, random 60-bit values, "
        "interval shapes L,R in [1,40] with shuffled call orders, size tuples of length 1-4; non-trivial = distinct case whose "
        "index/tuple is not all-zero")
MODELLED = ["PairingToZ1d.__init__ dispatch, PairingToZd glue, PepisKalmar recursion, lazy_indices_product, RosenbergStrong n-d "
            "(hand models in Model/Pairing.v, tied by vm_compute correspondence)",
            "HyperbolicPairing (sympy.factorint, root finder): oracle only, no Coq model",
            "functools.cache/lru_cache: modelled as identity on pure functions"]
ASSUMPTIONS = ["Python int is unbounded (Z); math.isqrt is the integer square root (Z.sqrt)"]
THEOREM_NOTES = {
    "C14_rs_nd_*": "d-dimensional Rosenberg-Strong: both directions for every dimension d >= 1; iroot is the exact integer root (the repaired code corrects its float guess to it; C14_iroot_unique)",
    "C14_sm_*": "StatesManager.project_index_to_state_increment as a state machine: over increasing indices without reset it returns exactly the in-grid indices <= max frontier, each once, then exhaustion for ever; the random frontier draw on exhaustion is not modelled",
    "C14_sm_reset": "histories with x == max_logged (reset) are covered by the vm_compute correspondence only",
    "C14_pepis_kalmar_*": "pk_pairing2d is generated from the source; pk_projection2d (recursive _aux_k/_aux_j) is the hand model of Model/Pairing.v, tied by correspondence",
}


def _boundary_values(rng, tier):
    vals = set(range(0, 400))
    ms = [2, 3, 7, 10, 255, 256, 1000, 4095, 4096, 65535, 65536, 2 ** 20 + 1, 2 ** 26, 2 ** 27 - 1, 2 ** 27, 2 ** 31 - 1, 2 ** 31,
          94906265, 94906266, 94906267, 5774, 5775, 5776, 208063, 208064]
    ms += [rng.randrange(2, 2 ** 31) for _ in range(40 if tier == "quick" else 400)]
    for m in ms:
        for p in (2, 3):
            for d in (-2, -1, 0, 1, 2):
                vals.add(m ** p + d)
        vals.add(m * (m + 1))
        vals.add(m * (m + 1) - 1)
        vals.add(m * (m + 1) // 2)
        vals.add(m * (m + 1) // 2 - 1)
    vals |= {rng.getrandbits(60) for _ in range(100 if tier == "quick" else 2000)}
    vals |= {rng.getrandbits(rng.randrange(1, 64)) for _ in range(100 if tier == "quick" else 2000)}
    return sorted(v for v in vals if v >= 0)


def correspond(res):
    from rpylib.distribution import pairing as P
    from rpylib.tools.generic import lazy_indices_product
    rng = random.Random(res.seed)
    tier = res.tier
    zs = _boundary_values(rng, tier)
    xys = [(x, y) for x in range(25) for y in range(25)]
    big = [2 ** 26, 2 ** 27 - 1, 2 ** 27, 2 ** 31 - 1, 94906265, 94906266, 3037000499, 3037000500]
    xys += [(a + da, b + db) for a in big for b in big[:4] + [0, 1] for da in (-1, 0, 1) for db in (0, 1)]
    xys += [(rng.getrandbits(rng.randrange(1, 40)), rng.getrandbits(rng.randrange(1, 40))) for _ in range(300 if tier == "quick" else 5000)]

    classes = {"cantor": P.Cantor, "rs": P.RosenbergStrong, "szudzik": P.Szudzik, "pk": P.PepisKalmar}
    groups = []

    # ---------- oracle on the implementation: round trips -------------------------------------
    def viol(what, **kw):
        res.violation(what, dict(kw))

    for name, cls in classes.items():
        obj = cls()
        zlist = zs if name != "pk" else [z for z in zs if z < 2 ** 62]
        proj_cases, pair_cases = [], []
        for z in zlist:
            try:
                p = tuple(int(v) for v in obj.projection2d(z))
                back = obj.pairing2d(*p)
            except Exception as e:  # noqa
                viol(f"{name}.projection2d raises {type(e).__name__}", kind="pairing2d", cls=name, z=z)
                continue
            res.count(("proj", name, z), nontrivial=z > 0, kind=f"{name}.projection2d")
            if back != z or min(p) < 0:
                viol(f"{name}: pairing2d(projection2d(z)) != z", kind="pairing2d", cls=name, z=z, got=list(p), back=int(back))
            proj_cases.append((z, p))
        for (x, y) in xys:
            if name == "pk" and y > 200:
                y = y % 200
            z = obj.pairing2d(x, y)
            p = tuple(int(v) for v in obj.projection2d(z))
            res.count(("pair", name, x, y), nontrivial=(x, y) != (0, 0), kind=f"{name}.pairing2d")
            if p != (x, y):
                viol(f"{name}: projection2d(pairing2d(x,y)) != (x,y)", kind="pairing2d", cls=name, x=x, y=y, z=int(z), got=list(p))
            pair_cases.append(((x, y), int(z)))
        projf = {"cantor": "cantor_projection2d", "rs": "rs_projection2d", "szudzik": "szudzik_projection2d", "pk": "pk_projection2d"}[name]
        pairf = {"cantor": "cantor_pairing2d", "rs": "rs_pairing2d", "szudzik": "szudzik_pairing2d", "pk": "pk_pairing2d"}[name]
        groups.append((f"{name}_proj", "Z * (Z * Z)", f"fun c => zpair_eqb ({projf} (fst c)) (snd c)",
                       [f"({zlit(z)}, ({zlit(p[0])}, {zlit(p[1])}))" for z, p in proj_cases]))
        groups.append((f"{name}_pair", "(Z * Z) * Z", f"fun c => Z.eqb ({pairf} (fst (fst c)) (snd (fst c))) (snd c)",
                       [f"(({zlit(x)}, {zlit(y)}), {zlit(z)})" for (x, y), z in pair_cases]))

    # mapping_to_z / projection_to_z
    m_cases = []
    for n in list(range(-300, 300)) + [rng.randrange(-2 ** 60, 2 ** 60) for _ in range(200)]:
        z = P.mapping_to_z(n)
        res.count(("map", n), nontrivial=n != 0, kind="mapping_to_z")
        if P.projection_to_z(z) != n or z < 0:
            viol("projection_to_z(mapping_to_z(n)) != n", kind="to_z", n=n)
        m_cases.append((n, z))
    groups.append(("toz", "Z * Z", "fun c => Z.eqb (mapping_to_z (fst c)) (snd c) && Z.eqb (projection_to_z (snd c)) (fst c)",
                   [f"({zlit(n)}, {zlit(z)})" for n, z in m_cases]))

    # PairingToZd, d = 2 (both pairings the factory may use) and d = 3 (Rosenberg-Strong)
    zd_cases = []
    for pname, pobj in (("szudzik", P.Szudzik()), ("rs", P.RosenbergStrong())):
        pz = P.PairingToZd(pairing=pobj, dimension=2, omit_zero=True)
        seen = {}
        N = 1500 if tier == "quick" else 20000
        for n in range(N):
            s = tuple(int(v) for v in pz.project(n))
            res.count(("zd2", pname, n), kind="PairingToZd2.project")
            if s == (0, 0) or s in seen or pz.pair(s) != n:
                viol("PairingToZd(d=2): project not injective / pair does not invert / hits origin", kind="zd", pairing=pname, dim=2, n=n, got=list(s))
            seen[s] = n
            if pname == "szudzik" and n < 600:
                zd_cases.append((n, s))
        R = 12
        want = {(a, b) for a in range(-R, R + 1) for b in range(-R, R + 1)} - {(0, 0)}
        miss = [s for s in want if pz.pair(s) >= (2 * R + 1) ** 2 + 4 * R * 4 + 10 or tuple(pz.project(pz.pair(s))) != s]
        if miss:
            viol("PairingToZd(d=2): project(pair(s)) != s", kind="zd", pairing=pname, dim=2, s=list(miss[0]))
    groups.append(("zd2", "Z * (Z * Z)", "fun c => zpair_eqb (zd2_project szudzik_projection2d 1 (fst c)) (snd c) && Z.eqb (zd2_pair szudzik_pairing2d 1 (snd c)) (fst c)",
                   [f"({zlit(n)}, ({zlit(s[0])}, {zlit(s[1])}))" for n, s in zd_cases]))

    rs = P.RosenbergStrong()
    rs_cases = []
    for d, N, box in ((3, 4000 if tier == "quick" else 60000, 7), (4, 3000 if tier == "quick" else 30000, 4)):
        seen = set()
        for z in range(N):
            x = tuple(int(v) for v in rs.projection(z, d))
            res.count(("rsnd", d, z), nontrivial=z > 0, kind=f"rs.projection d={d}")
            if rs.pairing(x) != z or x in seen or min(x) < 0:
                viol("RosenbergStrong n-d: pairing(projection(z)) != z or duplicate", kind="rsnd", dim=d, z=z, got=list(x))
            seen.add(x)
            if z < 400 or z % 37 == 0:
                rs_cases.append((d, z, x))
        for x in itertools.product(range(box), repeat=d):
            if tuple(rs.projection(rs.pairing(x), d)) != x:
                viol("RosenbergStrong n-d: projection(pairing(x)) != x", kind="rsnd", dim=d, x=list(x))
    for m in [5775, 5776, 46340, 208063, 2 ** 17, 2 ** 20 + 1] + [rng.randrange(2, 2 ** 20) for _ in range(30)]:
        for dlt in (-1, 0, 1):
            z = m ** 3 + dlt
            x = tuple(int(v) for v in rs.projection(z, 3))
            res.count(("rsnd-b", z), kind="rs.projection d=3 boundary")
            if rs.pairing(x) != z or min(x) < 0:
                viol("RosenbergStrong 3-d: pairing(projection(z)) != z near a cube", kind="rsnd", dim=3, z=z, got=list(x))
    groups.append(("rsnd", "nat * Z * list Z", "fun c => zlist_eqb (rs_projection (fst (fst c)) (snd (fst c))) (snd c) && Z.eqb (rs_pairing (snd c)) (snd (fst c))",
                   [f"({d}%nat, {zlit(z)}, {lst([zlit(v) for v in x])})" for d, z, x in rs_cases]))

    # PairingToZ1d: all shapes, shuffled call order; compare with the model's pure function
    z1_cases = []
    shapes = [(L, R) for L in range(1, 13) for R in range(1, 13)] + [(rng.randrange(1, 41), rng.randrange(1, 41)) for _ in range(40 if tier == "quick" else 400)]
    for (L, R) in shapes:
        for omit in (True, False):
            p = P.PairingToZ1d((-L, R), omit_zero=omit)
            n = L + R + (0 if omit else 1)
            order = list(range(n))
            mode = rng.choice(["asc", "desc", "shuffle", "beyond-first"])
            if mode == "desc":
                order.reverse()
            elif mode == "shuffle":
                rng.shuffle(order)
            elif mode == "beyond-first":
                order = order[n // 2:] + order[:n // 2]
            out = {k: int(p.project(k)) for k in order}
            res.bump("z1d_call_order", mode)
            fresh = P.PairingToZ1d((-L, R), omit_zero=omit)
            asc = {k: int(fresh.project(k)) for k in range(n)}
            res.count(("z1d", L, R, omit, mode), kind="PairingToZ1d")
            expect = set(range(-L, R + 1)) - ({0} if omit else set())
            if out != asc:
                k = next(k for k in range(n) if out[k] != asc[k])
                viol("PairingToZ1d.project depends on the call order", kind="z1d", L=L, R=R, omit=omit, order=order, index=k,
                     got=out[k], in_increasing_order=asc[k])
            elif set(out.values()) != expect or len(set(out.values())) != n:
                viol("PairingToZ1d.project does not enumerate every state exactly once", kind="z1d", L=L, R=R, omit=omit, order=order)
            elif any(p.pair(out[k]) != k for k in range(n)):
                viol("PairingToZ1d.pair does not invert project", kind="z1d", L=L, R=R, omit=omit, order=order)
            for k in range(n):
                z1_cases.append((L, R, 1 if omit else 0, k, out[k]))
    if tier == "quick":
        z1_cases = z1_cases[::3]
    groups.append(("z1d", "Z * Z * Z * Z * Z",
                   "fun c => match c with (L, R, o, k, s) => Z.eqb (z1d_project (- L) R o k) s && Z.eqb (z1d_pair (- L) R o s) k end",
                   [f"({zlit(L)}, {zlit(R)}, {zlit(o)}, {zlit(k)}, {zlit(s)})" for L, R, o, k, s in z1_cases]))

    # lazy_indices_product
    lz_cases = []
    size_lists = [[a] for a in range(1, 6)] + [list(t) for n in (2, 3) for t in itertools.product(range(1, 5), repeat=n)]
    size_lists += [[rng.randrange(1, 7) for _ in range(rng.randrange(1, 5))] for _ in range(30 if tier == "quick" else 300)]
    for sizes in size_lists:
        got = [tuple(int(v) for v in t) for t in lazy_indices_product(list(sizes))]
        want = set(itertools.product(*[range(s) for s in sizes]))
        res.count(("lazy", tuple(sizes)), nontrivial=len(sizes) > 1, kind="lazy_indices_product")
        res.bump("lazy_sizes_equal", len(set(sizes)) == 1)
        if len(got) != len(want) or set(got) != want:
            viol("lazy_indices_product does not yield every tuple exactly once", kind="lazy", sizes=list(sizes), got=[list(t) for t in got][:40])
        lz_cases.append((sizes, got))
    groups.append(("lazy", "list Z * list (list Z)", "fun c => list_eqb zlist_eqb (lazy_product (fst c)) (snd c)",
                   [f"({lst([zlit(s) for s in sizes])}, {lst([lst([zlit(v) for v in t]) for t in got])})" for sizes, got in lz_cases]))

    # Hyperbolic pairing: oracle only
    hp = P.HyperbolicPairing()
    for z in range(0, 600 if tier == "quick" else 5000):
        x, y = (int(v) for v in hp.projection2d(z))
        res.count(("hyp", z), nontrivial=z > 0, kind="hyperbolic")
        if hp.pairing2d(x, y) != z or x < 0 or y < 0:
            viol("HyperbolicPairing: pairing2d(projection2d(z)) != z", kind="hyp", z=z, got=[x, y])

    # StatesManager over increasing indices (1-d, 2-d, 3-d grids; centred or not) and as a state machine
    _states_manager(res, rng, viol)
    _states_manager_machine(res, rng, groups)

    # ---------- Coq side: the model must compute exactly what the implementation returned -----
    header = ("From Coq Require Import ZArith List Bool.\nFrom RV Require Import Gen.GenPairing Model.Pairing Model.StatesManager.\nOpen Scope Z_scope.\n"
              "Fixpoint sm_lasts (o : Z -> bool) (maxf last : Z) (cs : list (Z*Z)) : list Z := match cs with nil => nil | c :: r => "
              "let s := sm_step Z (fun i => i) o maxf last (fst c) (snd c) in snd s :: sm_lasts o maxf (snd s) r end.")
    res.case_lemmas += len(groups)
    bad = coq_bad_indices(PROP, "cases", header, groups, timeout=900)
    for g, ty, chk, cases in groups:
        if bad[g]:
            res.broke(f"correspondence {g}", f"model and implementation differ on {len(bad[g])} case(s), first: {cases[bad[g][0]]}")
        else:
            res.case_ok += 1


def _enumerate(sm, limit=200000):
    got, x = [], 0
    while x < limit:
        s, done = sm.project_index_to_state_increment(x)
        if done:
            break
        got.append(tuple(int(v) for v in s) if hasattr(s, "__len__") else int(s))
        x += 1
    return got


def _states_manager(res, rng, viol):
    import numpy as np
    from rpylib.distribution import pairing as P
    from rpylib.grid.spatial import CTMCGrid
    # 1-d: every interval shape
    shapes = [(rng.randrange(1, 8), rng.randrange(1, 8)) for _ in range(25)] + [(1, 1), (1, 5), (5, 1), (3, 3)]
    for (L, R) in shapes:
        axis = np.array([float(k) for k in range(-L, R + 1)])
        grid = CTMCGrid(h=1.0, origin_coordinate=L, axes=[axis])
        pairing = P.PairingToZ1d((-L, R), omit_zero=True)
        dom = P.Domain(boundary=P.Boundary(), grid=grid, pairing=pairing)
        sm = P.StatesManager(pairing=pairing, domain=dom, grid=grid)
        got = _enumerate(sm, 10 * (L + R) + 10)
        res.count(("sm1d", L, R), kind="StatesManager 1d")
        want = set(range(-L, R + 1)) - {0}
        if sorted(got) != sorted(want):
            viol("StatesManager(1-d) does not return every in-grid non-origin state exactly once before exhaustion",
                 kind="sm", L=L, R=R, got=got, missing=sorted(want - set(got)))
    # n-d: centred / off-centre origin, equal / unequal axis lengths, both pairings the factory can choose
    grids = [(2, [5, 5], 2), (2, [7, 7], 3), (2, [7, 7], 4), (2, [7, 7], 1), (2, [5, 9], 2), (2, [9, 5], 2), (2, [4, 6], 1),
             (3, [3, 3, 3], 1), (3, [5, 5, 5], 2), (3, [4, 3, 5], 1), (3, [5, 5, 5], 1)]
    for dim, sizes, o in grids:
        for pname in ("szudzik", "rs"):
            if pname == "szudzik" and dim != 2:
                continue
            axes = [np.array([float(k) for k in range(-o, n - o)]) for n in sizes]
            grid = CTMCGrid(h=1.0, origin_coordinate=o, axes=axes)
            pairing = P.PairingToZd(pairing=P.Szudzik() if pname == "szudzik" else P.RosenbergStrong(), dimension=dim)
            dom = P.Domain(boundary=P.Boundary(), grid=grid, pairing=pairing)
            sm = P.StatesManager(pairing=pairing, domain=dom, grid=grid)
            got = _enumerate(sm)
            res.count(("smnd", dim, tuple(sizes), o, pname), kind=f"StatesManager {dim}d {pname}")
            import itertools as it
            want = set(it.product(*[range(-o, n - o) for n in sizes])) - {tuple([0] * dim)}
            if sorted(got) != sorted(want):
                dup = len(got) != len(set(got))
                miss = sorted(want - set(got))
                payload = dict(kind="sm", dim=dim, sizes=sizes, origin=o, pairing=pname, n_returned=len(got), n_expected=len(want),
                               duplicates=dup, missing=[list(m) for m in miss[:12]], extra=[list(m) for m in sorted(set(got) - want)[:12]])
                if pname == "rs" and not dup and not (set(got) - want):
                    # known: max(frontier indices) is not the largest in-grid index for the Rosenberg-Strong order
                    payload["finding"] = "F-C14-5"
                viol(f"StatesManager({dim}-d, {pname}) does not return every in-grid non-origin state exactly once before exhaustion", **payload)


def _states_manager_machine(res, rng, groups):
    """the method itself as a state machine: random call histories (resets via max_logged, repeats, indices above the
    frontier) on a StatesManager whose enumeration/outside predicate are scripted; compared call by call with Model/StatesManager.v"""
    from rpylib.distribution.pairing import StatesManager
    cases = []
    for t in range(120 if res.tier == "quick" else 1500):
        maxf = rng.randint(-1, 14)
        outs = sorted({i for i in range(0, 20) if rng.random() < rng.choice([0.2, 0.6, 0.9])})
        sm = object.__new__(StatesManager)
        sm.max_frontier_indices = maxf
        sm._last_projected_index = -1

        class _P:
            @staticmethod
            def project(i):
                return i
        sm.pairing = _P
        sm.is_outside = lambda s, outs=outs: s in outs
        sm._sample_frontier_state_increment = lambda: None
        calls, rets, lasts = [], [], []
        x = 0
        for k in range(rng.randint(1, 25)):
            if rng.random() < 0.6:
                xx = x
                x += 1
            else:
                xx = rng.randint(0, 18)
            ml = xx if rng.random() < 0.15 else rng.choice([-1, 1000, xx + 1])
            st, brk = sm.project_index_to_state_increment(xx, ml)
            calls.append((xx, ml))
            rets.append(None if brk else int(st))
            lasts.append(int(sm._last_projected_index))
        res.count(("smm", maxf, tuple(outs), tuple(calls)), kind="StatesManager state machine")
        res.bump("sm_history_len", len(calls) // 5 * 5)
        cases.append((maxf, outs, calls, rets, lasts))
    lits = []
    for maxf, outs, calls, rets, lasts in cases:
        lits.append("(" + ", ".join([zlit(maxf), lst([zlit(i) for i in outs]), lst([f"({zlit(a)}, {zlit(b)})" for a, b in calls]),
                                     lst(["None" if r is None else f"(Some {zlit(r)})" for r in rets]), lst([zlit(l) for l in lasts])]) + ")")
    groups.append(("smm", "Z * list Z * list (Z * Z) * list (option Z) * list Z",
                   "fun c => match c with (maxf, outs, calls, rets, lasts) => "
                   "list_eqb (option_eqb Z.eqb) (sm_run_index Z (fun i => i) (fun i => existsb (Z.eqb i) outs) maxf (-1) calls) rets "
                   "&& zlist_eqb (sm_lasts (fun i => existsb (Z.eqb i) outs) maxf (-1) calls) lasts end", lits))


def replay(path):
    import sys
    data = json.load(open(path))
    print(json.dumps(data, indent=1)[:3000])
    from rpylib.distribution import pairing as P
    k = data.get("kind")
    if k == "pairing2d":
        cls = {"cantor": P.Cantor, "rs": P.RosenbergStrong, "szudzik": P.Szudzik, "pk": P.PepisKalmar}[data["cls"]]()
        if "z" in data and "x" not in data:
            p = cls.projection2d(data["z"]); print("projection2d ->", p, "pairing2d back ->", cls.pairing2d(*p))
            return 0 if cls.pairing2d(*p) == data["z"] else 1
        z = cls.pairing2d(data["x"], data["y"]); p = tuple(cls.projection2d(z)); print("pairing2d ->", z, "projection2d ->", p)
        return 0 if p == (data["x"], data["y"]) else 1
    print("replay: re-run ./check C14 to re-evaluate this class of input")
    return 1

LEVEL_TEXT = ("Proof: 28 Coq theorems (closed under the global context, no axioms) state that the Cantor, Rosenberg-Strong (2-d and d-dimensional), Szudzik and Pepis-Kalmar "
              "pairings and their projections are mutually inverse on all naturals, that the N<->Z maps, PairingToZd (d=2) and "
              "PairingToZ1d (every interval [-L,R], every index, hence every call order) are bijections onto the non-zero states, and "
              "that lazy_indices_product enumerates every tuple exactly once for all size lists. The straight-line functions are "
              "re-translated from /repo by py2coq on every run, so an edit re-checks the proofs; loops/classes are hand-modelled and "
              "compared with the implementation by vm_compute on ~22k boundary and random cases; StatesManager.project_index_to_state_increment is "
              "proved (as a state machine) to return every in-grid index <= the maximum exactly once over increasing indices. Partial: the "
              "hyperbolic pairing, the computation of the maximum index by Domain, reset histories and d >= 3 signed enumerations are covered "
              "by correspondence/oracle only.")
LEVEL_NOTE = ("Trusted: Coq kernel + vm_compute; py2coq translator (fail-closed, also cross-checked by running generated definitions "
              "against the implementation); Python ints modelled as Z, math.isqrt as Z.sqrt; caches modelled as identity.")
TECHNIQUE = "Coq proof (lia/nia over Z, induction over size lists) on py2coq-generated definitions + vm_compute correspondence"

"""C15 -- simulated paths are running sums on the product dates within the time-step cap:
correspondence (model vs implementation through process.simulate_one_path(), vm_compute) + implementation-only oracle."""
import json
import random
from collections import deque
from fractions import Fraction

from common import qlit, lst, blit, coq_bad_indices

PROP = "C15"
PROPERTY_FILE = "Properties/C15.v"
GEN_DEPS = []
RULE = ("cases: real LevyProcess / MarkovChainProcess / CouplingMarkovChain (level 1) objects over a dyadic step-measure model, "
        "driven through simulate_one_path() / simulate_one_path_with_coupling() with scripted jump counts (0-4 per interval), "
        "sorted dyadic jump-time offsets, dyadic jump sizes / sampled states, tagged dyadic normals and scripted coupling states; "
        "1-5 product dates, fixed dates / jump times / jump times with max_step_epsilon (eps below, equal to and above the "
        "maturity); build_finer_grid (both copies) directly on arbitrary dyadic arrays (1-d, d x n, fine+coarse; also unsorted "
        "and zero first time); non-trivial = path with >= 1 jump and >= 2 intervals or an inserted point")
MODELLED = ["SimulationFixedTimes / SimulationWithJumpTimes / SimulationMaximumStep and their Markov-chain and coupled (1-d) "
            "subclasses: assembly of the path from the consumed variates (hand model Model/Paths.v), tied by vm_compute "
            "correspondence through the public simulate_one_path entry points",
            "np.sqrt of the time steps is fed to the model as data; np.insert / np.flatnonzero / np.cumsum / np.diff modelled by "
            "list functions and pinned by the correspondence",
            "sources of randomness are scripted: nb_jump_dt, jump_times_from_nb_of_jumps, model.jump_increment / the chain's "
            "state sampler, np.random.normal, CouplingSimulation.coupling_state (C03 is about its law)",
            "MarkovChainLevyCopula (2-d) is driven through simulate_one_path and compared component by component with the 1-d chain model; "
            "CouplingProcessLevyCopula (2-d, level 1) likewise, fine and coarse component by component against the 1-d coupled model "
            "(its private __coupling_state is scripted)"]
ASSUMPTIONS = ["floats are modelled by exact rationals: times and jump paths compared exactly (dyadic scripts); the diffusion path "
               "exactly when every sqrt(dt) is an exact double, with absolute tolerance 1e-12 otherwise",
               "C15_jump_times assumes consecutive product intervals and offsets strictly increasing inside (0, dt) "
               "(np.sort of uniforms; ties have probability 0)",
               "C15_finer_grid assumes 0 < eps; the number of passes is bounded by max gap / eps"]
THEOREM_NOTES = {
    "C15_fixed_dates": "about the repaired tree (fix commit for F-C15-3: np.cumsum of the interval totals); on the unrepaired tree the oracle reports F-C15-3",
    "C15_jump_times": "Levy and (repaired, F-C15-4) Markov-chain jump-time simulators: running sums for any number of product intervals; times (ivs) and "
                      "values (incs) are separate arguments of the model as they are separate arrays in the code: the statements about times and about "
                      "values hold for each alone, and only the last conjunct (premise: as many increments as offsets per interval) ties them together",
    "C15_finer_grid_returns": "specification unfolding: conjuncts 1 and 3 hold by definition of finer_grid (they say which model function the returned arrays "
                              "are); the content is conjunct 2 (times = cumsum of the gaps gives the gaps back) and its use in C15_cap_whole_path",
    "C15_finer_grid_aligned": "a parametricity statement about the pair-valued model (one gap list, values inserted at the same positions by "
                              "construction); that the two numpy inserts of helper.py really use the same positions is pinned by the correspondence",
    "C15_finer_grid": "Refines = inserted points carry the value of the point before them and take their gap out of the following original point",
    "C15_cap_whole_path": "about the repaired tree (F-C15-1: refine_up_to_maturity): every step <= eps incl. the last step and jump-free paths; "
                          "Q arithmetic (float rounding on non-dyadic inputs: F-C15-5)",
}

TOL = Fraction(1, 10 ** 12)

# one message per recorded finding (the replay carries the specific simulator / component / input)
CANON = {
    "F-C15-3": "fixed-date simulators: the jump part at a date is the jump total of the last interval, not the running sum",
    "F-C15-5": "build_finer_grid in float arithmetic on non-dyadic inputs: the remainders of gaps that are (nearly) multiples of epsilon are "
               "rounded, giving duplicate times and original jump times shifted by an ulp",
}


def matches_known(v, known):
    """a violation is accepted as a recorded finding only if it is exactly the recorded class"""
    r, kid = v["replay"], known["id"]
    fr = lambda x: Fraction(x) if not isinstance(x, str) else Fraction(x)   # noqa  (replays may carry "p/q" strings)
    try:
        if kid == "F-C15-5":
            # accepted only if the returned times are EXACTLY what the documented algorithm gives when run in double precision
            # (independent pure-Python replica) and every returned time is within 1e-12 of a time of the same algorithm run in exact
            # arithmetic on the same inputs: rounding of the remainders, not a different insertion logic
            if r.get("kind") != "finer-nondyadic" or r.get("class") not in ("duplicate time", "original time lost"):
                return False
            times, eps, got = [float(t) for t in r["times"]], float(r["eps"]), [float(t) for t in r["got_times"]]
            predicted = finer_grid_replica(times, eps, float)
            exact = finer_grid_replica(times, eps, Fraction)
            near = all(min(abs(Fraction(g) - e) for e in exact) <= Fraction(1, 10 ** 12) for g in got)
            return got == predicted and near and abs(len(got) - len(exact)) <= len(times)     # at most one point more or less per original gap
    except Exception:  # noqa
        return False
    return False


def finer_grid_replica(times, eps, num):
    """the loop of _build_finer_grid on a list, in the arithmetic `num` (float: double precision as numpy; Fraction: exact)"""
    ts = [num(t) for t in times]
    eps = num(eps)
    dts = [ts[0] - num(0)] + [b - a for a, b in zip(ts, ts[1:])]
    for _ in range(100000):
        if not any(d > eps for d in dts):
            break
        out = []
        for d in dts:
            if d > eps:
                out += [eps, d - eps]
            else:
                out.append(d)
        dts = out
    acc, res_ = num(0), []
    for d in dts:
        acc = acc + d
        res_.append(acc)
    return res_


def report(res, what, replay):
    fid = replay.get("finding")
    if fid in CANON:
        replay = dict(replay, detail=what)
        what = CANON[fid]
    res.violation(what, replay)


def F(x):
    return Fraction(float(x))


def dy(rng, lo, hi, den):
    return rng.randrange(int(lo * den), int(hi * den) + 1) / den


# ----------------------------------------------------------------------------- scripted objects
def harness_classes():
    import numpy as np
    from stepmeasure import StepModel
    from rpylib.product.underlying import Underlying
    from rpylib.grid.time import TimeGrid

    class DatesUnderlying(Underlying):
        """an underlying observed on `num` equally spaced dates (public subclassing interface)"""

        def __init__(self, num):
            self.num = num

        def value(self, times, path, jump_path, payoff_underlying=None):
            return path[..., -1]

        def compute_times_grid(self, maturity):
            return TimeGrid(0.0, maturity, self.num)

    class ScriptModel(StepModel):
        """jump sizes come from a script (the model's own sampler is the source of randomness)"""
        script = None

        def jump_increment(self, n):
            return np.array([self.script.popleft() for _ in range(int(n))], dtype=float)

    return DatesUnderlying, ScriptModel


def make_product(num_dates, maturity, stochastic):
    from rpylib.product.product import Product
    from rpylib.product.payoff import Forward, Payoff, PayoffDates
    DatesUnderlying, _ = harness_classes()
    pay = Payoff(PayoffDates.STOCHASTIC) if stochastic else Forward(0.0)
    return Product(DatesUnderlying(num_dates), pay, maturity=maturity)


def the_measure():
    from stepmeasure import StepMeasure
    Fr = Fraction
    return StepMeasure([Fr(-2), Fr(-1, 4), Fr(1, 4), Fr(2)], [Fr(3, 4), Fr(0), Fr(3, 2)], strict=False)


AXIS = [Fraction(k, 4) for k in range(-6, 7)]      # -1.5 .. 1.5, origin index 6


class Patch:
    """scripted randomness; restores np.random.normal on exit"""

    def __init__(self, normals):
        self.normals = deque(normals)
        self.used_normals = []

    def __enter__(self):
        import numpy as np
        self._orig = np.random.normal

        def normal(loc=0.0, scale=1.0, size=None):
            if size is None:
                v = self.normals.popleft()
                self.used_normals.append(v)
                return v
            n = int(np.prod(size))
            vals = [self.normals.popleft() for _ in range(n)]
            self.used_normals.extend(vals)
            return np.array(vals, dtype=float).reshape(size)
        np.random.normal = normal
        return self

    def __exit__(self, *a):
        import numpy as np
        np.random.normal = self._orig


def script_process(proc, counts, offsets):
    import numpy as np
    cq, oq = deque(counts), deque(offsets)
    proc.nb_jump_dt = lambda dt: cq.popleft()
    proc.jump_times_from_nb_of_jumps = lambda dt, n: np.array(oq.popleft(), dtype=float)


def gen_script(rng, n_int, dt, allow_empty=True):
    """per interval: count, strictly increasing dyadic offsets inside (0, dt), tagged increments"""
    counts, offsets = [], []
    for _ in range(n_int):
        n = rng.choice([0, 0, 1, 1, 2, 3, 4]) if allow_empty else rng.choice([1, 2, 3])
        grid = int(dt * 64)
        n = min(n, grid - 1)
        offs = sorted(rng.sample(range(1, grid), n))
        counts.append(n)
        offsets.append([k / 64 for k in offs])
    return counts, offsets


def tags(rng, n):
    """distinct dyadic normals"""
    pool = [k / 8 for k in range(-24, 25) if k]
    return [rng.choice(pool) for _ in range(n)]


# ----------------------------------------------------------------------------- oracle on one path (implementation only)
def check_path(res, what, times, diff, jumps, T, jump_times_expected, running_expected, sq_sigma_w, eps, ctx, fixed_dates=None, interval_sizes=None):
    """times/diff/jumps: lists of floats returned; running_expected: jump value expected at each returned time (exact)"""
    ok = True

    def bad(msg, **kw):
        nonlocal ok
        ok = False
        report(res, msg, dict(ctx, **kw))

    if times[0] != 0.0 or jumps[0] != 0.0 or diff[0] != 0.0:
        bad(f"{what}: path does not start at (0, 0)", times=times, jumps=jumps)
    if times[-1] != T:
        bad(f"{what}: path does not end at the maturity", times=times)
    if any(b <= a for a, b in zip(times, times[1:])):
        bad(f"{what}: times are not strictly increasing", times=times)
    if not (len(times) == len(diff) == len(jumps)):
        bad(f"{what}: times / diffusion / jump components have different lengths", lens=[len(times), len(diff), len(jumps)])
        return False
    if running_expected is not None and [F(v) for v in jumps] != running_expected:
        fid = {"fixed": "F-C15-3"}.get(ctx.get("finding_hint"))
        rp = dict(times=times, jumps=jumps, running_sum=running_expected)
        if fid:
            rp["finding"] = fid
        bad(f"{what}: the jump part is not the running sum of the jump increments up to each time", **rp)
    if sq_sigma_w is not None:
        acc, want = Fraction(0), [Fraction(0)]
        for x in sq_sigma_w:
            acc += x
            want.append(acc)
        if len(want) != len(diff) or any(abs(F(a) - b) > TOL for a, b in zip(diff, want)):
            bad(f"{what}: the diffusion part is not the running sum of the scaled Brownian increments", diffusion=diff, want=want)
    if eps is not None and eps < T:
        steps = [b - a for a, b in zip(times, times[1:])]
        if max(steps) > eps:        # EVERY step, the one to the maturity and the steps of a path without jumps included
            k = max(range(len(steps)), key=lambda i: steps[i])
            where = "path without jumps" if len(times) == 2 else ("step to the maturity" if k == len(steps) - 1 else "inner step")
            bad(f"{what}: a step of the returned path exceeds max_step_epsilon ({where})", times=times, eps=eps, step=steps[k], where=where)
    return ok


def refined_expectation(jt, vals, returned_times):
    """value expected at each returned inner time: the value of the last original jump time <= t (0 before the first)"""
    out, k, cur = [], 0, Fraction(0)
    for t in returned_times:
        while k < len(jt) and F(jt[k]) <= F(t):
            cur = vals[k]
            k += 1
        out.append(cur)
    return out


# ----------------------------------------------------------------------------- LevyProcess and MarkovChainProcess
def build_process(kind, rng):
    """-> (process, sigma used for the diffusion, function mapping scripted 'jump choices' to jump sizes)"""
    import numpy as np
    from stepmeasure import StepModel, make_grid
    from rpylib.process.levyprocess import LevyProcess
    from rpylib.process.markovchain.markovchain import MarkovChainProcess
    from rpylib.distribution.sampling import SamplingMethod
    _, ScriptModel = harness_classes()
    if kind == "levy":
        model = ScriptModel(the_measure(), a=0.25, sigma=0.5)
        return LevyProcess(model), model
    model = StepModel(the_measure(), a=0.25, sigma=0.5)
    proc = MarkovChainProcess(model, SamplingMethod.BINARYSEARCHTREEADAPTED1D, make_grid(AXIS, 6, Fraction(1, 4)))
    return proc, model


def draw_jumps(kind, rng, counts, grid=None, origin=None):
    """per interval: what the sampler returns (LevyProcess: sizes; chain: state increments) and the jump sizes"""
    raw, sizes = [], []
    for n in counts:
        if kind == "levy":
            r = [rng.choice([1, 2, 4, 8, 16, 32]) / 64 * rng.choice([1, 1, -1]) for _ in range(n)]
            raw.append(r)
            sizes.append(list(r))
        else:
            r = [rng.choice([-3, -2, -1, 1, 2, 3, 4]) for _ in range(n)]
            raw.append(r)
            sizes.append([float(grid[origin + k]) for k in r])
    return raw, sizes


def single_process_cases(res, rng, tier):
    import numpy as np
    fixed_cases, jump_cases = [], []
    n_iter = 110 if tier == "quick" else 800
    for it in range(n_iter):
        kind = "levy" if it % 2 == 0 else "chain"
        mode = ["fixed", "jump", "cap"][it % 3] if it % 7 else "cap"
        n_int = rng.choice([1, 1, 2, 3, 4]) if mode != "fixed" else rng.choice([1, 2, 3, 4])
        if mode == "cap":
            n_int = rng.choice([1, 2, 3, 4, 6, 8, 12])      # also MANY product dates
        dt = rng.choice([0.25, 1.0, 1.0, 4.0]) if mode == "fixed" else rng.choice([0.5, 1.0, 2.0])
        T = dt * n_int
        proc, model = build_process(kind, rng)
        prod = make_product(n_int + 1, T, stochastic=(mode != "fixed"))
        eps = None
        if mode == "cap":
            eps = rng.choice([T / 16, T / 8, dt / 4, 3 * dt / 16, T, 2 * T, dt / 2])
            if n_int >= 2 and rng.random() < 0.6:
                # product interval <= eps < maturity: the cap must still act on gaps between jumps of different intervals
                eps = rng.choice([e for e in (dt, 1.25 * dt, 1.5 * dt, 2 * dt, T / 2, 0.75 * T) if dt <= e < T])
        counts, offsets = gen_script(rng, n_int, dt)
        if mode == "cap" and n_int >= 3 and rng.random() < 0.6:
            keep = set(rng.sample(range(n_int), rng.choice([1, 2])))     # sparse jumps: long gaps across several product dates
            counts = [c if k in keep else 0 for k, c in enumerate(counts)]
            offsets = [o if k in keep else [] for k, o in enumerate(offsets)]
            for k in keep:
                if counts[k] == 0:
                    counts[k], offsets[k] = 1, [dt / 2]
        if it % 11 == 0:
            counts, offsets = [0] * n_int, [[] for _ in range(n_int)]
        ctx = {"kind": "process", "process": kind, "mode": mode, "intervals": n_int, "dt": dt, "T": T, "eps": eps, "counts": counts, "offsets": offsets}
        try:
            proc.initialisation(prod, max_step_epsilon=eps) if eps is not None else proc.initialisation(prod)
            grid = getattr(proc, "grid", None)
            origin = grid.origin_coordinate if grid is not None else None
            raw, sizes = draw_jumps(kind, rng, counts, grid, origin)
            ctx["jump_sizes"] = sizes
            if kind == "levy":
                model.script = deque(v for r in raw for v in r)
            else:
                rq = deque(raw)
                proc._path_simulation._sampling = lambda size, rq=rq: list(rq.popleft())
            script_process(proc, counts, offsets)
            n_normals = n_int if mode == "fixed" else sum(counts) + 2 + (0 if eps is None else int(T / min(eps, T)) + 4 * n_int + 8)
            ws = tags(rng, n_normals + 4)
            ctx["normals"] = ws
            with Patch(ws) as pt:
                proc.pre_computation(1, prod)
                sp = proc.simulate_one_path()
                used = list(pt.used_normals)
        except Exception as e:  # noqa
            report(res, f"{type(proc).__name__}.simulate_one_path raises {type(e).__name__} ({mode})", dict(ctx, error=str(e)))
            continue
        times = [float(t) for t in sp.jump_times[:]]
        diff = [float(v) for v in np.asarray(sp.diffusion_path, dtype=float).flatten()]
        jumps = [float(v) for v in np.asarray(sp.jump_path, dtype=float).flatten()]
        sigma = float(model.diffusion_coefficient()) if kind == "levy" else float(proc.equivalent_diffusion_coefficient)
        sq = [float(np.sqrt(b - a)) for a, b in zip(times, times[1:])] if mode != "fixed" else [float(v) for v in np.sqrt(np.diff(times))]
        ws_used = used[:len(sq)]
        exact_sq = all(F(s) ** 2 == F(b) - F(a) for s, a, b in zip(sq, times, times[1:]))
        tol = Fraction(0) if exact_sq else TOL
        ssw = [F(s) * F(sigma) * F(w) for s, w in zip(sq, ws_used)]
        flat = [F(v) for r in sizes for v in r]
        if mode == "fixed":
            run, acc = [Fraction(0)], Fraction(0)
            for r in sizes:
                acc += sum(F(v) for v in r)
                run.append(acc)
            ctx["finding_hint"] = "fixed"
            check_path(res, f"{type(proc).__name__} (fixed dates)", times, diff, jumps, T, None, run, ssw, None, ctx)
            fixed_cases.append(f"({blit(kind == 'chain')}, {lst([qlit(s) for s in sq])}, {qlit(sigma)}, {lst([qlit(w) for w in ws_used])}, "
                               f"{lst([lst([qlit(v) for v in r]) for r in sizes])}, {qlit(tol)}, {lst([qlit(v) for v in diff])}, {lst([qlit(v) for v in jumps])})")
        else:
            tms = [k * dt for k in range(n_int)]
            jt = [tm + o for tm, offs in zip(tms, offsets) for o in offs]
            cum, acc = [], Fraction(0)
            for v in flat:
                acc += v
                cum.append(acc)
            run = [Fraction(0)] + refined_expectation(jt, cum, times[1:-1]) + [cum[-1] if cum else Fraction(0)]
            check_path(res, f"{type(proc).__name__} ({'jump times' if eps is None else 'jump times, max step'})", times, diff, jumps, T, jt, run, ssw, eps, ctx,
                       interval_sizes=sizes)
            if eps is not None and eps < T and any(F(t) not in {F(x) for x in times} for t in jt):
                report(res, "max_step_epsilon: an original jump time is missing from the returned path", dict(ctx, times=times, jump_times=jt))
            cap = "None" if eps is None else f"(Some {qlit(eps)})"
            jump_cases.append(f"({blit(kind == 'chain')}, {cap}, {qlit(T)}, {lst([qlit(t) for t in tms])}, "
                              f"{lst([lst([qlit(o) for o in offs]) for offs in offsets])}, {lst([lst([qlit(v) for v in r]) for r in sizes])}, "
                              f"{lst([qlit(s) for s in sq])}, {qlit(sigma)}, {lst([qlit(w) for w in ws_used])}, {qlit(tol)}, "
                              f"{lst([qlit(t) for t in times])}, {lst([qlit(v) for v in diff])}, {lst([qlit(v) for v in jumps])})")
        nontriv = sum(counts) >= 1 and (n_int >= 2 or len(times) > sum(counts) + 2)
        res.count(("proc", kind, mode, n_int, dt, eps, repr(counts), repr(offsets), repr(sizes)), nontrivial=nontriv, kind=f"{kind} {mode}")
        res.bump("intervals", n_int)
        res.bump("jumps_per_path", sum(counts))
        if eps is not None:
            res.bump("eps_vs_maturity", "eps >= T" if eps >= T else ("inserted points" if len(times) > sum(counts) + 2 else "no insertion"))
            res.bump("eps_vs_product_interval", "eps >= T" if eps >= T else ("interval <= eps < T" if eps >= dt and n_int > 1 else "eps < interval"))
        res.bump("diffusion_compare", "exact" if exact_sq else "tolerance 1e-12")
    return fixed_cases, jump_cases


# ----------------------------------------------------------------------------- coupled 1-d process
def coupled_cases(res, rng, tier):
    import numpy as np
    from stepmeasure import StepModel, make_grid
    from rpylib.process.coupling.couplingmarkovchain import CouplingMarkovChain
    from rpylib.distribution.sampling import SamplingMethod
    cfixed, cjump = [], []
    n_iter = 90 if tier == "quick" else 400
    for it in range(n_iter):
        mode = ["fixed", "jump", "cap"][it % 3]
        n_int = rng.choice([1, 2, 3])
        dt = rng.choice([0.25, 1.0, 4.0]) if mode == "fixed" else rng.choice([0.5, 1.0, 2.0])
        T = dt * n_int
        eps = rng.choice([T / 8, dt / 4, 3 * dt / 16, T, dt / 2]) if mode == "cap" else None
        if mode == "cap" and n_int >= 2 and rng.random() < 0.5:
            eps = rng.choice([dt, 1.5 * dt])        # product interval <= eps < maturity
        prod = make_product(n_int + 1, T, stochastic=(mode != "fixed"))
        counts, offsets = gen_script(rng, n_int, dt)
        ctx = {"kind": "coupled", "mode": mode, "intervals": n_int, "dt": dt, "T": T, "eps": eps, "counts": counts, "offsets": offsets}
        try:
            cp = CouplingMarkovChain(StepModel(the_measure(), a=0.25, sigma=0.5), SamplingMethod.BINARYSEARCHTREEADAPTED1D,
                                     make_grid(AXIS, 6, Fraction(1, 4)))
            with Patch(tags(rng, 64)):
                np.random.seed(rng.randrange(2 ** 31))
                cp.initialisation(prod, max_step_epsilon=eps)
                cp.next_level(mc_paths=1, path_managers=None, product=prod, max_step_epsilon=eps)
            grid, origin = cp.grid, cp.grid.origin_coordinate
            nax = len(grid.axes[0])
            raw = [[rng.choice([k for k in range(-4, 5) if k and 0 <= origin.value + k < nax]) for _ in range(n)] for n in counts]
            fsizes = [[float(grid[origin + k]) for k in r] for r in raw]
            csizes = [[rng.choice([-2, -1, 0, 1, 2]) / 4 for _ in r] for r in raw]     # scripted coupling_state values
            ctx.update(fine_sizes=fsizes, coarse_sizes=csizes)
            rq, cq = deque(raw), deque(v for r in csizes for v in r)
            cp.fine_process._path_simulation._sampling = lambda size, rq=rq: list(rq.popleft())
            cp._path_coupling_simulation.coupling_state = lambda inc, cq=cq: cq.popleft()
            script_process(cp.fine_process, counts, offsets)
            ws = tags(rng, 80)
            with Patch(ws) as pt:
                cp.pre_computation(1, prod)
                sp = cp.simulate_one_path_with_coupling()
                used = list(pt.used_normals)
        except Exception as e:  # noqa
            rp = dict(ctx, error=f"{type(e).__name__}: {e}")
            report(res, f"CouplingMarkovChain.simulate_one_path_with_coupling raises {type(e).__name__} ({mode}, {n_int} interval(s))", rp)
            continue
        times = [float(t) for t in sp.jump_times[:]]
        dif = np.asarray(sp.diffusion_path, dtype=float)
        jmp = np.asarray(sp.jump_path, dtype=float)
        if dif.shape != (2, len(times)) or jmp.shape != (2, len(times)):
            report(res, "coupled path: fine and coarse components are not aligned on the returned times", dict(ctx, times=times, shapes=[list(dif.shape), list(jmp.shape)]))
            continue
        sig_f, sig_c = float(cp.equivalent_diffusion_coefficient_fine), float(cp.equivalent_diffusion_coefficient_coarse)
        sq = [float(v) for v in np.sqrt(np.diff(times))]
        ws_used = used[:len(sq)]
        exact_sq = all(F(s) ** 2 == F(b) - F(a) for s, a, b in zip(sq, times, times[1:]))
        tol = Fraction(0) if exact_sq else TOL
        fl, co = [list(map(float, dif[0])), list(map(float, jmp[0]))], [list(map(float, dif[1])), list(map(float, jmp[1]))]
        for name, sizes, sig, (d_, j_) in (("fine", fsizes, sig_f, fl), ("coarse", csizes, sig_c, co)):
            ssw = [F(s) * F(sig) * F(w) for s, w in zip(sq, ws_used)]
            flat = [F(v) for r in sizes for v in r]
            if mode == "fixed":
                run, acc = [Fraction(0)], Fraction(0)
                for r in sizes:
                    acc += sum(F(v) for v in r)
                    run.append(acc)
                c2 = dict(ctx, component=name, finding_hint="fixed")
                check_path(res, f"CouplingMarkovChain {name} (fixed dates)", times, d_, j_, T, None, run, ssw, None, c2)
            else:
                tms = [k * dt for k in range(n_int)]
                jt = [tm + o for tm, offs in zip(tms, offsets) for o in offs]
                cum, acc = [], Fraction(0)
                for v in flat:
                    acc += v
                    cum.append(acc)
                run = [Fraction(0)] + refined_expectation(jt, cum, times[1:-1]) + [cum[-1] if cum else Fraction(0)]
                c2 = dict(ctx, component=name)
                check_path(res, f"CouplingMarkovChain {name} ({'jump times' if eps is None else 'jump times, max step'})", times, d_, j_, T, jt, run, ssw, eps, c2,
                           interval_sizes=sizes)
        ql = lambda xs: lst([qlit(v) for v in xs])    # noqa
        qll = lambda xss: lst([ql(xs) for xs in xss])  # noqa
        if mode == "fixed":
            cfixed.append(f"({ql(sq)}, {qlit(sig_f)}, {qlit(sig_c)}, {ql(ws_used)}, {qll(fsizes)}, {qll(csizes)}, {qlit(tol)}, "
                          f"{ql(fl[0])}, {ql(fl[1])}, {ql(co[0])}, {ql(co[1])})")
        else:
            cap = "None" if eps is None else f"(Some {qlit(eps)})"
            cjump.append(f"({cap}, {qlit(T)}, {ql([k * dt for k in range(n_int)])}, {qll(offsets)}, {qll(fsizes)}, {qll(csizes)}, "
                         f"{ql(sq)}, {qlit(sig_f)}, {qlit(sig_c)}, {ql(ws_used)}, {qlit(tol)}, {ql(times)}, {ql(fl[0])}, {ql(fl[1])}, {ql(co[0])}, {ql(co[1])})")
        res.count(("coupled", mode, n_int, dt, eps, repr(counts), repr(offsets), repr(fsizes), repr(csizes)),
                  nontrivial=sum(counts) >= 1, kind=f"coupled {mode}")
    return cfixed, cjump


# ----------------------------------------------------------------------------- build_finer_grid directly
def finer_grid_cases(res, rng, tier):
    import numpy as np
    from rpylib.process.levyprocess import SimulationMaximumStep
    from rpylib.process.coupling.helper import create_build_finer_grid_fun
    c1, c2, c3 = [], [], []
    for it in range(150 if tier == "quick" else 1500):
        n = rng.randrange(1, 8)
        style = rng.choice(["sorted", "sorted", "sorted", "zero-first", "unsorted"])
        if style == "unsorted":
            times = [dy(rng, 0, 4, 16) for _ in range(n)]
        else:
            pts = sorted(rng.sample(range(1, 65), n))
            times = [k / 16 for k in pts]
            if style == "zero-first":
                times[0] = 0.0
        T = max(times) + rng.choice([0.0, 0.25, 1.0])
        eps = rng.choice([1 / 16, 1 / 8, 3 / 16, 1 / 4, 1 / 2, 1.0, 5 / 16, T, 2 * T + 1])
        which = it % 3
        ctx = {"kind": "finer", "copy": ["levyprocess 1-d", "levyprocess d x n", "helper fine+coarse"][which], "times": times, "eps": eps, "maturity": T}
        try:
            if which == 0:
                vals = [dy(rng, -2, 2, 8) for _ in range(n)]
                fn = SimulationMaximumStep.create_build_finer_grid_fun(epsilon=eps, maturity=T)
                t2, v2 = fn(None, np.array(times), np.array(vals))
                outs = [[float(v) for v in v2]]
                ins = [vals]
            elif which == 1:
                d = rng.choice([2, 3])
                vals = [[dy(rng, -2, 2, 8) for _ in range(n)] for _ in range(d)]
                fn = SimulationMaximumStep.create_build_finer_grid_fun(epsilon=eps, maturity=T)
                t2, v2 = fn(None, np.array(times), np.array(vals))
                outs = [[float(v) for v in row] for row in np.asarray(v2)]
                ins = vals
            else:
                fine, coarse = [dy(rng, -2, 2, 8) for _ in range(n)], [dy(rng, -2, 2, 8) for _ in range(n)]
                fn = create_build_finer_grid_fun(epsilon=eps, maturity=T)
                t2, f2, c2_ = fn(None, np.array(times), np.array(fine), np.array(coarse))
                outs = [[float(v) for v in f2], [float(v) for v in c2_]]
                ins = [fine, coarse]
        except Exception as e:  # noqa
            report(res, f"build_finer_grid ({ctx['copy']}) raises {type(e).__name__}", dict(ctx, error=str(e)))
            continue
        t2 = [float(t) for t in t2]
        ctx.update(values=ins, got_times=t2, got_values=outs)
        inserted = len(t2) > n
        res.count(("finer", which, tuple(times), eps, T, repr(ins)), nontrivial=inserted, kind=f"build_finer_grid {ctx['copy']}")
        res.bump("finer_style", style)
        res.bump("finer_inserted_points", min(len(t2) - n, 20))
        # oracle: statement of the property on the returned arrays
        if any(len(o) != len(t2) for o in outs):
            report(res, "build_finer_grid: values and times are not aligned", ctx)
        elif eps < T and style != "unsorted":
            gaps = [b - a for a, b in zip([0.0] + t2, t2)]
            if max(gaps) > eps:
                report(res, "build_finer_grid: a gap of the result exceeds epsilon", ctx)
            k, prev = 0, [0.0] * len(outs)
            for i, t in enumerate(t2):
                cur = [o[i] for o in outs]
                if k < n and t == times[k] and cur == [row[k] for row in ins] and not (i + 1 < len(t2) and t2[i + 1] == t):
                    k += 1
                elif k < n and t == times[k] and cur == [row[k] for row in ins]:
                    k += 1
                elif cur != prev:
                    report(res, "build_finer_grid: an inserted point does not repeat the value of the preceding point", dict(ctx, index=i))
                    break
                prev = cur
            else:
                if k != n:
                    report(res, "build_finer_grid: an original (time, value) point is missing from the result", ctx)
        ql = lambda xs: lst([qlit(v) for v in xs])    # noqa
        if which == 0:
            c1.append(f"({qlit(eps)}, {qlit(T)}, {ql(times)}, {ql(ins[0])}, {ql(t2)}, {ql(outs[0])})")
        elif which == 1:
            cols_in = [[row[i] for row in ins] for i in range(n)]
            cols_out = [[row[i] for row in outs] for i in range(len(t2))]
            c2.append(f"({len(ins)}%nat, {qlit(eps)}, {qlit(T)}, {ql(times)}, {lst([ql(c) for c in cols_in])}, {ql(t2)}, {lst([ql(c) for c in cols_out])})")
        else:
            c3.append(f"({qlit(eps)}, {qlit(T)}, {ql(times)}, {ql(ins[0])}, {ql(ins[1])}, {ql(t2)}, {ql(outs[0])}, {ql(outs[1])})")
    return c1, c2, c3


def finer_grid_nondyadic(res, rng, tier):
    """build_finer_grid (both copies) on NON-dyadic float inputs (in production eps = h ** beta is never dyadic): implementation-only
    oracle.  Exact checks: arrays aligned, times strictly increasing, every original time still present, inserted points repeat the
    preceding value; the step bound is checked with the explicit float tolerance  gap <= eps + 1e-12."""
    import numpy as np
    from rpylib.process.levyprocess import SimulationMaximumStep
    from rpylib.process.coupling.helper import create_build_finer_grid_fun
    for it in range(300 if tier == "quick" else 5000):
        n = rng.randrange(1, 7)
        eps = rng.choice([0.3, 0.1, 0.7, rng.uniform(0.05, 1.0), 0.25 ** 1.5, 0.125 ** 0.7])
        if it % 3 == 0:      # gaps that are (nearly) integer multiples of eps: where the float remainder misbehaves
            ks = sorted(rng.sample(range(1, 40), n))
            times = [k * eps for k in ks]
        else:
            times = sorted(rng.uniform(0.01, 6.0) for _ in range(n))
        if it == 0:
            eps, times = 0.3, [0.9, 5.1]          # the recorded witness
        T = times[-1] + 1.0
        vals = [float(k + 1) for k in range(len(times))]
        helper = it % 2 == 1
        ctx = {"kind": "finer-nondyadic", "copy": "helper fine+coarse" if helper else "levyprocess 1-d", "times": times, "eps": eps, "maturity": T}
        try:
            if helper:
                t2, v2, c2 = create_build_finer_grid_fun(eps, T)(None, np.array(times), np.array(vals), -np.array(vals))
                aligned = len(t2) == len(v2) == len(c2) and all(a == -b for a, b in zip(v2, c2))
            else:
                t2, v2 = SimulationMaximumStep.create_build_finer_grid_fun(eps, T)(None, np.array(times), np.array(vals))
                aligned = len(t2) == len(v2)
        except Exception as e:  # noqa
            report(res, f"build_finer_grid raises {type(e).__name__} on non-dyadic input", dict(ctx, error=str(e)))
            continue
        t2, v2 = [float(t) for t in t2], [float(v) for v in v2]
        ctx["got_times"] = t2
        res.count(("finer-nd", helper, tuple(times), eps), nontrivial=len(t2) > len(times), kind=f"build_finer_grid non-dyadic ({ctx['copy']})")
        if not aligned:
            report(res, "build_finer_grid (non-dyadic): values and times are not aligned", ctx)
            continue
        gaps = [b - a for a, b in zip([0.0] + t2, t2)]
        if max(gaps) > eps + 1e-12:
            report(res, "build_finer_grid (non-dyadic): a gap of the result exceeds epsilon by more than the float tolerance 1e-12", dict(ctx, max_gap=max(gaps)))
        lost = [t for t in times if t not in t2]
        dev = max((min(abs(t - u) for u in t2) for t in lost), default=0.0)
        dup = any(b <= a for a, b in zip(t2, t2[1:]))
        res.bump("nondyadic_outcome", "duplicate time" if dup else ("original time lost" if lost else "clean"))
        if dup or lost:
            what = "duplicate time" if dup else "original time lost"
            rp = dict(ctx, **{"class": what, "max_excess": max(dev, max(0.0, max(gaps) - eps)), "lost_original_times": lost})
            if dev <= 1e-12 and (not dup or min(b - a for a, b in zip(t2, t2[1:])) > -1e-12):
                rp["finding"] = "F-C15-5"       # float rounding of the remainders: recorded class
            report(res, f"build_finer_grid (non-dyadic): {what}", rp)
        # inserted points repeat the value of the point before them (exact: values are copied, never computed)
        prev, k = 0.0, 0
        for i, (t, v) in enumerate(zip(t2, v2)):
            if k < len(vals) and v == vals[k] and v != prev:
                k += 1
            elif v != prev:
                report(res, "build_finer_grid (non-dyadic): an inserted point does not repeat the value of the preceding point", dict(ctx, index=i))
                break
            prev = v
        else:
            if k != len(vals):
                report(res, "build_finer_grid (non-dyadic): an original value is missing from the result", ctx)


def precomputation_sequence_oracle(res, rng, tier):
    """ONE max-step simulator object, initialised once, then pre_computation + simulate for products of DIFFERENT maturities in a row
    (short then long, long then short; the engines call pre_computation for every pass): every returned path must end at the maturity
    of the product it was pre-computed for and obey the cap for that maturity (the refinement closure depends on the maturity).
    Direct, Markov-chain, coupled, copula and coupled-copula max-step simulators; implementation-only oracle."""
    import numpy as np
    from stepmeasure import StepModel, make_grid, step_spec, build_copula_model
    from rpylib.process.coupling.couplingmarkovchain import CouplingMarkovChain
    from rpylib.process.coupling.couplinglevycopula import CouplingProcessLevyCopula
    from rpylib.process.markovchain.markovchainlevycopula import MarkovChainLevyCopula
    from rpylib.distribution.sampling import SamplingMethod
    kinds = ["levy", "chain", "coupled", "copula", "coupled-copula"]
    for it in range(20 if tier == "quick" else 150):
        kind = kinds[it % len(kinds)]
        eps = rng.choice([0.5, 0.25, 1.0])
        short, long_ = eps * rng.choice([0.5, 1.0]), eps * rng.choice([2.0, 4.0, 3.0])
        maturities = [short, long_, short] if (it // len(kinds)) % 2 == 0 else [long_, short, long_]
        ctx = {"kind": "precomputation-sequence", "simulator": kind, "eps": eps, "maturities": maturities}
        try:
            first = make_product(2, maturities[0], stochastic=True)
            coupled = kind.startswith("coupled")
            if kind == "levy" or kind == "chain":
                proc, model = build_process(kind, rng)
                proc.initialisation(first, max_step_epsilon=eps)
                fine = proc
            elif kind == "coupled":
                proc = CouplingMarkovChain(StepModel(the_measure(), a=0.25, sigma=0.5), SamplingMethod.BINARYSEARCHTREEADAPTED1D, make_grid(AXIS, 6, Fraction(1, 4)))
            else:
                spec = step_spec(the_measure(), a=0.25, sigma=0.5)
                cop = build_copula_model([spec, spec], "independent")
                grid = make_grid(AXIS, 6, Fraction(1, 4), dimension=2)
                proc = (MarkovChainLevyCopula(cop, grid, SamplingMethod.BINARYSEARCHTREEADAPTED) if kind == "copula"
                        else CouplingProcessLevyCopula(cop, grid, SamplingMethod.BINARYSEARCHTREEADAPTED))
                if kind == "copula":
                    proc.initialisation(first, max_step_epsilon=eps)
                    fine = proc
            if coupled:
                with Patch(tags(rng, 400)):
                    np.random.seed(rng.randrange(2 ** 31))
                    proc.initialisation(first, max_step_epsilon=eps)
                    proc.next_level(mc_paths=1, path_managers=None, product=first, max_step_epsilon=eps)
                fine = proc.fine_process
            outcomes = []
            for T in maturities:
                prod = make_product(2, T, stochastic=True)
                with_jump = rng.random() < 0.4
                counts, offsets = ([1], [[T / 4]]) if with_jump else ([0], [[]])
                script_process(fine, counts, offsets)
                if kind == "levy":
                    model.script = deque([0.25] * counts[0])
                elif kind == "chain":
                    fine._path_simulation._sampling = lambda size, c=counts[0]: [1] * c
                elif kind == "coupled":
                    fine._path_simulation._sampling = lambda size, c=counts[0]: [1] * c
                    proc._path_coupling_simulation.coupling_state = lambda inc: 0.25
                else:
                    fine.sampling.sample = lambda size, c=counts[0]: [np.array((1, 1))] * c
                    if kind == "coupled-copula":
                        setattr(proc._path_coupling_simulation, "_CouplingLevyCopulaSimulation__coupling_state",
                                lambda inc, axis_coordinates=None: np.array([0.25, 0.25]))
                with Patch(tags(rng, 400)):
                    proc.pre_computation(1, prod)
                    sp = proc.simulate_one_path_with_coupling() if coupled else proc.simulate_one_path()
                times = [float(t) for t in sp.jump_times[:]]
                steps = [b - a for a, b in zip(times, times[1:])]
                outcomes.append({"maturity": T, "jumps": counts[0], "times": times})
                res.count(("precomp-seq", kind, eps, tuple(maturities), len(outcomes), with_jump), nontrivial=len(outcomes) > 1, kind=f"pre_computation sequence ({kind})")
                if times[0] != 0.0 or times[-1] != T:
                    report(res, "after a new pre_computation the path does not run from 0 to the maturity of that product", dict(ctx, runs=outcomes))
                    break
                if eps < T and max(steps) > eps:
                    report(res, "after pre_computation with a longer product (same simulator object, no new initialisation) the path is not refined: "
                                "a step exceeds max_step_epsilon", dict(ctx, runs=outcomes, step=max(steps)))
                    break
        except Exception as e:  # noqa
            report(res, f"pre_computation / simulate sequence raises {type(e).__name__} ({kind})", dict(ctx, error=f"{type(e).__name__}: {e}"))


def real_times_oracle(res, rng, tier):
    """the library's own time machinery, unscripted: product dates from Asian(MONTHLY) (a real TimeGrid, 13 non-dyadic dates) and jump
    times from the real jump_times_from_nb_of_jumps (numpy generator seeded from the run's seed; recorded on their way in); jump counts
    and sizes stay scripted so that the running sums are exact.  Implementation-only oracle (float tolerance 1e-12 on the step bound)."""
    import numpy as np
    from rpylib.product.product import Product
    from rpylib.product.payoff import Forward, Payoff, PayoffDates
    from rpylib.product.underlying import Asian, Discretisation
    for it in range(24 if tier == "quick" else 200):
        kind = "levy" if it % 2 == 0 else "chain"
        mode = ["fixed", "jump", "cap"][it % 3]
        T = 1.0
        prod = Product(Asian(Discretisation.MONTHLY), Payoff(PayoffDates.STOCHASTIC) if mode != "fixed" else Forward(1.0), maturity=T)
        dates = [float(t) for t in prod.times_grid()[:]]
        n_int = len(dates) - 1
        eps = rng.choice([0.2, 0.05, 0.3 ** 1.5, 1.0 / 12]) if mode == "cap" else None
        counts = [rng.choice([0, 0, 0, 1, 2]) for _ in range(n_int)]
        proc, model = build_process(kind, rng)
        ctx = {"kind": "real-times", "process": kind, "mode": mode, "dates": dates, "eps": eps, "counts": counts}
        try:
            proc.initialisation(prod, max_step_epsilon=eps) if eps is not None else proc.initialisation(prod)
            grid = getattr(proc, "grid", None)
            raw, sizes = draw_jumps(kind, rng, counts, grid, grid.origin_coordinate if grid is not None else None)
            if kind == "levy":
                model.script = deque(v for r in raw for v in r)
            else:
                rq = deque(raw)
                proc._path_simulation._sampling = lambda size, rq=rq: list(rq.popleft())
            cq, rec = deque(counts), []
            proc.nb_jump_dt = lambda dt, cq=cq: cq.popleft()
            real = type(proc).jump_times_from_nb_of_jumps

            def recording(dt, n, real=real, rec=rec):
                out = real(dt, n)
                rec.append([float(x) for x in out])
                return out
            proc.jump_times_from_nb_of_jumps = recording
            np.random.seed(rng.randrange(2 ** 31))
            proc.pre_computation(1, prod)
            sp = proc.simulate_one_path()
        except Exception as e:  # noqa
            report(res, f"{type(proc).__name__}.simulate_one_path raises {type(e).__name__} (real time grid, {mode})", dict(ctx, error=f"{type(e).__name__}: {e}"))
            continue
        times = [float(t) for t in sp.jump_times[:]]
        jumps = [float(v) for v in np.asarray(sp.jump_path, dtype=float).flatten()]
        res.count(("real-times", kind, mode, repr(counts), repr(rec)), nontrivial=sum(counts) >= 1, kind=f"real TimeGrid / jump times ({kind} {mode})")
        bad = None
        if times[0] != 0.0 or jumps[0] != 0.0 or times[-1] != T or len(times) != len(jumps):
            bad = "path does not start at (0,0) / end at the maturity / components not aligned"
        elif any(b <= a for a, b in zip(times, times[1:])) and not (eps is not None):
            bad = "times are not strictly increasing"
        if mode == "fixed":
            run, acc = [Fraction(0)], Fraction(0)
            for r in sizes:
                acc += sum((F(v) for v in r), Fraction(0))
                run.append(acc)
            if times != dates or [F(v) for v in jumps] != run:
                bad = "fixed dates: the path is not on the product dates with the running sums of the interval totals"
        else:
            jt = [float(np.float64(dates[k]) + np.float64(o)) for k, offs in enumerate(rec) for o in offs]
            cum, acc = [], Fraction(0)
            for v in (F(v) for r in sizes for v in r):
                acc += v
                cum.append(acc)
            if any(min(abs(t - u) for u in times) > 1e-12 for t in jt):
                bad = "a jump time drawn by jump_times_from_nb_of_jumps is missing from the returned path"
            else:
                want = [Fraction(0)] + refined_expectation([t - 1e-12 for t in jt], cum, times[1:-1]) + [cum[-1] if cum else Fraction(0)]
                if [F(v) for v in jumps] != want:
                    bad = "the jump part is not the running sum of the increments at the recorded jump times"
            if eps is not None and eps < T and max(b - a for a, b in zip(times, times[1:])) > eps + 1e-12:
                bad = "a step of the returned path exceeds max_step_epsilon (float tolerance 1e-12)"
        if bad:
            report(res, f"{type(proc).__name__} on the library's own time grid: {bad}", dict(ctx, times=times, jumps=jumps, recorded_offsets=rec))


def copula_cases(res, rng, tier):
    """MarkovChainLevyCopula (2-d, independent copula of two step models) through simulate_one_path: one product
    or several product intervals; every component is compared with the 1-d chain model"""
    import numpy as np
    from stepmeasure import make_grid, step_spec, build_copula_model
    from rpylib.process.markovchain.markovchainlevycopula import MarkovChainLevyCopula
    from rpylib.distribution.sampling import SamplingMethod
    fixed_cases, jump_cases = [], []
    d = 2
    for it in range(60 if tier == "quick" else 300):
        mode = ["jump", "cap", "fixed"][it % 3]
        n_int = rng.choice([1, 1, 2, 3, 4])
        dt = rng.choice([0.25, 1.0, 4.0]) if mode == "fixed" else rng.choice([0.5, 1.0, 2.0])
        T = dt * n_int
        eps = rng.choice([T / 8, dt / 4, 3 * dt / 16, T, dt / 2, dt]) if mode == "cap" else None
        counts, offsets = gen_script(rng, n_int, dt)
        ctx = {"kind": "copula", "mode": mode, "intervals": n_int, "dt": dt, "T": T, "eps": eps, "counts": counts, "offsets": offsets}
        try:
            spec = step_spec(the_measure(), a=0.25, sigma=0.5)
            proc = MarkovChainLevyCopula(build_copula_model([spec, spec], "independent"), make_grid(AXIS, 6, Fraction(1, 4), dimension=d),
                                         SamplingMethod.BINARYSEARCHTREEADAPTED)
            prod = make_product(n_int + 1, T, stochastic=(mode != "fixed"))
            proc.initialisation(prod, max_step_epsilon=eps) if eps is not None else proc.initialisation(prod)
            raw = [[tuple(rng.choice([-3, -2, -1, 0, 1, 2, 3]) for _ in range(d)) for _ in range(n)] for n in counts]
            sizes = [[[float(AXIS[6 + inc[k]]) for inc in r] for r in raw] for k in range(d)]     # per component, per interval
            ctx["state_increments"] = raw
            rq = deque(raw)
            proc.sampling.sample = lambda size, rq=rq: [np.array(x) for x in rq.popleft()]
            script_process(proc, counts, offsets)
            ws = tags(rng, 400)
            with Patch(ws) as pt:
                proc.pre_computation(1, prod)
                sp = proc.simulate_one_path()
                used = list(pt.used_normals)
        except Exception as e:  # noqa
            rp = dict(ctx, error=f"{type(e).__name__}: {e}")
            report(res, f"MarkovChainLevyCopula.simulate_one_path raises {type(e).__name__} ({mode}, {n_int} interval(s))", rp)
            continue
        times = [float(t) for t in sp.jump_times[:]]
        dif, jmp = np.asarray(sp.diffusion_path, dtype=float), np.asarray(sp.jump_path, dtype=float)
        if dif.shape != (d, len(times)) or jmp.shape != (d, len(times)):
            report(res, "copula path: components are not aligned on the returned times", dict(ctx, times=times, shapes=[list(dif.shape), list(jmp.shape)]))
            continue
        sq = [float(v) for v in np.sqrt(np.diff(times))]
        n = len(sq)
        dm = np.asarray(proc._path_simulation.diffusion_matrix, dtype=float)
        exact_sq = all(F(s) ** 2 == F(b) - F(a) for s, a, b in zip(sq, times, times[1:]))
        tol = Fraction(0) if exact_sq else TOL
        res.count(("copula", mode, n_int, dt, eps, repr(counts), repr(offsets), repr(raw)), nontrivial=sum(counts) >= 1, kind=f"copula {mode}")
        for k in range(d):
            sigma = float(dm[k, k])
            ws_k = used[k * n:(k + 1) * n] if mode != "fixed" else used[k * n:(k + 1) * n]
            ssw = [F(s) * F(sigma) * F(w) for s, w in zip(sq, ws_k)]
            flat = [F(v) for r in sizes[k] for v in r]
            d_, j_ = [float(v) for v in dif[k]], [float(v) for v in jmp[k]]
            c2 = dict(ctx, component=k)
            ql = lambda xs: lst([qlit(v) for v in xs])    # noqa
            if abs(dm[k, 1 - k]) > 0:
                continue
            if mode == "fixed":
                run, acc = [Fraction(0)], Fraction(0)
                for r in sizes[k]:
                    acc += sum((F(v) for v in r), Fraction(0))
                    run.append(acc)
                c2["finding_hint"] = "fixed"
                check_path(res, "MarkovChainLevyCopula (fixed dates)", times, d_, j_, T, None, run, ssw, None, c2)
                fixed_cases.append(f"(true, {ql(sq)}, {qlit(sigma)}, {ql(ws_k)}, {lst([ql(r) for r in sizes[k]])}, {qlit(tol)}, {ql(d_)}, {ql(j_)})")
            else:
                jt = [kk * dt + o for kk, offs in enumerate(offsets) for o in offs]
                cum, acc = [], Fraction(0)
                for v in flat:
                    acc += v
                    cum.append(acc)
                run = [Fraction(0)] + refined_expectation(jt, cum, times[1:-1]) + [cum[-1] if cum else Fraction(0)]
                check_path(res, f"MarkovChainLevyCopula ({'jump times' if eps is None else 'jump times, max step'})", times, d_, j_, T, jt, run, ssw, eps, c2)
                cap = "None" if eps is None else f"(Some {qlit(eps)})"
                jump_cases.append(f"(true, {cap}, {qlit(T)}, {ql([kk * dt for kk in range(n_int)])}, {lst([ql(offs) for offs in offsets])}, {lst([ql(r) for r in sizes[k]])}, "
                                  f"{ql(sq)}, {qlit(sigma)}, {ql(ws_k)}, {qlit(tol)}, {ql(times)}, {ql(d_)}, {ql(j_)})")
    return fixed_cases, jump_cases


def coupled_copula_cases(res, rng, tier):
    """CouplingProcessLevyCopula (2-d, level 1) through simulate_one_path_with_coupling: fixed dates, jump times and jump times with
    max_step_epsilon, 1-3 product dates, ragged jump counts; scripted: jump counts, offsets, the fine chain's state increments, the
    coupling states (private __coupling_state), normals.  Every component of the fine and of the coarse path is compared with the
    1-d coupled model (cfixed_check / cjump_check) and with the running-sum / cap oracle."""
    import numpy as np
    from stepmeasure import make_grid, step_spec, build_copula_model
    from rpylib.process.coupling.couplinglevycopula import CouplingProcessLevyCopula
    from rpylib.distribution.sampling import SamplingMethod
    cfixed, cjump = [], []
    d = 2
    for it in range(45 if tier == "quick" else 300):
        mode = ["fixed", "jump", "cap"][it % 3]
        n_int = rng.choice([1, 3, 2, 3])
        dt = rng.choice([0.25, 1.0, 4.0]) if mode == "fixed" else rng.choice([0.5, 1.0, 2.0])
        T = dt * n_int
        eps = rng.choice([T / 8, dt / 4, 3 * dt / 16, T, dt / 2, dt]) if mode == "cap" else None
        counts, offsets = gen_script(rng, n_int, dt)
        ctx = {"kind": "coupled-copula", "mode": mode, "intervals": n_int, "dt": dt, "T": T, "eps": eps, "counts": counts, "offsets": offsets}
        try:
            spec = step_spec(the_measure(), a=0.25, sigma=0.5)
            cp = CouplingProcessLevyCopula(build_copula_model([spec, spec], "independent"), make_grid(AXIS, 6, Fraction(1, 4), dimension=d),
                                           SamplingMethod.BINARYSEARCHTREEADAPTED)
            prod = make_product(n_int + 1, T, stochastic=(mode != "fixed"))
            with Patch(tags(rng, 400)):
                np.random.seed(rng.randrange(2 ** 31))
                cp.initialisation(prod, max_step_epsilon=eps)
                cp.next_level(mc_paths=1, path_managers=None, product=prod, max_step_epsilon=eps)
            axis = [float(v) for v in cp.grid.axes[0]]
            org = cp.grid.origin_coordinate.value[0]
            raw = [[tuple(rng.choice([k for k in range(-4, 5) if 0 <= org + k < len(axis)]) for _ in range(d)) for _ in range(n)] for n in counts]
            craw = [[tuple(rng.choice([-2, -1, 0, 1, 2]) / 4 for _ in range(d)) for _ in r] for r in raw]      # scripted coupling states
            fsizes = [[[axis[org + inc[k]] for inc in r] for r in raw] for k in range(d)]
            csizes = [[[c[k] for c in r] for r in craw] for k in range(d)]
            ctx.update(fine_state_increments=raw, coarse_values=craw)
            rq, cq = deque(raw), deque(np.array(c, dtype=float) for r in craw for c in r)
            cp.fine_process.sampling.sample = lambda size, rq=rq: [np.array(x) for x in rq.popleft()]
            setattr(cp._path_coupling_simulation, "_CouplingLevyCopulaSimulation__coupling_state", lambda inc, axis_coordinates=None, cq=cq: cq.popleft())
            script_process(cp.fine_process, counts, offsets)
            with Patch(tags(rng, 600)) as pt:
                cp.pre_computation(1, prod)
                sp = cp.simulate_one_path_with_coupling()
                used = list(pt.used_normals)
        except Exception as e:  # noqa
            report(res, f"CouplingProcessLevyCopula.simulate_one_path_with_coupling raises {type(e).__name__} ({mode}, {n_int} interval(s))",
                   dict(ctx, error=f"{type(e).__name__}: {e}"))
            continue
        times = [float(t) for t in sp.jump_times[:]]
        dif, jmp = np.asarray(sp.diffusion_path, dtype=float), np.asarray(sp.jump_path, dtype=float)
        if dif.shape != (2, d, len(times)) or jmp.shape != (2, d, len(times)):
            report(res, "coupled copula path: fine / coarse components are not aligned on the returned times",
                   dict(ctx, times=times, shapes=[list(dif.shape), list(jmp.shape)]))
            continue
        sq = [float(v) for v in np.sqrt(np.diff(times))]
        n = len(sq)
        dm_f, dm_c = np.asarray(cp._diffusion_matrix_h, dtype=float), np.asarray(cp._diffusion_matrix_2h, dtype=float)
        exact_sq = all(F(s_) ** 2 == F(b) - F(a) for s_, a, b in zip(sq, times, times[1:]))
        tol = Fraction(0) if exact_sq else TOL
        res.count(("coupled-copula", mode, n_int, dt, eps, repr(counts), repr(offsets), repr(raw), repr(craw)), nontrivial=sum(counts) >= 1,
                  kind=f"coupled copula {mode}")
        res.bump("coupled_copula_intervals", n_int)
        ql = lambda xs: lst([qlit(v) for v in xs])    # noqa
        qll = lambda xss: lst([ql(xs) for xs in xss])  # noqa
        tms = [kk * dt for kk in range(n_int)]
        jt = [kk * dt + o for kk, offs in enumerate(offsets) for o in offs]
        for k in range(d):
            if abs(dm_f[k, 1 - k]) > 0 or abs(dm_c[k, 1 - k]) > 0:
                continue
            ws_k = used[k * n:(k + 1) * n]
            comp = {}
            for name, idx, sizes, sig in (("fine", 0, fsizes[k], float(dm_f[k, k])), ("coarse", 1, csizes[k], float(dm_c[k, k]))):
                d_, j_ = [float(v) for v in dif[idx, k]], [float(v) for v in jmp[idx, k]]
                comp[name] = (d_, j_, sig)
                ssw = [F(s_) * F(sig) * F(w) for s_, w in zip(sq, ws_k)]
                flat = [F(v) for r in sizes for v in r]
                c2 = dict(ctx, component=f"{name}[{k}]")
                if mode == "fixed":
                    run, acc = [Fraction(0)], Fraction(0)
                    for r in sizes:
                        acc += sum((F(v) for v in r), Fraction(0))
                        run.append(acc)
                    c2["finding_hint"] = "fixed"
                    check_path(res, f"CouplingProcessLevyCopula {name} (fixed dates)", times, d_, j_, T, None, run, ssw, None, c2)
                else:
                    cum, acc = [], Fraction(0)
                    for v in flat:
                        acc += v
                        cum.append(acc)
                    run = [Fraction(0)] + refined_expectation(jt, cum, times[1:-1]) + [cum[-1] if cum else Fraction(0)]
                    check_path(res, f"CouplingProcessLevyCopula {name} ({'jump times' if eps is None else 'jump times, max step'})",
                               times, d_, j_, T, jt, run, ssw, eps, c2)
            (fd_, fj_, sf), (cd_, cj_, sc) = comp["fine"], comp["coarse"]
            if mode == "fixed":
                cfixed.append(f"({ql(sq)}, {qlit(sf)}, {qlit(sc)}, {ql(ws_k)}, {qll(fsizes[k])}, {qll(csizes[k])}, {qlit(tol)}, "
                              f"{ql(fd_)}, {ql(fj_)}, {ql(cd_)}, {ql(cj_)})")
            else:
                cap = "None" if eps is None else f"(Some {qlit(eps)})"
                cjump.append(f"({cap}, {qlit(T)}, {ql(tms)}, {qll(offsets)}, {qll(fsizes[k])}, {qll(csizes[k])}, "
                             f"{ql(sq)}, {qlit(sf)}, {qlit(sc)}, {ql(ws_k)}, {qlit(tol)}, {ql(times)}, {ql(fd_)}, {ql(fj_)}, {ql(cd_)}, {ql(cj_)})")
    return cfixed, cjump


def copula_fixed_dates_replay(res):
    """MCLevyCopulaSimulationFixedTimes.project with several product dates (the former F-C15-2): one column per date, running totals"""
    import numpy as np
    from rpylib.process.markovchain.markovchainlevycopula import MCLevyCopulaSimulationFixedTimes
    vals = [np.array([[0.25, 0.5]]), np.array([]), np.array([[0.5, 0.25], [0.75, 0.25]])]     # three dates: 1, 0 and 2 jumps, d = 2
    res.count(("copula-project", 3), kind="copula fixed dates (project)")
    try:
        out = np.asarray(MCLevyCopulaSimulationFixedTimes.project(vals, 2), dtype=float)
        if out.shape != (2, 3) or out.tolist() != [[0.25, 0.25, 1.0], [0.5, 0.5, 0.75]]:
            report(res, "MCLevyCopulaSimulationFixedTimes.project: not the running totals per product date", {"kind": "copula-project", "got": out.tolist()})
    except Exception as e:  # noqa
        report(res, f"MCLevyCopulaSimulationFixedTimes.project raises {type(e).__name__} for more than one product date",
               {"kind": "copula-project", "error": f"{type(e).__name__}: {e}"})


HEADER = """From Coq Require Import ZArith QArith Qabs List Bool.
From RV Require Import Base.QB Base.Corr Model.Paths.
Import ListNotations.
Open Scope Q_scope.
Definition qeq (a b : list Q) : bool := qlist_eqb a b.
Definition fixed_check (c : bool * list Q * Q * list Q * list (list Q) * Q * list Q * list Q) : bool :=
  match c with (chain, sq, sigma, ws, ivs, tol, ed, ej) =>
    let p := fixed_path chain sq sigma ws ivs in qlist_tol_eqb tol (fst p) ed && qeq (snd p) ej end.
Definition jump_check (c : bool * option Q * Q * list Q * list (list Q) * list (list Q) * list Q * Q * list Q * Q * list Q * list Q * list Q) : bool :=
  match c with (chain, cap, T, tms, offs, incs, sq, sigma, ws, tol, et, ed, ej) =>
    let p := jump_path chain cap 200 T tms offs incs in
    qeq (fst p) et && qeq (snd p) ej && qlist_tol_eqb tol (diffusion_path sq sigma ws) ed end.
Definition cfixed_check (c : list Q * Q * Q * list Q * list (list Q) * list (list Q) * Q * list Q * list Q * list Q * list Q) : bool :=
  match c with (sq, sf, sc, ws, fi, ci, tol, fd, fj, cd, cj) =>
    qlist_tol_eqb tol (diffusion_path sq sf ws) fd && qlist_tol_eqb tol (diffusion_path sq sc ws) cd
    && qeq (mc_fixed_jump_path fi) fj && qeq (mc_fixed_jump_path ci) cj end.
Definition cjump_check (c : option Q * Q * list Q * list (list Q) * list (list Q) * list (list Q) * list Q * Q * Q * list Q * Q
                            * list Q * list Q * list Q * list Q * list Q) : bool :=
  match c with (cap, T, tms, offs, fi, ci, sq, sf, sc, ws, tol, et, fd, fj, cd, cj) =>
    let '(t, f, co) := coupled_jump_path cap 200 T tms offs fi ci in
    qeq t et && qeq f fj && qeq co cj
    && qlist_tol_eqb tol (diffusion_path sq sf ws) fd && qlist_tol_eqb tol (diffusion_path sq sc ws) cd end.
Definition finer1_check (c : Q * Q * list Q * list Q * list Q * list Q) : bool :=
  match c with (eps, T, times, vals, et, ev) =>
    let r := build_finer_grid 0 200 eps T times vals in qeq (fst r) et && qeq (snd r) ev end.
Definition finerd_check (c : nat * Q * Q * list Q * list (list Q) * list Q * list (list Q)) : bool :=
  match c with (d, eps, T, times, cols, et, ecols) =>
    let r := build_finer_grid (repeat 0 d) 200 eps T times cols in qeq (fst r) et && list_eqb qlist_eqb (snd r) ecols end.
Definition finerc_check (c : Q * Q * list Q * list Q * list Q * list Q * list Q * list Q) : bool :=
  match c with (eps, T, times, fine, coarse, et, ef, ec) =>
    let '(t, f, co) := coupled_finer_grid 200 eps T times fine coarse in qeq t et && qeq f ef && qeq co ec end.
"""


def correspond(res):
    import warnings
    warnings.simplefilter("ignore")
    rng = random.Random(res.seed)
    tier = res.tier
    f1, fd, fc = finer_grid_cases(res, rng, tier)
    finer_grid_nondyadic(res, rng, tier)
    fixed, jump = single_process_cases(res, rng, tier)
    cfixed, cjump = coupled_cases(res, rng, tier)
    kfixed, kjump = copula_cases(res, rng, tier)
    fixed, jump = fixed + kfixed, jump + kjump
    ccf, ccj = coupled_copula_cases(res, rng, tier)
    cfixed, cjump = cfixed + ccf, cjump + ccj
    copula_fixed_dates_replay(res)
    real_times_oracle(res, rng, tier)
    precomputation_sequence_oracle(res, rng, tier)
    groups = [
        ("finer1", "Q * Q * list Q * list Q * list Q * list Q", "finer1_check", f1),
        ("finerd", "nat * Q * Q * list Q * list (list Q) * list Q * list (list Q)", "finerd_check", fd),
        ("finerc", "Q * Q * list Q * list Q * list Q * list Q * list Q * list Q", "finerc_check", fc),
        ("fixed", "bool * list Q * Q * list Q * list (list Q) * Q * list Q * list Q", "fixed_check", fixed),
        ("jump", "bool * option Q * Q * list Q * list (list Q) * list (list Q) * list Q * Q * list Q * Q * list Q * list Q * list Q", "jump_check", jump),
        ("cfixed", "list Q * Q * Q * list Q * list (list Q) * list (list Q) * Q * list Q * list Q * list Q * list Q", "cfixed_check", cfixed),
        ("cjump", "option Q * Q * list Q * list (list Q) * list (list Q) * list (list Q) * list Q * Q * Q * list Q * Q * list Q * list Q * list Q * list Q * list Q",
         "cjump_check", cjump),
    ]
    res.case_lemmas += len(groups)
    empty = [g[0] for g in groups if not g[3]]
    if empty:
        res.broke("correspondence", "no cases could be produced for: " + ", ".join(empty))
    groups = [g for g in groups if g[3]]
    from concurrent.futures import ThreadPoolExecutor

    def work(g):
        return g, coq_bad_indices(PROP, f"cases_{g[0]}", HEADER, [g], timeout=600)[g[0]]

    with ThreadPoolExecutor(max_workers=7) as ex:
        for (g, ty, chk, cs), bad in ex.map(work, groups):
            if bad:
                res.broke(f"correspondence {g}", f"model and implementation differ on {len(bad)} of {len(cs)} case(s), first: {cs[bad[0]][:2500]}")
            else:
                res.case_ok += 1


def replay(path):
    data = json.load(open(path))
    print(json.dumps(data, indent=1)[:5000])
    kind = data.get("kind")
    if kind == "copula-project":
        class R:  # minimal Result stand-in
            def __init__(self): self.v = []
            def count(self, *a, **k): pass
            def violation(self, w, r): self.v.append(w)
        r = R()
        copula_fixed_dates_replay(r)
        print("violations:", r.v)
        return 1 if r.v else 0
    if kind == "finer":
        import numpy as np
        from rpylib.process.levyprocess import SimulationMaximumStep
        from rpylib.process.coupling.helper import create_build_finer_grid_fun
        eps, T = data["eps"], data["maturity"]
        if data["copy"].startswith("helper"):
            out = create_build_finer_grid_fun(eps, T)(None, np.array(data["times"]), np.array(data["values"][0]), np.array(data["values"][1]))
        else:
            vals = data["values"][0] if data["copy"].endswith("1-d") else data["values"]
            out = SimulationMaximumStep.create_build_finer_grid_fun(eps, T)(None, np.array(data["times"]), np.array(vals))
        print("build_finer_grid ->", [np.asarray(o).tolist() for o in out])
        gaps = np.diff(np.asarray(out[0]), prepend=0)
        return 1 if eps < T and gaps.max() > eps else 0
    print("replay: re-run ./check C15 to re-evaluate this class of input (the scripted process is rebuilt from the seed)")
    return 1


LEVEL_TEXT = ("Proof: 6 Coq theorems (closed under the global context) about list models of the path builders: with fixed product dates the "
              "jump part at each date is the sum of all increments of the intervals so far, each date-to-date increment uses that "
              "interval's variates only, the diffusion part is the running sum of the scaled normals (any number of dates/jumps); with "
              "jump times the times start at 0, end at the maturity and are strictly increasing, values are running sums - also for the "
              "Markov-chain simulators over any number of product dates - and the last value is repeated at maturity; build_finer_grid "
              "(both copies, any value type) terminates within max gap/eps passes, leaves every gap <= eps, keeps the original points in "
              "order, inserts only points repeating the preceding value, refines fine and coarse at the same positions; and the path the "
              "max-step simulators return has EVERY step <= eps, the step to the maturity and jump-free paths included. Tied to the source "
              "by driving real LevyProcess / MarkovChainProcess / MarkovChainLevyCopula / CouplingMarkovChain objects through simulate_one_path "
              "with scripted variates against the model (exact on dyadic scripts), 1-12 product dates. The model follows the tree with the "
              "fixes for F-C15-1/2/3/4. Partial: the coupled Levy-copula simulators are covered through build_finer_grid only; float rounding "
              "of build_finer_grid on non-dyadic inputs is the known finding F-C15-5.")
LEVEL_NOTE = ("Trusted: Coq kernel + vm_compute; floats as rationals (dyadic scripts exact; sqrt of the steps fed as data, diffusion within 1e-12 "
              "when a sqrt is inexact); numpy insert/cumsum/diff/flatnonzero modelled by list functions and pinned by the correspondence; the "
              "randomness sources are scripted at nb_jump_dt / jump_times_from_nb_of_jumps / the state sampler / np.random.normal / "
              "coupling_state. F-C15-5 (float rounding in build_finer_grid on non-dyadic inputs) is accepted only through matches_known.")
TECHNIQUE = "Coq proof (induction over interval/gap lists, an inductive refinement relation for build_finer_grid) on hand models + vm_compute correspondence through simulate_one_path with scripted variates"

"""C15 -- simulated paths are running sums on the product dates within the time-step cap:
correspondence (model vs implementation through process.simulate_one_path(), vm_compute) + implementation-only oracle."""
import json
import random
from collections import deque
from fractions import Fraction

from common import qlit, lst, blit, coq_bad_indices

PROP = "C15"
PROPERTY_FILE = "Properties/C15.v"
GEN_DEPS = []
RULE = ("cases: real LevyProcess / MarkovChainProcess / CouplingMarkovChain (level 1) objects over a dyadic step-measure model, "
        "driven through simulate_one_path() / simulate_one_path_with_coupling() with scripted jump counts (0-4 per interval), "
        "sorted dyadic jump-time offsets, dyadic jump sizes / sampled states, tagged dyadic normals and scripted coupling states; "
        "1-5 product dates, fixed dates / jump times / jump times with max_step_epsilon (eps below, equal to and above the "
        "maturity); build_finer_grid (both copies) directly on arbitrary dyadic arrays (1-d, d x n, fine+coarse; also unsorted "
        "and zero first time); d-dimensional (d = 2, 3) MarkovChainLevyCopula / CouplingProcessLevyCopula objects through simulate_one_path / "
        "simulate_one_path_with_coupling against Model/PathsNd.v (whole (d, n) and (2, d, n) arrays, matrix diffusion), 1-4 product intervals with "
        "non-ragged ([2,2], [3,3,3]), ragged and empty-interval jump counts, real jump_times_from_nb_of_jumps on scripted dyadic uniforms, real "
        "TimeGrid, real or scripted __coupling_state; non-trivial = path with >= 1 jump and >= 2 intervals or an inserted point")
MODELLED = ["SimulationFixedTimes / SimulationWithJumpTimes / SimulationMaximumStep and their Markov-chain and coupled (1-d) "
            "subclasses: assembly of the path from the consumed variates (hand model Model/Paths.v), tied by vm_compute "
            "correspondence through the public simulate_one_path entry points",
            "np.sqrt of the time steps is fed to the model as data; np.insert / np.flatnonzero / np.cumsum / np.diff modelled by "
            "list functions and pinned by the correspondence",
            "sources of randomness are scripted: nb_jump_dt, jump_times_from_nb_of_jumps, model.jump_increment / the chain's "
            "state sampler, np.random.normal, CouplingSimulation.coupling_state (C03 is about its law)",
            "MarkovChainLevyCopula (2-d) is driven through simulate_one_path and compared component by component with the 1-d chain model; "
            "CouplingProcessLevyCopula (2-d, level 1) likewise, fine and coarse component by component against the 1-d coupled model "
            "(its private __coupling_state is scripted)",
            "wave 5 - Model/PathsNd.v, d-dimensional hand model (columns of d-vectors) of markovchainlevycopula.py MCLevyCopulaSimulation"
            "{FixedTimes.project/simulate_one_path, WithJumpTimes.simulate_markov_chain/simulate_jumps/simulate_one_path, MaximumStep.simulate_jumps}, "
            "helper_simulate_levy_copula_markov_chain, helper_simulate_diffusion_part (diffusion_matrix @ normals; the matrix itself - scipy sqrtm in "
            "MCLevyCopulaSimulation.__init__ - enters as data) and of couplinglevycopula.py _coupling_states_for_a_slice, CouplingLevyCopulaSimulation"
            "{FixedTimes, WithJumpTimes, MaximumStep}.simulate_jumps_with_coupling / simulate_one_path_with_coupling / simulate_diffusion_with_coupling, "
            "chain_over_intervals on (n_k, d) arrays, refine_up_to_maturity with both build_finer_grid copies on d-vector values; "
            "LevyProcess.jump_times_from_nb_of_jumps (dt * uniforms, np.sort as insertion sort); tied by vm_compute correspondence for d = 2 and 3",
            "in the n-d correspondence the product's TimeGrid, the loop over product intervals and jump_times_from_nb_of_jumps run unpatched "
            "(np.random.random_sample is scripted only while that function runs); __coupling_state runs unpatched in half of the d = 2 coupled "
            "cases (its result is recorded and fed to the model: C03 is about its law), else it is scripted; nb_jump_dt, the state sampler and "
            "np.random.normal stay scripted",
            "sequences: ONE process object, one pre_computation for 3-6 paths, all returned paths kept and examined only after the whole sequence "
            "(direct, 1-d chain, coupled, copula and coupled copula d = 2, 3; fixed dates / jump times / max step): unchanged since returned, jump part "
            "= running sums of the path's OWN recorded increments, value arrays share no memory with each other or with the simulators' arrays "
            "(implementation-only oracle retained_paths_oracle)",
            "not modelled: the guard `if slice_fine_states:` (one coupling state per fine state, so it is the emptiness of the coarse slice too); "
            "__coupling_state itself, next_level, one_simulation_cost, MarkovChainLevyCopula drift / initialisation (C03, C11, C13)"]
ASSUMPTIONS = ["floats are modelled by exact rationals: times and jump paths compared exactly (dyadic scripts); the diffusion path "
               "exactly when every sqrt(dt) is an exact double, with absolute tolerance 1e-12 otherwise",
               "C15_jump_times assumes consecutive product intervals and offsets strictly increasing inside (0, dt) "
               "(np.sort of uniforms; ties have probability 0)",
               "C15_finer_grid assumes 0 < eps; the number of passes is bounded by max gap / eps",
               "the C15_nd_* theorems assume well-formed inputs: every increment / coupling state is a d-vector (wf2 d), k < d, and for the "
               "coupled path as many coarse as fine values (one coupling state per fine state)",
               "C15_real_jump_times assumes pairwise distinct uniforms in the OPEN interval (0, 1): np.random.random_sample can return 0 "
               "(probability 2^-53), which would put a jump on a product date"]
THEOREM_NOTES = {
    "C15_fixed_dates": "about the repaired tree (fix commit for F-C15-3: np.cumsum of the interval totals); on the unrepaired tree the oracle reports F-C15-3",
    "C15_jump_times": "Levy and (repaired, F-C15-4) Markov-chain jump-time simulators: running sums for any number of product intervals; times (ivs) and "
                      "values (incs) are separate arguments of the model as they are separate arrays in the code: the statements about times and about "
                      "values hold for each alone, and only the last conjunct (premise: as many increments as offsets per interval) ties them together",
    "C15_finer_grid_returns": "specification unfolding: conjuncts 1 and 3 hold by definition of finer_grid (they say which model function the returned arrays "
                              "are); the content is conjunct 2 (times = cumsum of the gaps gives the gaps back) and its use in C15_cap_whole_path",
    "C15_finer_grid_aligned": "a parametricity statement about the pair-valued model (one gap list, values inserted at the same positions by "
                              "construction); that the two numpy inserts of helper.py really use the same positions is pinned by the correspondence",
    "C15_finer_grid": "Refines = inserted points carry the value of the point before them and take their gap out of the following original point",
    "C15_nd_fixed_dates": "d-dimensional copula (project + hstack) and coupled copula (np.cumsum over all columns; fine and coarse are the same "
                          "function of the grid values resp. the coupling states) fixed-date simulators, every component, any d; follows the tree with "
                          "the repairs F-C15-2/6",
    "C15_nd_jump_values": "chain_over_intervals on (n_k, d) arrays: running sums per component over any number of product intervals (F-C15-4/7 repaired)",
    "C15_nd_coupled_path": "Leibniz equalities: the d-dimensional coupled path projects, component by component and for fine and coarse, onto the 1-d "
                           "model jump_path of Model/Paths.v on the SAME times (alignment), for every cap and fuel - the 1-d theorems carry over; the "
                           "premise length fine = length coarse holds because there is one coupling state per fine state",
    "C15_nd_copula_path": "the same projection for MarkovChainLevyCopula.simulate_one_path",
    "C15_nd_coupled_cap": "CouplingLevyCopulaSimulationMaximumStep (F-C15-8 repaired): every step <= eps incl. the step to the maturity; hypothesis "
                          "on the gaps of the jump times + maturity only; Q arithmetic (float rounding: F-C15-5)",
    "C15_nd_diffusion": "the diffusion matrix is an arbitrary d x d matrix (rows dm); each step uses its own column of normals",
    "C15_real_jump_times": "discharges the offsets hypothesis of valid_ivs (C15_jump_times) from the primitive variates of the real "
                           "jump_times_from_nb_of_jumps; np.sort modelled as insertion sort (pinned by the correspondence)",
    "C15_cap_whole_path": "about the repaired tree (F-C15-1: refine_up_to_maturity): every step <= eps incl. the last step and jump-free paths; "
                          "Q arithmetic (float rounding on non-dyadic inputs: F-C15-5)",
}

TOL = Fraction(1, 10 ** 12)

# one message per recorded finding (the replay carries the specific simulator / component / input)
CANON = {
    "F-C15-3": "fixed-date simulators: the jump part at a date is the jump total of the last interval, not the running sum",
    "F-C15-5": "build_finer_grid in float arithmetic on non-dyadic inputs: the remainders of gaps that are (nearly) multiples of epsilon are "
               "rounded, giving duplicate times and original jump times shifted by an ulp",
}


def matches_known(v, known):
    """a violation is accepted as a recorded finding only if it is exactly the recorded class"""
    r, kid = v["replay"], known["id"]
    fr = lambda x: Fraction(x) if not isinstance(x, str) else Fraction(x)   # noqa  (replays may carry "p/q" strings)
    try:
        if kid == "F-C15-5":
            # accepted only if the returned times are EXACTLY what the documented algorithm gives when run in double precision
            # (independent pure-Python replica) and every returned time is within 1e-12 of a time of the same algorithm run in exact
            # arithmetic on the same inputs: rounding of the remainders, not a different insertion logic
            if r.get("kind") != "finer-nondyadic" or r.get("class") not in ("duplicate time", "original time lost"):
                return False
            times, eps, got = [float(t) for t in r["times"]], float(r["eps"]), [float(t) for t in r["got_times"]]
            predicted = finer_grid_replica(times, eps, float)
            exact = finer_grid_replica(times, eps, Fraction)
            near = all(min(abs(Fraction(g) - e) for e in exact) <= Fraction(1, 10 ** 12) for g in got)
            return got == predicted and near and abs(len(got) - len(exact)) <= len(times)     # at most one point more or less per original gap
    except Exception:  # noqa
        return False
    return False


def finer_grid_replica(times, eps, num):
    """the loop of _build_finer_grid on a list, in the arithmetic `num` (float: double precision as numpy; Fraction: exact)"""
    ts = [num(t) for t in times]
    eps = num(eps)
    dts = [ts[0] - num(0)] + [b - a for a, b in zip(ts, ts[1:])]
    for _ in range(100000):
        if not any(d > eps for d in dts):
            break
        out = []
        for d in dts:
            if d > eps:
                out += [eps, d - eps]
            else:
                out.append(d)
        dts = out
    acc, res_ = num(0), []
    for d in dts:
        acc = acc + d
        res_.append(acc)
    return res_


def report(res, what, replay):
    fid = replay.get("finding")
    if fid in CANON:
        replay = dict(replay, detail=what)
        what = CANON[fid]
    res.violation(what, replay)


def F(x):
    return Fraction(float(x))


def dy(rng, lo, hi, den):
    return rng.randrange(int(lo * den), int(hi * den) + 1) / den


# ----------------------------------------------------------------------------- scripted objects
def harness_classes():
    import numpy as np
    from stepmeasure import StepModel
    from rpylib.product.underlying import Underlying
    from rpylib.grid.time import TimeGrid

    class DatesUnderlying(Underlying):
        """an underlying observed on `num` equally spaced dates (public subclassing interface)"""

        def __init__(self, num):
            self.num = num

        def value(self, times, path, jump_path, payoff_underlying=None):
            return path[..., -1]

        def compute_times_grid(self, maturity):
            return TimeGrid(0.0, maturity, self.num)

    class ScriptModel(StepModel):
        """jump sizes come from a script (the model's own sampler is the source of randomness)"""
        script = None

        def jump_increment(self, n):
            return np.array([self.script.popleft() for _ in range(int(n))], dtype=float)

    return DatesUnderlying, ScriptModel


def make_product(num_dates, maturity, stochastic):
    from rpylib.product.product import Product
    from rpylib.product.payoff import Forward, Payoff, PayoffDates
    DatesUnderlying, _ = harness_classes()
    pay = Payoff(PayoffDates.STOCHASTIC) if stochastic else Forward(0.0)
    return Product(DatesUnderlying(num_dates), pay, maturity=maturity)


def the_measure():
    from stepmeasure import StepMeasure
    Fr = Fraction
    return StepMeasure([Fr(-2), Fr(-1, 4), Fr(1, 4), Fr(2)], [Fr(3, 4), Fr(0), Fr(3, 2)], strict=False)


AXIS = [Fraction(k, 4) for k in range(-6, 7)]      # -1.5 .. 1.5, origin index 6


class Patch:
    """scripted randomness; restores np.random.normal on exit"""

    def __init__(self, normals):
        self.normals = deque(normals)
        self.used_normals = []

    def __enter__(self):
        import numpy as np
        self._orig = np.random.normal

        def normal(loc=0.0, scale=1.0, size=None):
            if size is None:
                v = self.normals.popleft()
                self.used_normals.append(v)
                return v
            n = int(np.prod(size))
            vals = [self.normals.popleft() for _ in range(n)]
            self.used_normals.extend(vals)
            return np.array(vals, dtype=float).reshape(size)
        np.random.normal = normal
        return self

    def __exit__(self, *a):
        import numpy as np
        np.random.normal = self._orig


def script_process(proc, counts, offsets):
    import numpy as np
    cq, oq = deque(counts), deque(offsets)
    proc.nb_jump_dt = lambda dt: cq.popleft()
    proc.jump_times_from_nb_of_jumps = lambda dt, n: np.array(oq.popleft(), dtype=float)


def gen_script(rng, n_int, dt, allow_empty=True):
    """per interval: count, strictly increasing dyadic offsets inside (0, dt), tagged increments"""
    counts, offsets = [], []
    for _ in range(n_int):
        n = rng.choice([0, 0, 1, 1, 2, 3, 4]) if allow_empty else rng.choice([1, 2, 3])
        grid = int(dt * 64)
        n = min(n, grid - 1)
        offs = sorted(rng.sample(range(1, grid), n))
        counts.append(n)
        offsets.append([k / 64 for k in offs])
    return counts, offsets


def tags(rng, n):
    """distinct dyadic normals"""
    pool = [k / 8 for k in range(-24, 25) if k]
    return [rng.choice(pool) for _ in range(n)]


# ----------------------------------------------------------------------------- oracle on one path (implementation only)
def check_path(res, what, times, diff, jumps, T, jump_times_expected, running_expected, sq_sigma_w, eps, ctx, fixed_dates=None, interval_sizes=None):
    """times/diff/jumps: lists of floats returned; running_expected: jump value expected at each returned time (exact)"""
    ok = True

    def bad(msg, **kw):
        nonlocal ok
        ok = False
        report(res, msg, dict(ctx, **kw))

    if times[0] != 0.0 or jumps[0] != 0.0 or diff[0] != 0.0:
        bad(f"{what}: path does not start at (0, 0)", times=times, jumps=jumps)
    if times[-1] != T:
        bad(f"{what}: path does not end at the maturity", times=times)
    if any(b <= a for a, b in zip(times, times[1:])):
        bad(f"{what}: times are not strictly increasing", times=times)
    if not (len(times) == len(diff) == len(jumps)):
        bad(f"{what}: times / diffusion / jump components have different lengths", lens=[len(times), len(diff), len(jumps)])
        return False
    if running_expected is not None and [F(v) for v in jumps] != running_expected:
        fid = {"fixed": "F-C15-3"}.get(ctx.get("finding_hint"))
        rp = dict(times=times, jumps=jumps, running_sum=running_expected)
        if fid:
            rp["finding"] = fid
        bad(f"{what}: the jump part is not the running sum of the jump increments up to each time", **rp)
    if sq_sigma_w is not None:
        acc, want = Fraction(0), [Fraction(0)]
        for x in sq_sigma_w:
            acc += x
            want.append(acc)
        if len(want) != len(diff) or any(abs(F(a) - b) > TOL for a, b in zip(diff, want)):
            bad(f"{what}: the diffusion part is not the running sum of the scaled Brownian increments", diffusion=diff, want=want)
    if eps is not None and eps < T:
        steps = [b - a for a, b in zip(times, times[1:])]
        if max(steps) > eps:        # EVERY step, the one to the maturity and the steps of a path without jumps included
            k = max(range(len(steps)), key=lambda i: steps[i])
            where = "path without jumps" if len(times) == 2 else ("step to the maturity" if k == len(steps) - 1 else "inner step")
            bad(f"{what}: a step of the returned path exceeds max_step_epsilon ({where})", times=times, eps=eps, step=steps[k], where=where)
    return ok


def refined_expectation(jt, vals, returned_times):
    """value expected at each returned inner time: the value of the last original jump time <= t (0 before the first)"""
    out, k, cur = [], 0, Fraction(0)
    for t in returned_times:
        while k < len(jt) and F(jt[k]) <= F(t):
            cur = vals[k]
            k += 1
        out.append(cur)
    return out


# ----------------------------------------------------------------------------- LevyProcess and MarkovChainProcess
def build_process(kind, rng):
    """-> (process, sigma used for the diffusion, function mapping scripted 'jump choices' to jump sizes)"""
    import numpy as np
    from stepmeasure import StepModel, make_grid
    from rpylib.process.levyprocess import LevyProcess
    from rpylib.process.markovchain.markovchain import MarkovChainProcess
    from rpylib.distribution.sampling import SamplingMethod
    _, ScriptModel = harness_classes()
    if kind == "levy":
        model = ScriptModel(the_measure(), a=0.25, sigma=0.5)
        return LevyProcess(model), model
    model = StepModel(the_measure(), a=0.25, sigma=0.5)
    proc = MarkovChainProcess(model, SamplingMethod.BINARYSEARCHTREEADAPTED1D, make_grid(AXIS, 6, Fraction(1, 4)))
    return proc, model


def draw_jumps(kind, rng, counts, grid=None, origin=None):
    """per interval: what the sampler returns (LevyProcess: sizes; chain: state increments) and the jump sizes"""
    raw, sizes = [], []
    for n in counts:
        if kind == "levy":
            r = [rng.choice([1, 2, 4, 8, 16, 32]) / 64 * rng.choice([1, 1, -1]) for _ in range(n)]
            raw.append(r)
            sizes.append(list(r))
        else:
            r = [rng.choice([-3, -2, -1, 1, 2, 3, 4]) for _ in range(n)]
            raw.append(r)
            sizes.append([float(grid[origin + k]) for k in r])
    return raw, sizes


def single_process_cases(res, rng, tier):
    import numpy as np
    fixed_cases, jump_cases = [], []
    n_iter = 110 if tier == "quick" else 800
    for it in range(n_iter):
        kind = "levy" if it % 2 == 0 else "chain"
        mode = ["fixed", "jump", "cap"][it % 3] if it % 7 else "cap"
        n_int = rng.choice([1, 1, 2, 3, 4]) if mode != "fixed" else rng.choice([1, 2, 3, 4])
        if mode == "cap":
            n_int = rng.choice([1, 2, 3, 4, 6, 8, 12])      # also MANY product dates
        dt = rng.choice([0.25, 1.0, 1.0, 4.0]) if mode == "fixed" else rng.choice([0.5, 1.0, 2.0])
        T = dt * n_int
        proc, model = build_process(kind, rng)
        prod = make_product(n_int + 1, T, stochastic=(mode != "fixed"))
        eps = None
        if mode == "cap":
            eps = rng.choice([T / 16, T / 8, dt / 4, 3 * dt / 16, T, 2 * T, dt / 2])
            if n_int >= 2 and rng.random() < 0.6:
                # product interval <= eps < maturity: the cap must still act on gaps between jumps of different intervals
                eps = rng.choice([e for e in (dt, 1.25 * dt, 1.5 * dt, 2 * dt, T / 2, 0.75 * T) if dt <= e < T])
        counts, offsets = gen_script(rng, n_int, dt)
        if mode == "cap" and n_int >= 3 and rng.random() < 0.6:
            keep = set(rng.sample(range(n_int), rng.choice([1, 2])))     # sparse jumps: long gaps across several product dates
            counts = [c if k in keep else 0 for k, c in enumerate(counts)]
            offsets = [o if k in keep else [] for k, o in enumerate(offsets)]
            for k in keep:
                if counts[k] == 0:
                    counts[k], offsets[k] = 1, [dt / 2]
        if it % 11 == 0:
            counts, offsets = [0] * n_int, [[] for _ in range(n_int)]
        ctx = {"kind": "process", "process": kind, "mode": mode, "intervals": n_int, "dt": dt, "T": T, "eps": eps, "counts": counts, "offsets": offsets}
        try:
            proc.initialisation(prod, max_step_epsilon=eps) if eps is not None else proc.initialisation(prod)
            grid = getattr(proc, "grid", None)
            origin = grid.origin_coordinate if grid is not None else None
            raw, sizes = draw_jumps(kind, rng, counts, grid, origin)
            ctx["jump_sizes"] = sizes
            if kind == "levy":
                model.script = deque(v for r in raw for v in r)
            else:
                rq = deque(raw)
                proc._path_simulation._sampling = lambda size, rq=rq: list(rq.popleft())
            script_process(proc, counts, offsets)
            n_normals = n_int if mode == "fixed" else sum(counts) + 2 + (0 if eps is None else int(T / min(eps, T)) + 4 * n_int + 8)
            ws = tags(rng, n_normals + 4)
            ctx["normals"] = ws
            with Patch(ws) as pt:
                proc.pre_computation(1, prod)
                sp = proc.simulate_one_path()
                used = list(pt.used_normals)
        except Exception as e:  # noqa
            report(res, f"{type(proc).__name__}.simulate_one_path raises {type(e).__name__} ({mode})", dict(ctx, error=str(e)))
            continue
        times = [float(t) for t in sp.jump_times[:]]
        diff = [float(v) for v in np.asarray(sp.diffusion_path, dtype=float).flatten()]
        jumps = [float(v) for v in np.asarray(sp.jump_path, dtype=float).flatten()]
        sigma = float(model.diffusion_coefficient()) if kind == "levy" else float(proc.equivalent_diffusion_coefficient)
        sq = [float(np.sqrt(b - a)) for a, b in zip(times, times[1:])] if mode != "fixed" else [float(v) for v in np.sqrt(np.diff(times))]
        ws_used = used[:len(sq)]
        exact_sq = all(F(s) ** 2 == F(b) - F(a) for s, a, b in zip(sq, times, times[1:]))
        tol = Fraction(0) if exact_sq else TOL
        ssw = [F(s) * F(sigma) * F(w) for s, w in zip(sq, ws_used)]
        flat = [F(v) for r in sizes for v in r]
        if mode == "fixed":
            run, acc = [Fraction(0)], Fraction(0)
            for r in sizes:
                acc += sum(F(v) for v in r)
                run.append(acc)
            ctx["finding_hint"] = "fixed"
            check_path(res, f"{type(proc).__name__} (fixed dates)", times, diff, jumps, T, None, run, ssw, None, ctx)
            fixed_cases.append(f"({blit(kind == 'chain')}, {lst([qlit(s) for s in sq])}, {qlit(sigma)}, {lst([qlit(w) for w in ws_used])}, "
                               f"{lst([lst([qlit(v) for v in r]) for r in sizes])}, {qlit(tol)}, {lst([qlit(v) for v in diff])}, {lst([qlit(v) for v in jumps])})")
        else:
            tms = [k * dt for k in range(n_int)]
            jt = [tm + o for tm, offs in zip(tms, offsets) for o in offs]
            cum, acc = [], Fraction(0)
            for v in flat:
                acc += v
                cum.append(acc)
            run = [Fraction(0)] + refined_expectation(jt, cum, times[1:-1]) + [cum[-1] if cum else Fraction(0)]
            check_path(res, f"{type(proc).__name__} ({'jump times' if eps is None else 'jump times, max step'})", times, diff, jumps, T, jt, run, ssw, eps, ctx,
                       interval_sizes=sizes)
            if eps is not None and eps < T and any(F(t) not in {F(x) for x in times} for t in jt):
                report(res, "max_step_epsilon: an original jump time is missing from the returned path", dict(ctx, times=times, jump_times=jt))
            cap = "None" if eps is None else f"(Some {qlit(eps)})"
            jump_cases.append(f"({blit(kind == 'chain')}, {cap}, {qlit(T)}, {lst([qlit(t) for t in tms])}, "
                              f"{lst([lst([qlit(o) for o in offs]) for offs in offsets])}, {lst([lst([qlit(v) for v in r]) for r in sizes])}, "
                              f"{lst([qlit(s) for s in sq])}, {qlit(sigma)}, {lst([qlit(w) for w in ws_used])}, {qlit(tol)}, "
                              f"{lst([qlit(t) for t in times])}, {lst([qlit(v) for v in diff])}, {lst([qlit(v) for v in jumps])})")
        nontriv = sum(counts) >= 1 and (n_int >= 2 or len(times) > sum(counts) + 2)
        res.count(("proc", kind, mode, n_int, dt, eps, repr(counts), repr(offsets), repr(sizes)), nontrivial=nontriv, kind=f"{kind} {mode}")
        res.bump("intervals", n_int)
        res.bump("jumps_per_path", sum(counts))
        if eps is not None:
            res.bump("eps_vs_maturity", "eps >= T" if eps >= T else ("inserted points" if len(times) > sum(counts) + 2 else "no insertion"))
            res.bump("eps_vs_product_interval", "eps >= T" if eps >= T else ("interval <= eps < T" if eps >= dt and n_int > 1 else "eps < interval"))
        res.bump("diffusion_compare", "exact" if exact_sq else "tolerance 1e-12")
    return fixed_cases, jump_cases


# ----------------------------------------------------------------------------- coupled 1-d process
def coupled_cases(res, rng, tier):
    import numpy as np
    from stepmeasure import StepModel, make_grid
    from rpylib.process.coupling.couplingmarkovchain import CouplingMarkovChain
    from rpylib.distribution.sampling import SamplingMethod
    cfixed, cjump = [], []
    n_iter = 90 if tier == "quick" else 400
    for it in range(n_iter):
        mode = ["fixed", "jump", "cap"][it % 3]
        n_int = rng.choice([1, 2, 3])
        dt = rng.choice([0.25, 1.0, 4.0]) if mode == "fixed" else rng.choice([0.5, 1.0, 2.0])
        T = dt * n_int
        eps = rng.choice([T / 8, dt / 4, 3 * dt / 16, T, dt / 2]) if mode == "cap" else None
        if mode == "cap" and n_int >= 2 and rng.random() < 0.5:
            eps = rng.choice([dt, 1.5 * dt])        # product interval <= eps < maturity
        prod = make_product(n_int + 1, T, stochastic=(mode != "fixed"))
        counts, offsets = gen_script(rng, n_int, dt)
        ctx = {"kind": "coupled", "mode": mode, "intervals": n_int, "dt": dt, "T": T, "eps": eps, "counts": counts, "offsets": offsets}
        try:
            cp = CouplingMarkovChain(StepModel(the_measure(), a=0.25, sigma=0.5), SamplingMethod.BINARYSEARCHTREEADAPTED1D,
                                     make_grid(AXIS, 6, Fraction(1, 4)))
            with Patch(tags(rng, 64)):
                np.random.seed(rng.randrange(2 ** 31))
                cp.initialisation(prod, max_step_epsilon=eps)
                cp.next_level(mc_paths=1, path_managers=None, product=prod, max_step_epsilon=eps)
            grid, origin = cp.grid, cp.grid.origin_coordinate
            nax = len(grid.axes[0])
            raw = [[rng.choice([k for k in range(-4, 5) if k and 0 <= origin.value + k < nax]) for _ in range(n)] for n in counts]
            fsizes = [[float(grid[origin + k]) for k in r] for r in raw]
            csizes = [[rng.choice([-2, -1, 0, 1, 2]) / 4 for _ in r] for r in raw]     # scripted coupling_state values
            ctx.update(fine_sizes=fsizes, coarse_sizes=csizes)
            rq, cq = deque(raw), deque(v for r in csizes for v in r)
            cp.fine_process._path_simulation._sampling = lambda size, rq=rq: list(rq.popleft())
            cp._path_coupling_simulation.coupling_state = lambda inc, cq=cq: cq.popleft()
            script_process(cp.fine_process, counts, offsets)
            ws = tags(rng, 80)
            with Patch(ws) as pt:
                cp.pre_computation(1, prod)
                sp = cp.simulate_one_path_with_coupling()
                used = list(pt.used_normals)
        except Exception as e:  # noqa
            rp = dict(ctx, error=f"{type(e).__name__}: {e}")
            report(res, f"CouplingMarkovChain.simulate_one_path_with_coupling raises {type(e).__name__} ({mode}, {n_int} interval(s))", rp)
            continue
        times = [float(t) for t in sp.jump_times[:]]
        dif = np.asarray(sp.diffusion_path, dtype=float)
        jmp = np.asarray(sp.jump_path, dtype=float)
        if dif.shape != (2, len(times)) or jmp.shape != (2, len(times)):
            report(res, "coupled path: fine and coarse components are not aligned on the returned times", dict(ctx, times=times, shapes=[list(dif.shape), list(jmp.shape)]))
            continue
        sig_f, sig_c = float(cp.equivalent_diffusion_coefficient_fine), float(cp.equivalent_diffusion_coefficient_coarse)
        sq = [float(v) for v in np.sqrt(np.diff(times))]
        ws_used = used[:len(sq)]
        exact_sq = all(F(s) ** 2 == F(b) - F(a) for s, a, b in zip(sq, times, times[1:]))
        tol = Fraction(0) if exact_sq else TOL
        fl, co = [list(map(float, dif[0])), list(map(float, jmp[0]))], [list(map(float, dif[1])), list(map(float, jmp[1]))]
        for name, sizes, sig, (d_, j_) in (("fine", fsizes, sig_f, fl), ("coarse", csizes, sig_c, co)):
            ssw = [F(s) * F(sig) * F(w) for s, w in zip(sq, ws_used)]
            flat = [F(v) for r in sizes for v in r]
            if mode == "fixed":
                run, acc = [Fraction(0)], Fraction(0)
                for r in sizes:
                    acc += sum(F(v) for v in r)
                    run.append(acc)
                c2 = dict(ctx, component=name, finding_hint="fixed")
                check_path(res, f"CouplingMarkovChain {name} (fixed dates)", times, d_, j_, T, None, run, ssw, None, c2)
            else:
                tms = [k * dt for k in range(n_int)]
                jt = [tm + o for tm, offs in zip(tms, offsets) for o in offs]
                cum, acc = [], Fraction(0)
                for v in flat:
                    acc += v
                    cum.append(acc)
                run = [Fraction(0)] + refined_expectation(jt, cum, times[1:-1]) + [cum[-1] if cum else Fraction(0)]
                c2 = dict(ctx, component=name)
                check_path(res, f"CouplingMarkovChain {name} ({'jump times' if eps is None else 'jump times, max step'})", times, d_, j_, T, jt, run, ssw, eps, c2,
                           interval_sizes=sizes)
        ql = lambda xs: lst([qlit(v) for v in xs])    # noqa
        qll = lambda xss: lst([ql(xs) for xs in xss])  # noqa
        if mode == "fixed":
            cfixed.append(f"({ql(sq)}, {qlit(sig_f)}, {qlit(sig_c)}, {ql(ws_used)}, {qll(fsizes)}, {qll(csizes)}, {qlit(tol)}, "
                          f"{ql(fl[0])}, {ql(fl[1])}, {ql(co[0])}, {ql(co[1])})")
        else:
            cap = "None" if eps is None else f"(Some {qlit(eps)})"
            cjump.append(f"({cap}, {qlit(T)}, {ql([k * dt for k in range(n_int)])}, {qll(offsets)}, {qll(fsizes)}, {qll(csizes)}, "
                         f"{ql(sq)}, {qlit(sig_f)}, {qlit(sig_c)}, {ql(ws_used)}, {qlit(tol)}, {ql(times)}, {ql(fl[0])}, {ql(fl[1])}, {ql(co[0])}, {ql(co[1])})")
        res.count(("coupled", mode, n_int, dt, eps, repr(counts), repr(offsets), repr(fsizes), repr(csizes)),
                  nontrivial=sum(counts) >= 1, kind=f"coupled {mode}")
    return cfixed, cjump


# ----------------------------------------------------------------------------- build_finer_grid directly
def finer_grid_cases(res, rng, tier):
    import numpy as np
    from rpylib.process.levyprocess import SimulationMaximumStep
    from rpylib.process.coupling.helper import create_build_finer_grid_fun
    c1, c2, c3 = [], [], []
    for it in range(150 if tier == "quick" else 1500):
        n = rng.randrange(1, 8)
        style = rng.choice(["sorted", "sorted", "sorted", "zero-first", "unsorted"])
        if style == "unsorted":
            times = [dy(rng, 0, 4, 16) for _ in range(n)]
        else:
            pts = sorted(rng.sample(range(1, 65), n))
            times = [k / 16 for k in pts]
            if style == "zero-first":
                times[0] = 0.0
        T = max(times) + rng.choice([0.0, 0.25, 1.0])
        eps = rng.choice([1 / 16, 1 / 8, 3 / 16, 1 / 4, 1 / 2, 1.0, 5 / 16, T, 2 * T + 1])
        which = it % 3
        ctx = {"kind": "finer", "copy": ["levyprocess 1-d", "levyprocess d x n", "helper fine+coarse"][which], "times": times, "eps": eps, "maturity": T}
        try:
            if which == 0:
                vals = [dy(rng, -2, 2, 8) for _ in range(n)]
                fn = SimulationMaximumStep.create_build_finer_grid_fun(epsilon=eps, maturity=T)
                t2, v2 = fn(None, np.array(times), np.array(vals))
                outs = [[float(v) for v in v2]]
                ins = [vals]
            elif which == 1:
                d = rng.choice([2, 3])
                vals = [[dy(rng, -2, 2, 8) for _ in range(n)] for _ in range(d)]
                fn = SimulationMaximumStep.create_build_finer_grid_fun(epsilon=eps, maturity=T)
                t2, v2 = fn(None, np.array(times), np.array(vals))
                outs = [[float(v) for v in row] for row in np.asarray(v2)]
                ins = vals
            else:
                fine, coarse = [dy(rng, -2, 2, 8) for _ in range(n)], [dy(rng, -2, 2, 8) for _ in range(n)]
                fn = create_build_finer_grid_fun(epsilon=eps, maturity=T)
                t2, f2, c2_ = fn(None, np.array(times), np.array(fine), np.array(coarse))
                outs = [[float(v) for v in f2], [float(v) for v in c2_]]
                ins = [fine, coarse]
        except Exception as e:  # noqa
            report(res, f"build_finer_grid ({ctx['copy']}) raises {type(e).__name__}", dict(ctx, error=str(e)))
            continue
        t2 = [float(t) for t in t2]
        ctx.update(values=ins, got_times=t2, got_values=outs)
        inserted = len(t2) > n
        res.count(("finer", which, tuple(times), eps, T, repr(ins)), nontrivial=inserted, kind=f"build_finer_grid {ctx['copy']}")
        res.bump("finer_style", style)
        res.bump("finer_inserted_points", min(len(t2) - n, 20))
        # oracle: statement of the property on the returned arrays
        if any(len(o) != len(t2) for o in outs):
            report(res, "build_finer_grid: values and times are not aligned", ctx)
        elif eps < T and style != "unsorted":
            gaps = [b - a for a, b in zip([0.0] + t2, t2)]
            if max(gaps) > eps:
                report(res, "build_finer_grid: a gap of the result exceeds epsilon", ctx)
            k, prev = 0, [0.0] * len(outs)
            for i, t in enumerate(t2):
                cur = [o[i] for o in outs]
                if k < n and t == times[k] and cur == [row[k] for row in ins] and not (i + 1 < len(t2) and t2[i + 1] == t):
                    k += 1
                elif k < n and t == times[k] and cur == [row[k] for row in ins]:
                    k += 1
                elif cur != prev:
                    report(res, "build_finer_grid: an inserted point does not repeat the value of the preceding point", dict(ctx, index=i))
                    break
                prev = cur
            else:
                if k != n:
                    report(res, "build_finer_grid: an original (time, value) point is missing from the result", ctx)
        ql = lambda xs: lst([qlit(v) for v in xs])    # noqa
        if which == 0:
            c1.append(f"({qlit(eps)}, {qlit(T)}, {ql(times)}, {ql(ins[0])}, {ql(t2)}, {ql(outs[0])})")
        elif which == 1:
            cols_in = [[row[i] for row in ins] for i in range(n)]
            cols_out = [[row[i] for row in outs] for i in range(len(t2))]
            c2.append(f"({len(ins)}%nat, {qlit(eps)}, {qlit(T)}, {ql(times)}, {lst([ql(c) for c in cols_in])}, {ql(t2)}, {lst([ql(c) for c in cols_out])})")
        else:
            c3.append(f"({qlit(eps)}, {qlit(T)}, {ql(times)}, {ql(ins[0])}, {ql(ins[1])}, {ql(t2)}, {ql(outs[0])}, {ql(outs[1])})")
    return c1, c2, c3


def finer_grid_nondyadic(res, rng, tier):
    """build_finer_grid (both copies) on NON-dyadic float inputs (in production eps = h ** beta is never dyadic): implementation-only
    oracle.  Exact checks: arrays aligned, times strictly increasing, every original time still present, inserted points repeat the
    preceding value; the step bound is checked with the explicit float tolerance  gap <= eps + 1e-12."""
    import numpy as np
    from rpylib.process.levyprocess import SimulationMaximumStep
    from rpylib.process.coupling.helper import create_build_finer_grid_fun
    for it in range(300 if tier == "quick" else 5000):
        n = rng.randrange(1, 7)
        eps = rng.choice([0.3, 0.1, 0.7, rng.uniform(0.05, 1.0), 0.25 ** 1.5, 0.125 ** 0.7])
        if it % 3 == 0:      # gaps that are (nearly) integer multiples of eps: where the float remainder misbehaves
            ks = sorted(rng.sample(range(1, 40), n))
            times = [k * eps for k in ks]
        else:
            times = sorted(rng.uniform(0.01, 6.0) for _ in range(n))
        if it == 0:
            eps, times = 0.3, [0.9, 5.1]          # the recorded witness
        T = times[-1] + 1.0
        vals = [float(k + 1) for k in range(len(times))]
        helper = it % 2 == 1
        ctx = {"kind": "finer-nondyadic", "copy": "helper fine+coarse" if helper else "levyprocess 1-d", "times": times, "eps": eps, "maturity": T}
        try:
            if helper:
                t2, v2, c2 = create_build_finer_grid_fun(eps, T)(None, np.array(times), np.array(vals), -np.array(vals))
                aligned = len(t2) == len(v2) == len(c2) and all(a == -b for a, b in zip(v2, c2))
            else:
                t2, v2 = SimulationMaximumStep.create_build_finer_grid_fun(eps, T)(None, np.array(times), np.array(vals))
                aligned = len(t2) == len(v2)
        except Exception as e:  # noqa
            report(res, f"build_finer_grid raises {type(e).__name__} on non-dyadic input", dict(ctx, error=str(e)))
            continue
        t2, v2 = [float(t) for t in t2], [float(v) for v in v2]
        ctx["got_times"] = t2
        res.count(("finer-nd", helper, tuple(times), eps), nontrivial=len(t2) > len(times), kind=f"build_finer_grid non-dyadic ({ctx['copy']})")
        if not aligned:
            report(res, "build_finer_grid (non-dyadic): values and times are not aligned", ctx)
            continue
        gaps = [b - a for a, b in zip([0.0] + t2, t2)]
        if max(gaps) > eps + 1e-12:
            report(res, "build_finer_grid (non-dyadic): a gap of the result exceeds epsilon by more than the float tolerance 1e-12", dict(ctx, max_gap=max(gaps)))
        lost = [t for t in times if t not in t2]
        dev = max((min(abs(t - u) for u in t2) for t in lost), default=0.0)
        dup = any(b <= a for a, b in zip(t2, t2[1:]))
        res.bump("nondyadic_outcome", "duplicate time" if dup else ("original time lost" if lost else "clean"))
        if dup or lost:
            what = "duplicate time" if dup else "original time lost"
            rp = dict(ctx, **{"class": what, "max_excess": max(dev, max(0.0, max(gaps) - eps)), "lost_original_times": lost})
            if dev <= 1e-12 and (not dup or min(b - a for a, b in zip(t2, t2[1:])) > -1e-12):
                rp["finding"] = "F-C15-5"       # float rounding of the remainders: recorded class
            report(res, f"build_finer_grid (non-dyadic): {what}", rp)
        # inserted points repeat the value of the point before them (exact: values are copied, never computed)
        prev, k = 0.0, 0
        for i, (t, v) in enumerate(zip(t2, v2)):
            if k < len(vals) and v == vals[k] and v != prev:
                k += 1
            elif v != prev:
                report(res, "build_finer_grid (non-dyadic): an inserted point does not repeat the value of the preceding point", dict(ctx, index=i))
                break
            prev = v
        else:
            if k != len(vals):
                report(res, "build_finer_grid (non-dyadic): an original value is missing from the result", ctx)


def precomputation_sequence_oracle(res, rng, tier):
    """ONE max-step simulator object, initialised once, then pre_computation + simulate for products of DIFFERENT maturities in a row
    (short then long, long then short; the engines call pre_computation for every pass): every returned path must end at the maturity
    of the product it was pre-computed for and obey the cap for that maturity (the refinement closure depends on the maturity).
    Direct, Markov-chain, coupled, copula and coupled-copula max-step simulators; implementation-only oracle."""
    import numpy as np
    from stepmeasure import StepModel, make_grid, step_spec, build_copula_model
    from rpylib.process.coupling.couplingmarkovchain import CouplingMarkovChain
    from rpylib.process.coupling.couplinglevycopula import CouplingProcessLevyCopula
    from rpylib.process.markovchain.markovchainlevycopula import MarkovChainLevyCopula
    from rpylib.distribution.sampling import SamplingMethod
    kinds = ["levy", "chain", "coupled", "copula", "coupled-copula"]
    for it in range(20 if tier == "quick" else 150):
        kind = kinds[it % len(kinds)]
        eps = rng.choice([0.5, 0.25, 1.0])
        short, long_ = eps * rng.choice([0.5, 1.0]), eps * rng.choice([2.0, 4.0, 3.0])
        maturities = [short, long_, short] if (it // len(kinds)) % 2 == 0 else [long_, short, long_]
        ctx = {"kind": "precomputation-sequence", "simulator": kind, "eps": eps, "maturities": maturities}
        try:
            first = make_product(2, maturities[0], stochastic=True)
            coupled = kind.startswith("coupled")
            if kind == "levy" or kind == "chain":
                proc, model = build_process(kind, rng)
                proc.initialisation(first, max_step_epsilon=eps)
                fine = proc
            elif kind == "coupled":
                proc = CouplingMarkovChain(StepModel(the_measure(), a=0.25, sigma=0.5), SamplingMethod.BINARYSEARCHTREEADAPTED1D, make_grid(AXIS, 6, Fraction(1, 4)))
            else:
                spec = step_spec(the_measure(), a=0.25, sigma=0.5)
                cop = build_copula_model([spec, spec], "independent")
                grid = make_grid(AXIS, 6, Fraction(1, 4), dimension=2)
                proc = (MarkovChainLevyCopula(cop, grid, SamplingMethod.BINARYSEARCHTREEADAPTED) if kind == "copula"
                        else CouplingProcessLevyCopula(cop, grid, SamplingMethod.BINARYSEARCHTREEADAPTED))
                if kind == "copula":
                    proc.initialisation(first, max_step_epsilon=eps)
                    fine = proc
            if coupled:
                with Patch(tags(rng, 400)):
                    np.random.seed(rng.randrange(2 ** 31))
                    proc.initialisation(first, max_step_epsilon=eps)
                    proc.next_level(mc_paths=1, path_managers=None, product=first, max_step_epsilon=eps)
                fine = proc.fine_process
            outcomes = []
            for T in maturities:
                prod = make_product(2, T, stochastic=True)
                with_jump = rng.random() < 0.4
                counts, offsets = ([1], [[T / 4]]) if with_jump else ([0], [[]])
                script_process(fine, counts, offsets)
                if kind == "levy":
                    model.script = deque([0.25] * counts[0])
                elif kind == "chain":
                    fine._path_simulation._sampling = lambda size, c=counts[0]: [1] * c
                elif kind == "coupled":
                    fine._path_simulation._sampling = lambda size, c=counts[0]: [1] * c
                    proc._path_coupling_simulation.coupling_state = lambda inc: 0.25
                else:
                    fine.sampling.sample = lambda size, c=counts[0]: [np.array((1, 1))] * c
                    if kind == "coupled-copula":
                        setattr(proc._path_coupling_simulation, "_CouplingLevyCopulaSimulation__coupling_state",
                                lambda inc, axis_coordinates=None: np.array([0.25, 0.25]))
                with Patch(tags(rng, 400)):
                    proc.pre_computation(1, prod)
                    sp = proc.simulate_one_path_with_coupling() if coupled else proc.simulate_one_path()
                times = [float(t) for t in sp.jump_times[:]]
                steps = [b - a for a, b in zip(times, times[1:])]
                outcomes.append({"maturity": T, "jumps": counts[0], "times": times})
                res.count(("precomp-seq", kind, eps, tuple(maturities), len(outcomes), with_jump), nontrivial=len(outcomes) > 1, kind=f"pre_computation sequence ({kind})")
                if times[0] != 0.0 or times[-1] != T:
                    report(res, "after a new pre_computation the path does not run from 0 to the maturity of that product", dict(ctx, runs=outcomes))
                    break
                if eps < T and max(steps) > eps:
                    report(res, "after pre_computation with a longer product (same simulator object, no new initialisation) the path is not refined: "
                                "a step exceeds max_step_epsilon", dict(ctx, runs=outcomes, step=max(steps)))
                    break
        except Exception as e:  # noqa
            report(res, f"pre_computation / simulate sequence raises {type(e).__name__} ({kind})", dict(ctx, error=f"{type(e).__name__}: {e}"))


def real_times_oracle(res, rng, tier):
    """the library's own time machinery, unscripted: product dates from Asian(MONTHLY) (a real TimeGrid, 13 non-dyadic dates) and jump
    times from the real jump_times_from_nb_of_jumps (numpy generator seeded from the run's seed; recorded on their way in); jump counts
    and sizes stay scripted so that the running sums are exact.  Implementation-only oracle (float tolerance 1e-12 on the step bound)."""
    import numpy as np
    from rpylib.product.product import Product
    from rpylib.product.payoff import Forward, Payoff, PayoffDates
    from rpylib.product.underlying import Asian, Discretisation
    for it in range(24 if tier == "quick" else 200):
        kind = "levy" if it % 2 == 0 else "chain"
        mode = ["fixed", "jump", "cap"][it % 3]
        T = 1.0
        prod = Product(Asian(Discretisation.MONTHLY), Payoff(PayoffDates.STOCHASTIC) if mode != "fixed" else Forward(1.0), maturity=T)
        dates = [float(t) for t in prod.times_grid()[:]]
        n_int = len(dates) - 1
        eps = rng.choice([0.2, 0.05, 0.3 ** 1.5, 1.0 / 12]) if mode == "cap" else None
        counts = [rng.choice([0, 0, 0, 1, 2]) for _ in range(n_int)]
        proc, model = build_process(kind, rng)
        ctx = {"kind": "real-times", "process": kind, "mode": mode, "dates": dates, "eps": eps, "counts": counts}
        try:
            proc.initialisation(prod, max_step_epsilon=eps) if eps is not None else proc.initialisation(prod)
            grid = getattr(proc, "grid", None)
            raw, sizes = draw_jumps(kind, rng, counts, grid, grid.origin_coordinate if grid is not None else None)
            if kind == "levy":
                model.script = deque(v for r in raw for v in r)
            else:
                rq = deque(raw)
                proc._path_simulation._sampling = lambda size, rq=rq: list(rq.popleft())
            cq, rec = deque(counts), []
            proc.nb_jump_dt = lambda dt, cq=cq: cq.popleft()
            real = type(proc).jump_times_from_nb_of_jumps

            def recording(dt, n, real=real, rec=rec):
                out = real(dt, n)
                rec.append([float(x) for x in out])
                return out
            proc.jump_times_from_nb_of_jumps = recording
            np.random.seed(rng.randrange(2 ** 31))
            proc.pre_computation(1, prod)
            sp = proc.simulate_one_path()
        except Exception as e:  # noqa
            report(res, f"{type(proc).__name__}.simulate_one_path raises {type(e).__name__} (real time grid, {mode})", dict(ctx, error=f"{type(e).__name__}: {e}"))
            continue
        times = [float(t) for t in sp.jump_times[:]]
        jumps = [float(v) for v in np.asarray(sp.jump_path, dtype=float).flatten()]
        res.count(("real-times", kind, mode, repr(counts), repr(rec)), nontrivial=sum(counts) >= 1, kind=f"real TimeGrid / jump times ({kind} {mode})")
        bad = None
        if times[0] != 0.0 or jumps[0] != 0.0 or times[-1] != T or len(times) != len(jumps):
            bad = "path does not start at (0,0) / end at the maturity / components not aligned"
        elif any(b <= a for a, b in zip(times, times[1:])) and not (eps is not None):
            bad = "times are not strictly increasing"
        if mode == "fixed":
            run, acc = [Fraction(0)], Fraction(0)
            for r in sizes:
                acc += sum((F(v) for v in r), Fraction(0))
                run.append(acc)
            if times != dates or [F(v) for v in jumps] != run:
                bad = "fixed dates: the path is not on the product dates with the running sums of the interval totals"
        else:
            jt = [float(np.float64(dates[k]) + np.float64(o)) for k, offs in enumerate(rec) for o in offs]
            cum, acc = [], Fraction(0)
            for v in (F(v) for r in sizes for v in r):
                acc += v
                cum.append(acc)
            if any(min(abs(t - u) for u in times) > 1e-12 for t in jt):
                bad = "a jump time drawn by jump_times_from_nb_of_jumps is missing from the returned path"
            else:
                want = [Fraction(0)] + refined_expectation([t - 1e-12 for t in jt], cum, times[1:-1]) + [cum[-1] if cum else Fraction(0)]
                if [F(v) for v in jumps] != want:
                    bad = "the jump part is not the running sum of the increments at the recorded jump times"
            if eps is not None and eps < T and max(b - a for a, b in zip(times, times[1:])) > eps + 1e-12:
                bad = "a step of the returned path exceeds max_step_epsilon (float tolerance 1e-12)"
        if bad:
            report(res, f"{type(proc).__name__} on the library's own time grid: {bad}", dict(ctx, times=times, jumps=jumps, recorded_offsets=rec))


def copula_cases(res, rng, tier):
    """MarkovChainLevyCopula (2-d, independent copula of two step models) through simulate_one_path: one product
    or several product intervals; every component is compared with the 1-d chain model"""
    import numpy as np
    from stepmeasure import make_grid, step_spec, build_copula_model
    from rpylib.process.markovchain.markovchainlevycopula import MarkovChainLevyCopula
    from rpylib.distribution.sampling import SamplingMethod
    fixed_cases, jump_cases = [], []
    d = 2
    for it in range(60 if tier == "quick" else 300):
        mode = ["jump", "cap", "fixed"][it % 3]
        n_int = rng.choice([1, 1, 2, 3, 4])
        dt = rng.choice([0.25, 1.0, 4.0]) if mode == "fixed" else rng.choice([0.5, 1.0, 2.0])
        T = dt * n_int
        eps = rng.choice([T / 8, dt / 4, 3 * dt / 16, T, dt / 2, dt]) if mode == "cap" else None
        counts, offsets = gen_script(rng, n_int, dt)
        ctx = {"kind": "copula", "mode": mode, "intervals": n_int, "dt": dt, "T": T, "eps": eps, "counts": counts, "offsets": offsets}
        try:
            spec = step_spec(the_measure(), a=0.25, sigma=0.5)
            proc = MarkovChainLevyCopula(build_copula_model([spec, spec], "independent"), make_grid(AXIS, 6, Fraction(1, 4), dimension=d),
                                         SamplingMethod.BINARYSEARCHTREEADAPTED)
            prod = make_product(n_int + 1, T, stochastic=(mode != "fixed"))
            proc.initialisation(prod, max_step_epsilon=eps) if eps is not None else proc.initialisation(prod)
            raw = [[tuple(rng.choice([-3, -2, -1, 0, 1, 2, 3]) for _ in range(d)) for _ in range(n)] for n in counts]
            sizes = [[[float(AXIS[6 + inc[k]]) for inc in r] for r in raw] for k in range(d)]     # per component, per interval
            ctx["state_increments"] = raw
            rq = deque(raw)
            proc.sampling.sample = lambda size, rq=rq: [np.array(x) for x in rq.popleft()]
            script_process(proc, counts, offsets)
            ws = tags(rng, 400)
            with Patch(ws) as pt:
                proc.pre_computation(1, prod)
                sp = proc.simulate_one_path()
                used = list(pt.used_normals)
        except Exception as e:  # noqa
            rp = dict(ctx, error=f"{type(e).__name__}: {e}")
            report(res, f"MarkovChainLevyCopula.simulate_one_path raises {type(e).__name__} ({mode}, {n_int} interval(s))", rp)
            continue
        times = [float(t) for t in sp.jump_times[:]]
        dif, jmp = np.asarray(sp.diffusion_path, dtype=float), np.asarray(sp.jump_path, dtype=float)
        if dif.shape != (d, len(times)) or jmp.shape != (d, len(times)):
            report(res, "copula path: components are not aligned on the returned times", dict(ctx, times=times, shapes=[list(dif.shape), list(jmp.shape)]))
            continue
        sq = [float(v) for v in np.sqrt(np.diff(times))]
        n = len(sq)
        dm = np.asarray(proc._path_simulation.diffusion_matrix, dtype=float)
        exact_sq = all(F(s) ** 2 == F(b) - F(a) for s, a, b in zip(sq, times, times[1:]))
        tol = Fraction(0) if exact_sq else TOL
        res.count(("copula", mode, n_int, dt, eps, repr(counts), repr(offsets), repr(raw)), nontrivial=sum(counts) >= 1, kind=f"copula {mode}")
        for k in range(d):
            sigma = float(dm[k, k])
            ws_k = used[k * n:(k + 1) * n] if mode != "fixed" else used[k * n:(k + 1) * n]
            ssw = [F(s) * F(sigma) * F(w) for s, w in zip(sq, ws_k)]
            flat = [F(v) for r in sizes[k] for v in r]
            d_, j_ = [float(v) for v in dif[k]], [float(v) for v in jmp[k]]
            c2 = dict(ctx, component=k)
            ql = lambda xs: lst([qlit(v) for v in xs])    # noqa
            if abs(dm[k, 1 - k]) > 0:
                continue
            if mode == "fixed":
                run, acc = [Fraction(0)], Fraction(0)
                for r in sizes[k]:
                    acc += sum((F(v) for v in r), Fraction(0))
                    run.append(acc)
                c2["finding_hint"] = "fixed"
                check_path(res, "MarkovChainLevyCopula (fixed dates)", times, d_, j_, T, None, run, ssw, None, c2)
                fixed_cases.append(f"(true, {ql(sq)}, {qlit(sigma)}, {ql(ws_k)}, {lst([ql(r) for r in sizes[k]])}, {qlit(tol)}, {ql(d_)}, {ql(j_)})")
            else:
                jt = [kk * dt + o for kk, offs in enumerate(offsets) for o in offs]
                cum, acc = [], Fraction(0)
                for v in flat:
                    acc += v
                    cum.append(acc)
                run = [Fraction(0)] + refined_expectation(jt, cum, times[1:-1]) + [cum[-1] if cum else Fraction(0)]
                check_path(res, f"MarkovChainLevyCopula ({'jump times' if eps is None else 'jump times, max step'})", times, d_, j_, T, jt, run, ssw, eps, c2)
                cap = "None" if eps is None else f"(Some {qlit(eps)})"
                jump_cases.append(f"(true, {cap}, {qlit(T)}, {ql([kk * dt for kk in range(n_int)])}, {lst([ql(offs) for offs in offsets])}, {lst([ql(r) for r in sizes[k]])}, "
                                  f"{ql(sq)}, {qlit(sigma)}, {ql(ws_k)}, {qlit(tol)}, {ql(times)}, {ql(d_)}, {ql(j_)})")
    return fixed_cases, jump_cases


def coupled_copula_cases(res, rng, tier):
    """CouplingProcessLevyCopula (2-d, level 1) through simulate_one_path_with_coupling: fixed dates, jump times and jump times with
    max_step_epsilon, 1-3 product dates, ragged jump counts; scripted: jump counts, offsets, the fine chain's state increments, the
    coupling states (private __coupling_state), normals.  Every component of the fine and of the coarse path is compared with the
    1-d coupled model (cfixed_check / cjump_check) and with the running-sum / cap oracle."""
    import numpy as np
    from stepmeasure import make_grid, step_spec, build_copula_model
    from rpylib.process.coupling.couplinglevycopula import CouplingProcessLevyCopula
    from rpylib.distribution.sampling import SamplingMethod
    cfixed, cjump = [], []
    d = 2
    for it in range(45 if tier == "quick" else 300):
        mode = ["fixed", "jump", "cap"][it % 3]
        n_int = rng.choice([1, 3, 2, 3])
        dt = rng.choice([0.25, 1.0, 4.0]) if mode == "fixed" else rng.choice([0.5, 1.0, 2.0])
        T = dt * n_int
        eps = rng.choice([T / 8, dt / 4, 3 * dt / 16, T, dt / 2, dt]) if mode == "cap" else None
        counts, offsets = gen_script(rng, n_int, dt)
        ctx = {"kind": "coupled-copula", "mode": mode, "intervals": n_int, "dt": dt, "T": T, "eps": eps, "counts": counts, "offsets": offsets}
        try:
            spec = step_spec(the_measure(), a=0.25, sigma=0.5)
            cp = CouplingProcessLevyCopula(build_copula_model([spec, spec], "independent"), make_grid(AXIS, 6, Fraction(1, 4), dimension=d),
                                           SamplingMethod.BINARYSEARCHTREEADAPTED)
            prod = make_product(n_int + 1, T, stochastic=(mode != "fixed"))
            with Patch(tags(rng, 400)):
                np.random.seed(rng.randrange(2 ** 31))
                cp.initialisation(prod, max_step_epsilon=eps)
                cp.next_level(mc_paths=1, path_managers=None, product=prod, max_step_epsilon=eps)
            axis = [float(v) for v in cp.grid.axes[0]]
            org = cp.grid.origin_coordinate.value[0]
            raw = [[tuple(rng.choice([k for k in range(-4, 5) if 0 <= org + k < len(axis)]) for _ in range(d)) for _ in range(n)] for n in counts]
            craw = [[tuple(rng.choice([-2, -1, 0, 1, 2]) / 4 for _ in range(d)) for _ in r] for r in raw]      # scripted coupling states
            fsizes = [[[axis[org + inc[k]] for inc in r] for r in raw] for k in range(d)]
            csizes = [[[c[k] for c in r] for r in craw] for k in range(d)]
            ctx.update(fine_state_increments=raw, coarse_values=craw)
            rq, cq = deque(raw), deque(np.array(c, dtype=float) for r in craw for c in r)
            cp.fine_process.sampling.sample = lambda size, rq=rq: [np.array(x) for x in rq.popleft()]
            setattr(cp._path_coupling_simulation, "_CouplingLevyCopulaSimulation__coupling_state", lambda inc, axis_coordinates=None, cq=cq: cq.popleft())
            script_process(cp.fine_process, counts, offsets)
            with Patch(tags(rng, 600)) as pt:
                cp.pre_computation(1, prod)
                sp = cp.simulate_one_path_with_coupling()
                used = list(pt.used_normals)
        except Exception as e:  # noqa
            report(res, f"CouplingProcessLevyCopula.simulate_one_path_with_coupling raises {type(e).__name__} ({mode}, {n_int} interval(s))",
                   dict(ctx, error=f"{type(e).__name__}: {e}"))
            continue
        times = [float(t) for t in sp.jump_times[:]]
        dif, jmp = np.asarray(sp.diffusion_path, dtype=float), np.asarray(sp.jump_path, dtype=float)
        if dif.shape != (2, d, len(times)) or jmp.shape != (2, d, len(times)):
            report(res, "coupled copula path: fine / coarse components are not aligned on the returned times",
                   dict(ctx, times=times, shapes=[list(dif.shape), list(jmp.shape)]))
            continue
        sq = [float(v) for v in np.sqrt(np.diff(times))]
        n = len(sq)
        dm_f, dm_c = np.asarray(cp._diffusion_matrix_h, dtype=float), np.asarray(cp._diffusion_matrix_2h, dtype=float)
        exact_sq = all(F(s_) ** 2 == F(b) - F(a) for s_, a, b in zip(sq, times, times[1:]))
        tol = Fraction(0) if exact_sq else TOL
        res.count(("coupled-copula", mode, n_int, dt, eps, repr(counts), repr(offsets), repr(raw), repr(craw)), nontrivial=sum(counts) >= 1,
                  kind=f"coupled copula {mode}")
        res.bump("coupled_copula_intervals", n_int)
        ql = lambda xs: lst([qlit(v) for v in xs])    # noqa
        qll = lambda xss: lst([ql(xs) for xs in xss])  # noqa
        tms = [kk * dt for kk in range(n_int)]
        jt = [kk * dt + o for kk, offs in enumerate(offsets) for o in offs]
        for k in range(d):
            if abs(dm_f[k, 1 - k]) > 0 or abs(dm_c[k, 1 - k]) > 0:
                continue
            ws_k = used[k * n:(k + 1) * n]
            comp = {}
            for name, idx, sizes, sig in (("fine", 0, fsizes[k], float(dm_f[k, k])), ("coarse", 1, csizes[k], float(dm_c[k, k]))):
                d_, j_ = [float(v) for v in dif[idx, k]], [float(v) for v in jmp[idx, k]]
                comp[name] = (d_, j_, sig)
                ssw = [F(s_) * F(sig) * F(w) for s_, w in zip(sq, ws_k)]
                flat = [F(v) for r in sizes for v in r]
                c2 = dict(ctx, component=f"{name}[{k}]")
                if mode == "fixed":
                    run, acc = [Fraction(0)], Fraction(0)
                    for r in sizes:
                        acc += sum((F(v) for v in r), Fraction(0))
                        run.append(acc)
                    c2["finding_hint"] = "fixed"
                    check_path(res, f"CouplingProcessLevyCopula {name} (fixed dates)", times, d_, j_, T, None, run, ssw, None, c2)
                else:
                    cum, acc = [], Fraction(0)
                    for v in flat:
                        acc += v
                        cum.append(acc)
                    run = [Fraction(0)] + refined_expectation(jt, cum, times[1:-1]) + [cum[-1] if cum else Fraction(0)]
                    check_path(res, f"CouplingProcessLevyCopula {name} ({'jump times' if eps is None else 'jump times, max step'})",
                               times, d_, j_, T, jt, run, ssw, eps, c2)
            (fd_, fj_, sf), (cd_, cj_, sc) = comp["fine"], comp["coarse"]
            if mode == "fixed":
                cfixed.append(f"({ql(sq)}, {qlit(sf)}, {qlit(sc)}, {ql(ws_k)}, {qll(fsizes[k])}, {qll(csizes[k])}, {qlit(tol)}, "
                              f"{ql(fd_)}, {ql(fj_)}, {ql(cd_)}, {ql(cj_)})")
            else:
                cap = "None" if eps is None else f"(Some {qlit(eps)})"
                cjump.append(f"({cap}, {qlit(T)}, {ql(tms)}, {qll(offsets)}, {qll(fsizes[k])}, {qll(csizes[k])}, "
                             f"{ql(sq)}, {qlit(sf)}, {qlit(sc)}, {ql(ws_k)}, {qlit(tol)}, {ql(times)}, {ql(fd_)}, {ql(fj_)}, {ql(cd_)}, {ql(cj_)})")
    return cfixed, cjump


def copula_fixed_dates_replay(res):
    """MCLevyCopulaSimulationFixedTimes.project with several product dates (the former F-C15-2): one column per date, running totals"""
    import numpy as np
    from rpylib.process.markovchain.markovchainlevycopula import MCLevyCopulaSimulationFixedTimes
    vals = [np.array([[0.25, 0.5]]), np.array([]), np.array([[0.5, 0.25], [0.75, 0.25]])]     # three dates: 1, 0 and 2 jumps, d = 2
    res.count(("copula-project", 3), kind="copula fixed dates (project)")
    try:
        out = np.asarray(MCLevyCopulaSimulationFixedTimes.project(vals, 2), dtype=float)
        if out.shape != (2, 3) or out.tolist() != [[0.25, 0.25, 1.0], [0.5, 0.5, 0.75]]:
            report(res, "MCLevyCopulaSimulationFixedTimes.project: not the running totals per product date", {"kind": "copula-project", "got": out.tolist()})
    except Exception as e:  # noqa
        report(res, f"MCLevyCopulaSimulationFixedTimes.project raises {type(e).__name__} for more than one product date",
               {"kind": "copula-project", "error": f"{type(e).__name__}: {e}"})


# ----------------------------------------------------------------------------- sequences of paths from ONE process object, all kept
def internal_arrays(objs):
    """every ndarray reachable as an attribute (or one level inside a list / tuple / deque attribute) of the simulator objects"""
    import numpy as np
    out, seen = [], set()
    for o in objs:
        if o is None or id(o) in seen:
            continue
        seen.add(id(o))
        for name, v in list(getattr(o, "__dict__", {}).items()):
            if isinstance(v, np.ndarray):
                out.append((f"{type(o).__name__}.{name}", v))
            elif isinstance(v, (list, tuple, deque)):
                out += [(f"{type(o).__name__}.{name}[{i}]", x) for i, x in enumerate(list(v)[:64]) if isinstance(x, np.ndarray)]
    return out


def retained_paths_oracle(res, rng, tier):
    """A caller may KEEP the paths it is given.  ONE process object per case (direct, 1-d Markov chain, coupled 1-d, copula d = 2 / 3, coupled
    copula d = 2 / 3; fixed dates / jump times / max step), ONE pre_computation for M paths, M calls of simulate_one_path[_with_coupling]; all M
    returned StochasticJumpPath objects are kept and examined only AFTER the whole sequence (implementation-only oracle):
      (a) times / diffusion / jump arrays of every kept path still equal the private copies taken when it was returned;
      (b) the jump part of every kept path is built from ITS OWN recorded increments (fixed dates: running sums of the interval totals at every
          date; otherwise: the value at the maturity is the sum of all its increments), fine and coarse, every component - exact;
      (c) the value arrays of different kept paths do not share memory with each other, nor with any array held by the simulator objects.
    Randomness is drawn on the fly from the run's seed and recorded per path (counts, offsets, state increments, coupling states)."""
    import numpy as np
    from stepmeasure import StepModel, make_grid, step_spec, build_copula_model
    from rpylib.process.coupling.couplingmarkovchain import CouplingMarkovChain
    from rpylib.process.coupling.couplinglevycopula import CouplingProcessLevyCopula
    from rpylib.process.markovchain.markovchainlevycopula import MarkovChainLevyCopula
    from rpylib.distribution.sampling import SamplingMethod
    kinds = [("levy", 1), ("chain", 1), ("coupled", 1), ("copula", 2), ("copula", 3), ("coupled-copula", 2), ("coupled-copula", 3)]
    modes = ["fixed", "jump", "cap"]
    rounds = 2 if tier == "quick" else 10
    for it in range(rounds * len(kinds) * len(modes)):
        (kind, d), mode = kinds[it % len(kinds)], modes[(it // len(kinds)) % len(modes)]
        M = rng.choice([3, 4, 6])
        n_int = rng.choice([2, 3, 4])
        dt = rng.choice([0.25, 1.0]) if mode == "fixed" else rng.choice([0.5, 1.0, 2.0])
        T = dt * n_int
        eps = rng.choice([dt / 4, dt / 2, dt, T / 2]) if mode == "cap" else None
        coupled = kind.startswith("coupled")
        ctx = {"kind": "retained-paths", "simulator": kind, "d": d, "mode": mode, "paths": M, "intervals": n_int, "dt": dt, "T": T, "eps": eps}
        cur = [None]                                   # index of the path being simulated (None during pre_computation)
        counts_rec, fine_rec, coarse_rec = [], {}, {}
        kept = []
        try:
            prod = make_product(n_int + 1, T, stochastic=(mode != "fixed"))
            if kind in ("levy", "chain"):
                top, model = build_process(kind, rng)
                top.initialisation(prod, max_step_epsilon=eps) if eps is not None else top.initialisation(prod)
                fine = top
            elif kind == "coupled":
                top = CouplingMarkovChain(StepModel(the_measure(), a=0.25, sigma=0.5), SamplingMethod.BINARYSEARCHTREEADAPTED1D, make_grid(AXIS, 6, Fraction(1, 4)))
            else:
                spec = step_spec(the_measure(), a=0.25, sigma=0.5)
                cop = build_copula_model([spec] * d, "independent")
                grid = make_grid(AXIS, 6, Fraction(1, 4), dimension=d)
                if kind == "copula":
                    top = fine = MarkovChainLevyCopula(cop, grid, SamplingMethod.BINARYSEARCHTREEADAPTED)
                    top.initialisation(prod, max_step_epsilon=eps) if eps is not None else top.initialisation(prod)
                else:
                    top = CouplingProcessLevyCopula(cop, grid, SamplingMethod.BINARYSEARCHTREEADAPTED)
            if coupled:
                with Patch(tags(rng, 900)):
                    np.random.seed(rng.randrange(2 ** 31))
                    top.initialisation(prod, max_step_epsilon=eps)
                    top.next_level(mc_paths=1, path_managers=None, product=prod, max_step_epsilon=eps)
                fine = top.fine_process
            # --- randomness on the fly, recorded per path
            fine.nb_jump_dt = lambda dt_: counts_rec.append(rng.choice([0, 1, 1, 2, 3])) or counts_rec[-1]
            fine.jump_times_from_nb_of_jumps = lambda dt_, n: np.array(sorted(rng.sample(range(1, 64), int(n))), dtype=float) / 64 * dt_
            if kind == "levy":
                def jump_increment(n):
                    vals = [rng.choice([1, 2, 4, 8, 16, 32]) / 64 * rng.choice([1, 1, -1]) for _ in range(int(n))]
                    fine_rec.setdefault(cur[0], []).extend([v] for v in vals)
                    return np.array(vals, dtype=float)
                model.jump_increment = jump_increment
            elif d == 1:
                g1, o1 = fine.grid, fine.grid.origin_coordinate
                nax = len(g1.axes[0])

                def sampling1(size, g1=g1, o1=o1, nax=nax):
                    ks = [rng.choice([k for k in range(-4, 5) if k and 0 <= o1.value + k < nax]) for _ in range(int(size))]
                    fine_rec.setdefault(cur[0], []).extend([float(g1[o1 + k])] for k in ks)
                    return ks
                fine._path_simulation._sampling = sampling1
            else:
                axes = [[float(v) for v in ax] for ax in fine.grid.axes]
                org = list(fine.grid.origin_coordinate.value)

                def samplingd(size, axes=axes, org=org):
                    incs = [tuple(rng.choice([k for k in range(-4, 5) if 0 <= org[c] + k < len(axes[c])]) for c in range(d)) for _ in range(int(size))]
                    fine_rec.setdefault(cur[0], []).extend([axes[c][org[c] + inc[c]] for c in range(d)] for inc in incs)
                    return [np.array(x) for x in incs]
                fine.sampling.sample = samplingd
            if kind == "coupled":
                def cstate(inc):
                    v = rng.choice([-2, -1, 0, 1, 2]) / 4
                    coarse_rec.setdefault(cur[0], []).append([v])
                    return v
                top._path_coupling_simulation.coupling_state = cstate
            elif kind == "coupled-copula":
                def cstated(inc, axis_coordinates=None):
                    v = [rng.choice([-2, -1, 0, 1, 2]) / 4 for _ in range(d)]
                    coarse_rec.setdefault(cur[0], []).append(v)
                    return np.array(v, dtype=float)
                setattr(top._path_coupling_simulation, "_CouplingLevyCopulaSimulation__coupling_state", cstated)
            with Patch(tags(rng, 4000)):
                top.pre_computation(M, prod)
                n_pre = len(counts_rec)
                for i in range(M):
                    cur[0] = i
                    sp = top.simulate_one_path_with_coupling() if coupled else top.simulate_one_path()
                    kept.append((sp, np.array(sp.jump_times[:], dtype=float).copy(), np.array(sp.diffusion_path, dtype=float).copy(),
                                 np.array(sp.jump_path, dtype=float).copy()))
        except Exception as e:  # noqa
            report(res, f"sequence of {M} paths from one {kind} process raises {type(e).__name__} ({mode})", dict(ctx, error=f"{type(e).__name__}: {e}"))
            continue
        # ---------------- only now, after the whole sequence, the kept paths are looked at
        if mode == "fixed":     # pre_computation draws the counts date by date for all paths
            counts = [[counts_rec[k * M + i] for k in range(n_int)] for i in range(M)] if n_pre == M * n_int else None
        else:
            counts = [counts_rec[n_pre + i * n_int: n_pre + (i + 1) * n_int] for i in range(M)]
        ctx["counts"] = counts
        res.count(("retained", kind, d, mode, M, n_int, dt, eps, repr(counts), repr(fine_rec)), nontrivial=bool(fine_rec), kind=f"kept paths of one process ({kind} d={d} {mode})")
        res.bump("retained_paths_per_sequence", M)
        bad = None
        for i, (sp, t0, d0, j0) in enumerate(kept):
            t1, d1, j1 = np.array(sp.jump_times[:], dtype=float), np.asarray(sp.diffusion_path, dtype=float), np.asarray(sp.jump_path, dtype=float)
            for nm, a, b in (("times", t0, t1), ("diffusion part", d0, d1), ("jump part", j0, j1)):
                if a.shape != b.shape or not np.array_equal(a, b):
                    bad = bad or (f"a path kept by the caller changed when later paths were simulated from the same process: the {nm} of path {i} of {M} is no longer "
                                  f"what simulate_one_path returned", {"path": i, "component": nm, "returned": a.tolist(), "now": b.tolist()})
            # (b) its own increments
            own_f, own_c = fine_rec.get(i, []), coarse_rec.get(i, [])
            for nm, own, arr in ([("jump part", own_f, j1)] if not coupled else [("fine jump part", own_f, j1[0]), ("coarse jump part", own_c, j1[1])]):
                arr2 = np.atleast_2d(arr)                      # (d, n)
                if counts is None or counts[i] is None or sum(counts[i]) != len(own):
                    continue
                for c in range(arr2.shape[0]):
                    if mode == "fixed":
                        want, acc, pos = [Fraction(0)], Fraction(0), 0
                        for n in counts[i]:
                            acc += sum((F(v[c]) for v in own[pos:pos + n]), Fraction(0))
                            pos += n
                            want.append(acc)
                        got = [F(v) for v in arr2[c]]
                    else:
                        want, got = [sum((F(v[c]) for v in own), Fraction(0))], [F(arr2[c][-1])]
                    res.bump("retained_own_increment_checks", f"{mode}: {'running sums at every date' if mode == 'fixed' else 'value at maturity'}")
                    if got != want:
                        bad = bad or (f"after the whole sequence the {nm} of kept path {i} of {M} is not the running sum of ITS OWN jump increments",
                                      {"path": i, "component": c, "got": [float(x) for x in got], "own_running_sum": [float(x) for x in want]})
        # (c) aliasing
        objs = [top, getattr(top, "_path_simulation", None), fine, getattr(fine, "_path_simulation", None), getattr(top, "_path_coupling_simulation", None)]
        internals = internal_arrays(objs)
        vals = [(i, nm, arr) for i, (sp, *_c) in enumerate(kept) for nm, arr in (("diffusion_path", sp.diffusion_path), ("jump_path", sp.jump_path))
                if isinstance(arr, np.ndarray)]
        for a in range(len(vals)):
            for b in range(a + 1, len(vals)):
                if vals[a][0] != vals[b][0] and np.shares_memory(vals[a][2], vals[b][2]):
                    bad = bad or (f"the {vals[a][1]} of path {vals[a][0]} and the {vals[b][1]} of path {vals[b][0]} returned by one process share memory",
                                  {"paths": [vals[a][0], vals[b][0]]})
            for nm, buf in internals:
                if np.shares_memory(vals[a][2], buf):
                    bad = bad or (f"the {vals[a][1]} returned for path {vals[a][0]} shares memory with the simulator's internal array {nm}", {"internal": nm})
        res.bump("retained_alias_checks", f"{len(vals)} returned value arrays x {len(internals)} internal arrays")
        if bad:
            report(res, bad[0], dict(ctx, **bad[1]))


# ----------------------------------------------------------------------------- d-dimensional Levy-copula simulators vs Model/PathsNd.v
class UniformScript:
    """np.random.random_sample is replaced ONLY while the real LevyProcess.jump_times_from_nb_of_jumps runs: the real function (scaling by dt,
    np.sort) is driven with scripted dyadic uniforms"""

    def __init__(self, proc, uniforms):
        import numpy as np
        self.real = type(proc).jump_times_from_nb_of_jumps
        self.queue = deque(uniforms)
        self.calls = []

        def scripted(size=None):
            us = self.queue.popleft()
            if size is not None and int(size) != len(us):
                raise AssertionError(f"jump_times_from_nb_of_jumps asked for {size} uniforms, the script has {len(us)}")
            return np.array(us, dtype=float)

        def wrapped(dt, n):
            orig = np.random.random_sample
            np.random.random_sample = scripted
            try:
                out = self.real(dt, n)
            finally:
                np.random.random_sample = orig
            self.calls.append((float(dt), int(n)))
            return out
        proc.jump_times_from_nb_of_jumps = wrapped


def nd_counts(rng, n_int, it):
    """jump counts per product interval: NON-ragged multi-interval scripts ([2,2], [1,1,1], [3,3] ...), ragged ones, empty intervals"""
    style = it % 4
    if style == 0 and n_int >= 2:
        return [rng.choice([1, 2, 3])] * n_int                      # non-ragged
    if style == 1:
        return [rng.choice([0, 1, 2, 3]) for _ in range(n_int)]     # ragged, empties allowed
    if style == 2 and n_int >= 2:
        c = [rng.choice([1, 2, 3]) for _ in range(n_int)]
        c[rng.randrange(n_int)] = 0                                  # an empty interval among non-empty ones
        return c
    return [rng.choice([0, 0, 1, 2, 4]) for _ in range(n_int)]


def nd_uniforms(rng, counts):
    return [[k / 64 for k in rng.sample(range(1, 64), n)] for n in counts]       # pairwise distinct dyadics in (0, 1), unsorted


def nd_columns(arr):
    """(d, n) array -> list of n columns (d floats each)"""
    return [[float(v) for v in col] for col in arr.T]


def nd_diffusion_expect(dm, sq, wcols):
    """exact rational value of np.cumsum(sqrt_dts * (dm @ W), axis=1) with the zero column in front"""
    d = len(dm)
    acc, out = [Fraction(0)] * d, [[Fraction(0)] * d]
    for s, w in zip(sq, wcols):
        step = [F(s) * sum((F(dm[k][i]) * F(w[i]) for i in range(d)), Fraction(0)) for k in range(d)]
        acc = [a + b for a, b in zip(acc, step)]
        out.append(list(acc))
    return out


def vl(cols):
    return lst([lst([qlit(v) for v in c]) for c in cols])


def nd_oracle(res, what, d, times, dif, jmp, T, jt, sizes, eps, mode, ctx, diff_expect):
    """statement of the property on one returned (d, n) component array (implementation only): every component k is checked by check_path"""
    ok = True
    for k in range(d):
        flat = [F(v[k]) for r in sizes for v in r]
        c2 = dict(ctx, component=f"{what}[{k}]")
        d_, j_ = [float(v) for v in dif[k]], [float(v) for v in jmp[k]]
        if mode == "fixed":
            run, acc = [Fraction(0)], Fraction(0)
            for r in sizes:
                acc += sum((F(v[k]) for v in r), Fraction(0))
                run.append(acc)
            c2["finding_hint"] = "fixed"
            ok &= check_path(res, f"{what} (fixed dates, d={d})", times, d_, j_, T, None, run, None, None, c2)
        else:
            cum, acc = [], Fraction(0)
            for v in flat:
                acc += v
                cum.append(acc)
            run = [Fraction(0)] + refined_expectation(jt, cum, times[1:-1]) + [cum[-1] if cum else Fraction(0)]
            ok &= check_path(res, f"{what} ({'jump times' if eps is None else 'jump times, max step'}, d={d})", times, d_, j_, T, jt, run, None, eps, c2)
        want = [col[k] for col in diff_expect]
        if len(want) != len(d_) or any(abs(F(a) - b) > TOL for a, b in zip(d_, want)):
            report(res, f"{what}: the diffusion part is not the running sum of sqrt(dt) * (diffusion matrix @ normals of the step)", dict(c2, diffusion=d_))
            ok = False
    return ok


def nd_cases(res, rng, tier):
    """MarkovChainLevyCopula.simulate_one_path and CouplingProcessLevyCopula.simulate_one_path_with_coupling, d = 2 and 3, against the
    d-dimensional model (Model/PathsNd.v): whole (d, n) / (2, d, n) arrays incl. the matrix diffusion.  REAL: TimeGrid of the product, the
    loop over product intervals, jump_times_from_nb_of_jumps (scripted uniforms, real scaling and np.sort), helper_simulate_levy_copula_
    markov_chain, _coupling_states_for_a_slice, chain_over_intervals, refine_up_to_maturity, both build_finer_grid copies, and for half of
    the d = 2 coupled cases the REAL __coupling_state (recorded on its way out; its uniform comes from numpy seeded from the run's seed; fine
    states on one axis inside the support of the measure).  Scripted: nb_jump_dt (counts), the state sampler (increments), np.random.normal
    (tagged dyadics), otherwise the coupling states."""
    import numpy as np
    from stepmeasure import make_grid, step_spec, build_copula_model
    from rpylib.process.markovchain.markovchainlevycopula import MarkovChainLevyCopula
    from rpylib.process.coupling.couplinglevycopula import CouplingProcessLevyCopula
    from rpylib.distribution.sampling import SamplingMethod
    kf, kj, cf, cj = [], [], [], []
    n_iter = 72 if tier == "quick" else 480
    for it in range(n_iter):
        coupled = it % 2 == 1
        d = 2 if (it // 2) % 3 else 3
        mode = ["fixed", "jump", "cap"][(it // 6) % 3] if it % 5 else "cap"
        n_int = rng.choice([1, 2, 2, 3, 3, 4])
        dt = rng.choice([0.25, 1.0, 4.0]) if mode == "fixed" else rng.choice([0.5, 1.0, 2.0])
        T = dt * n_int
        eps = rng.choice([T / 8, dt / 4, 3 * dt / 16, T, dt / 2, dt, 1.5 * dt]) if mode == "cap" else None
        counts = nd_counts(rng, n_int, it // 2)
        uniforms = nd_uniforms(rng, counts)
        real_cs = coupled and d == 2 and (it // 12) % 2 == 0
        what = "CouplingProcessLevyCopula" if coupled else "MarkovChainLevyCopula"
        ctx = {"kind": "nd-coupled-copula" if coupled else "nd-copula", "d": d, "mode": mode, "intervals": n_int, "dt": dt, "T": T, "eps": eps,
               "counts": counts, "uniforms": uniforms, "real_coupling_state": real_cs}
        try:
            spec = step_spec(the_measure(), a=0.25, sigma=0.5)
            cop = build_copula_model([spec] * d, "independent")
            grid = make_grid(AXIS, 6, Fraction(1, 4), dimension=d)
            prod = make_product(n_int + 1, T, stochastic=(mode != "fixed"))
            dates = [float(t) for t in prod.times_grid()[:]]
            recorded = []
            if coupled:
                top = CouplingProcessLevyCopula(cop, grid, SamplingMethod.BINARYSEARCHTREEADAPTED)
                with Patch(tags(rng, 600)):
                    np.random.seed(rng.randrange(2 ** 31))
                    top.initialisation(prod, max_step_epsilon=eps)
                    top.next_level(mc_paths=1, path_managers=None, product=prod, max_step_epsilon=eps)
                fine = top.fine_process
            else:
                top = fine = MarkovChainLevyCopula(cop, grid, SamplingMethod.BINARYSEARCHTREEADAPTED)
                top.initialisation(prod, max_step_epsilon=eps) if eps is not None else top.initialisation(prod)
            axes = [[float(v) for v in ax] for ax in top.grid.axes]
            org = list(top.grid.origin_coordinate.value)
            if real_cs:
                # the REAL __coupling_state divides by the Levy mass around the fine state: the scripted fine states must lie in the support of the
                # measure - for the independent copula on ONE axis, at |x| >= 3/8 (density 0 on (-1/4, 1/4)); odd and even increments
                def on_axis():
                    c, k = rng.randrange(d), rng.choice([-8, -7, -6, -5, -4, -3, 3, 4, 5, 6, 7, 8])
                    return tuple(k if j == c else 0 for j in range(d))
                raw = [[on_axis() for _ in range(n)] for n in counts]
            else:
                raw = [[tuple(rng.choice([k for k in range(-4, 5) if 0 <= org[c] + k < len(axes[c])]) for c in range(d)) for _ in range(n)] for n in counts]
            fsizes = [[[axes[c][org[c] + inc[c]] for c in range(d)] for inc in r] for r in raw]       # per interval, per jump: d-vector
            ctx["state_increments"] = raw
            rq = deque(raw)
            fine.sampling.sample = lambda size, rq=rq: [np.array(x) for x in rq.popleft()]
            cqc = deque(counts)
            fine.nb_jump_dt = lambda dt_, cqc=cqc: cqc.popleft()
            us = UniformScript(fine, uniforms)
            csizes = None
            if coupled:
                sim = top._path_coupling_simulation
                name = "_CouplingLevyCopulaSimulation__coupling_state"
                if real_cs:
                    real = getattr(sim, name)
                    depth = [0]

                    def recording(inc, axis_coordinates=None, real=real, depth=depth):
                        depth[0] += 1
                        try:
                            out = real(inc) if axis_coordinates is None else real(inc, axis_coordinates)
                        finally:
                            depth[0] -= 1
                        if depth[0] == 0:
                            recorded.append([float(v) for v in np.asarray(out, dtype=float)])
                        return out
                    setattr(sim, name, recording)
                else:
                    craw = [[[rng.choice([-2, -1, 0, 1, 2]) / 4 for _ in range(d)] for _ in r] for r in raw]
                    cq = deque(np.array(c, dtype=float) for r in craw for c in r)
                    setattr(sim, name, lambda inc, axis_coordinates=None, cq=cq: cq.popleft())
                    csizes = craw
            np.random.seed(rng.randrange(2 ** 31))
            with Patch(tags(rng, 900)) as pt:
                top.pre_computation(1, prod)
                sp = top.simulate_one_path_with_coupling() if coupled else top.simulate_one_path()
                used = list(pt.used_normals)
            if real_cs:
                if len(recorded) != sum(counts):
                    report(res, "coupled copula: not exactly one coupling state per fine jump", dict(ctx, recorded=len(recorded)))
                    continue
                flat, csizes = deque(recorded), []
                for n in counts:
                    csizes.append([flat.popleft() for _ in range(n)])
            if mode != "fixed" and us.calls != [(dt_, n) for dt_, n in zip(np.diff(dates).tolist(), counts)]:
                report(res, f"{what}: jump_times_from_nb_of_jumps is not called once per product interval with (interval length, number of jumps)",
                       dict(ctx, calls=us.calls))
                continue
        except Exception as e:  # noqa
            report(res, f"{what}.{'simulate_one_path_with_coupling' if coupled else 'simulate_one_path'} raises {type(e).__name__} (d={d}, {mode}, {n_int} interval(s))",
                   dict(ctx, error=f"{type(e).__name__}: {e}"))
            continue
        ctx["coarse_values"] = csizes
        times = [float(t) for t in sp.jump_times[:]]
        dif, jmp = np.asarray(sp.diffusion_path, dtype=float), np.asarray(sp.jump_path, dtype=float)
        shape = (2, d, len(times)) if coupled else (d, len(times))
        if dif.shape != shape or jmp.shape != shape:
            report(res, f"{what}: the components are not aligned on the returned times", dict(ctx, times=times, shapes=[list(dif.shape), list(jmp.shape)]))
            continue
        if dates != [k * dt for k in range(n_int + 1)]:
            report(res, "TimeGrid of the product is not the equally spaced grid of its dates", dict(ctx, dates=dates))
        sq = [float(v) for v in np.sqrt(np.diff(times))]
        n = len(sq)
        wcols = [[used[k * n + j] for k in range(d)] for j in range(n)]
        jt = [float(np.float64(dates[k]) + np.float64(o)) for k, u_ in enumerate(uniforms) for o in sorted(np.float64(dt) * np.float64(u) for u in u_)]
        if coupled:
            dm_f = [[float(v) for v in row] for row in np.asarray(top._diffusion_matrix_h, dtype=float)]
            dm_c = [[float(v) for v in row] for row in np.asarray(top._diffusion_matrix_2h, dtype=float)]
            parts = [("fine", 0, fsizes, dm_f), ("coarse", 1, csizes, dm_c)]
        else:
            dm = [[float(v) for v in row] for row in np.asarray(top._path_simulation.diffusion_matrix, dtype=float)]
            parts = [("path", None, fsizes, dm)]
        exact = True
        for name_, idx, sizes, dm_ in parts:
            de = nd_diffusion_expect(dm_, sq, wcols)
            a_d, a_j = (dif[idx], jmp[idx]) if coupled else (dif, jmp)
            nd_oracle(res, f"{what} {name_}", d, times, a_d, a_j, T, jt, sizes, eps, mode, ctx, de)
            exact &= [[F(v) for v in c] for c in nd_columns(a_d)] == de
        exact_sq = all(F(s_) ** 2 == F(b) - F(a) for s_, a, b in zip(sq, times, times[1:]))
        tol = Fraction(0) if exact else TOL
        res.count(("nd", coupled, d, mode, n_int, dt, eps, repr(counts), repr(uniforms), repr(raw), repr(csizes)), nontrivial=sum(counts) >= 1,
                  kind=f"{'coupled ' if coupled else ''}copula d={d} {mode} (n-d model)")
        res.bump("nd_counts_shape", "no jump" if not sum(counts) else ("non-ragged multi-interval" if n_int >= 2 and len(set(counts)) == 1 else
                                                                       ("single interval" if n_int == 1 else "ragged multi-interval")))
        res.bump("nd_dimension", d)
        res.bump("nd_diffusion_compare", "exact" if exact else "tolerance 1e-12")
        if real_cs:
            res.bump("nd_coupling_state", "real (recorded)")
        elif coupled:
            res.bump("nd_coupling_state", "scripted")
        ql = lambda xs: lst([qlit(v) for v in xs])    # noqa
        cap = "None" if eps is None else f"(Some {qlit(eps)})"
        ivl = lambda sizes: lst([vl(r) for r in sizes])    # noqa
        if not coupled:
            if mode == "fixed":
                kf.append(f"({d}%nat, {vl(dm)}, {ql(sq)}, {vl(wcols)}, {ivl(fsizes)}, {qlit(tol)}, {vl(nd_columns(dif))}, {vl(nd_columns(jmp))})")
            else:
                kj.append(f"({d}%nat, {cap}, {qlit(T)}, {ql(dates)}, {lst([ql(u) for u in uniforms])}, {ivl(fsizes)}, {vl(dm)}, {ql(sq)}, {vl(wcols)}, {qlit(tol)}, "
                          f"{ql(times)}, {vl(nd_columns(dif))}, {vl(nd_columns(jmp))})")
        else:
            outs = f"{vl(nd_columns(dif[0]))}, {vl(nd_columns(jmp[0]))}, {vl(nd_columns(dif[1]))}, {vl(nd_columns(jmp[1]))}"
            if mode == "fixed":
                cf.append(f"({d}%nat, {vl(dm_f)}, {vl(dm_c)}, {ql(sq)}, {vl(wcols)}, {ivl(fsizes)}, {ivl(csizes)}, {qlit(tol)}, {outs})")
            else:
                cj.append(f"({d}%nat, {cap}, {qlit(T)}, {ql(dates)}, {lst([ql(u) for u in uniforms])}, {ivl(fsizes)}, {ivl(csizes)}, {vl(dm_f)}, {vl(dm_c)}, "
                          f"{ql(sq)}, {vl(wcols)}, {qlit(tol)}, {ql(times)}, {outs})")
    return kf, kj, cf, cj


ND_HEADER = """From Coq Require Import ZArith QArith Qabs List Bool.
From RV Require Import Base.QB Base.Corr Model.Paths Model.PathsNd.
Import ListNotations.
Open Scope Q_scope.
Definition qeq (a b : list Q) : bool := qlist_eqb a b.
Definition veq (a b : list vec) : bool := list_eqb qlist_eqb a b.
Definition LV := list vec.
Definition ndk_fixed_check (c : nat * LV * list Q * LV * list LV * Q * LV * LV) : bool :=
  match c with (d, dm, sq, ws, ivs, tol, ed, ej) =>
    vlist_tol_eqb tol (nd_diffusion_path d dm sq ws) ed && veq (nd_fixed_jump_path d ivs) ej end.
Definition ndk_jump_check (c : nat * option Q * Q * list Q * list (list Q) * list LV * LV * list Q * LV * Q * list Q * LV * LV) : bool :=
  match c with (d, cap, T, dates, us, incs, dm, sq, ws, tol, et, ed, ej) =>
    let p := nd_jump_path d cap 200 T (real_jump_times dates us) incs in
    qeq (fst p) et && veq (snd p) ej && vlist_tol_eqb tol (nd_diffusion_path d dm sq ws) ed end.
Definition ndc_fixed_check (c : nat * LV * LV * list Q * LV * list LV * list LV * Q * LV * LV * LV * LV) : bool :=
  match c with (d, dmf, dmc, sq, ws, fi, ci, tol, fd, fj, cd, cj) =>
    let p := nd_coupled_fixed_jump_paths d fi ci in
    vlist_tol_eqb tol (nd_diffusion_path d dmf sq ws) fd && vlist_tol_eqb tol (nd_diffusion_path d dmc sq ws) cd
    && veq (fst p) fj && veq (snd p) cj end.
Definition ndc_jump_check (c : nat * option Q * Q * list Q * list (list Q) * list LV * list LV * LV * LV * list Q * LV * Q * list Q * LV * LV * LV * LV) : bool :=
  match c with (d, cap, T, dates, us, fi, ci, dmf, dmc, sq, ws, tol, et, fd, fj, cd, cj) =>
    let '(t, f, co) := nd_coupled_jump_path d cap 200 T (real_jump_times dates us) fi ci in
    qeq t et && veq f fj && veq co cj
    && vlist_tol_eqb tol (nd_diffusion_path d dmf sq ws) fd && vlist_tol_eqb tol (nd_diffusion_path d dmc sq ws) cd end.
"""

ND_TYPES = {
    "ndk_fixed": "nat * LV * list Q * LV * list LV * Q * LV * LV",
    "ndk_jump": "nat * option Q * Q * list Q * list (list Q) * list LV * LV * list Q * LV * Q * list Q * LV * LV",
    "ndc_fixed": "nat * LV * LV * list Q * LV * list LV * list LV * Q * LV * LV * LV * LV",
    "ndc_jump": "nat * option Q * Q * list Q * list (list Q) * list LV * list LV * LV * LV * list Q * LV * Q * list Q * LV * LV * LV * LV",
}


HEADER = """From Coq Require Import ZArith QArith Qabs List Bool.
From RV Require Import Base.QB Base.Corr Model.Paths.
Import ListNotations.
Open Scope Q_scope.
Definition qeq (a b : list Q) : bool := qlist_eqb a b.
Definition fixed_check (c : bool * list Q * Q * list Q * list (list Q) * Q * list Q * list Q) : bool :=
  match c with (chain, sq, sigma, ws, ivs, tol, ed, ej) =>
    let p := fixed_path chain sq sigma ws ivs in qlist_tol_eqb tol (fst p) ed && qeq (snd p) ej end.
Definition jump_check (c : bool * option Q * Q * list Q * list (list Q) * list (list Q) * list Q * Q * list Q * Q * list Q * list Q * list Q) : bool :=
  match c with (chain, cap, T, tms, offs, incs, sq, sigma, ws, tol, et, ed, ej) =>
    let p := jump_path chain cap 200 T tms offs incs in
    qeq (fst p) et && qeq (snd p) ej && qlist_tol_eqb tol (diffusion_path sq sigma ws) ed end.
Definition cfixed_check (c : list Q * Q * Q * list Q * list (list Q) * list (list Q) * Q * list Q * list Q * list Q * list Q) : bool :=
  match c with (sq, sf, sc, ws, fi, ci, tol, fd, fj, cd, cj) =>
    qlist_tol_eqb tol (diffusion_path sq sf ws) fd && qlist_tol_eqb tol (diffusion_path sq sc ws) cd
    && qeq (mc_fixed_jump_path fi) fj && qeq (mc_fixed_jump_path ci) cj end.
Definition cjump_check (c : option Q * Q * list Q * list (list Q) * list (list Q) * list (list Q) * list Q * Q * Q * list Q * Q
                            * list Q * list Q * list Q * list Q * list Q) : bool :=
  match c with (cap, T, tms, offs, fi, ci, sq, sf, sc, ws, tol, et, fd, fj, cd, cj) =>
    let '(t, f, co) := coupled_jump_path cap 200 T tms offs fi ci in
    qeq t et && qeq f fj && qeq co cj
    && qlist_tol_eqb tol (diffusion_path sq sf ws) fd && qlist_tol_eqb tol (diffusion_path sq sc ws) cd end.
Definition finer1_check (c : Q * Q * list Q * list Q * list Q * list Q) : bool :=
  match c with (eps, T, times, vals, et, ev) =>
    let r := build_finer_grid 0 200 eps T times vals in qeq (fst r) et && qeq (snd r) ev end.
Definition finerd_check (c : nat * Q * Q * list Q * list (list Q) * list Q * list (list Q)) : bool :=
  match c with (d, eps, T, times, cols, et, ecols) =>
    let r := build_finer_grid (repeat 0 d) 200 eps T times cols in qeq (fst r) et && list_eqb qlist_eqb (snd r) ecols end.
Definition finerc_check (c : Q * Q * list Q * list Q * list Q * list Q * list Q * list Q) : bool :=
  match c with (eps, T, times, fine, coarse, et, ef, ec) =>
    let '(t, f, co) := coupled_finer_grid 200 eps T times fine coarse in qeq t et && qeq f ef && qeq co ec end.
"""


def correspond(res):
    import warnings
    warnings.simplefilter("ignore")
    rng = random.Random(res.seed)
    tier = res.tier
    f1, fd, fc = finer_grid_cases(res, rng, tier)
    finer_grid_nondyadic(res, rng, tier)
    fixed, jump = single_process_cases(res, rng, tier)
    cfixed, cjump = coupled_cases(res, rng, tier)
    kfixed, kjump = copula_cases(res, rng, tier)
    fixed, jump = fixed + kfixed, jump + kjump
    ccf, ccj = coupled_copula_cases(res, rng, tier)
    cfixed, cjump = cfixed + ccf, cjump + ccj
    copula_fixed_dates_replay(res)
    nd = dict(zip(("ndk_fixed", "ndk_jump", "ndc_fixed", "ndc_jump"), nd_cases(res, random.Random(res.seed + 5), tier)))
    real_times_oracle(res, rng, tier)
    precomputation_sequence_oracle(res, rng, tier)
    retained_paths_oracle(res, random.Random(res.seed + 7), tier)
    groups = [
        ("finer1", "Q * Q * list Q * list Q * list Q * list Q", "finer1_check", f1),
        ("finerd", "nat * Q * Q * list Q * list (list Q) * list Q * list (list Q)", "finerd_check", fd),
        ("finerc", "Q * Q * list Q * list Q * list Q * list Q * list Q * list Q", "finerc_check", fc),
        ("fixed", "bool * list Q * Q * list Q * list (list Q) * Q * list Q * list Q", "fixed_check", fixed),
        ("jump", "bool * option Q * Q * list Q * list (list Q) * list (list Q) * list Q * Q * list Q * Q * list Q * list Q * list Q", "jump_check", jump),
        ("cfixed", "list Q * Q * Q * list Q * list (list Q) * list (list Q) * Q * list Q * list Q * list Q * list Q", "cfixed_check", cfixed),
        ("cjump", "option Q * Q * list Q * list (list Q) * list (list Q) * list (list Q) * list Q * Q * Q * list Q * Q * list Q * list Q * list Q * list Q * list Q",
         "cjump_check", cjump),
    ]
    groups = [g + (HEADER,) for g in groups] + [(name, ND_TYPES[name], name + "_check", cases, ND_HEADER) for name, cases in nd.items()]
    res.case_lemmas += len(groups)
    empty = [g[0] for g in groups if not g[3]]
    if empty:
        res.broke("correspondence", "no cases could be produced for: " + ", ".join(empty))
    groups = [g for g in groups if g[3]]
    from concurrent.futures import ThreadPoolExecutor

    def work(g):
        return g, coq_bad_indices(PROP, f"cases_{g[0]}", g[4], [g[:4]], timeout=600)[g[0]]

    with ThreadPoolExecutor(max_workers=8) as ex:
        for (g, ty, chk, cs, _hdr), bad in ex.map(work, groups):
            if bad:
                res.broke(f"correspondence {g}", f"model and implementation differ on {len(bad)} of {len(cs)} case(s), first: {cs[bad[0]][:2500]}")
            else:
                res.case_ok += 1


def replay(path):
    data = json.load(open(path))
    print(json.dumps(data, indent=1)[:5000])
    kind = data.get("kind")
    if kind == "copula-project":
        class R:  # minimal Result stand-in
            def __init__(self): self.v = []
            def count(self, *a, **k): pass
            def violation(self, w, r): self.v.append(w)
        r = R()
        copula_fixed_dates_replay(r)
        print("violations:", r.v)
        return 1 if r.v else 0
    if kind == "finer":
        import numpy as np
        from rpylib.process.levyprocess import SimulationMaximumStep
        from rpylib.process.coupling.helper import create_build_finer_grid_fun
        eps, T = data["eps"], data["maturity"]
        if data["copy"].startswith("helper"):
            out = create_build_finer_grid_fun(eps, T)(None, np.array(data["times"]), np.array(data["values"][0]), np.array(data["values"][1]))
        else:
            vals = data["values"][0] if data["copy"].endswith("1-d") else data["values"]
            out = SimulationMaximumStep.create_build_finer_grid_fun(eps, T)(None, np.array(data["times"]), np.array(vals))
        print("build_finer_grid ->", [np.asarray(o).tolist() for o in out])
        gaps = np.diff(np.asarray(out[0]), prepend=0)
        return 1 if eps < T and gaps.max() > eps else 0
    print("replay: re-run ./check C15 to re-evaluate this class of input (the scripted process is rebuilt from the seed)")
    return 1


LEVEL_TEXT = ("Proof: 13 Coq theorems (closed under the global context) about list models of the path builders: with fixed product dates the "
              "jump part at each date is the sum of all increments of the intervals so far, each date-to-date increment uses that "
              "interval's variates only, the diffusion part is the running sum of the scaled normals (any number of dates/jumps); with "
              "jump times the times start at 0, end at the maturity and are strictly increasing, values are running sums - also for the "
              "Markov-chain simulators over any number of product dates - and the last value is repeated at maturity; build_finer_grid "
              "(both copies, any value type) terminates within max gap/eps passes, leaves every gap <= eps, keeps the original points in "
              "order, inserts only points repeating the preceding value, refines fine and coarse at the same positions; the path the "
              "max-step simulators return has EVERY step <= eps, the step to the maturity and jump-free paths included. Wave 5: a d-dimensional "
              "model (Model/PathsNd.v) of the Levy-copula simulators of markovchainlevycopula.py and couplinglevycopula.py (fixed dates, jump "
              "times, max step; fine and coarse; matrix diffusion): for every d and component k < d the fixed-date values are running sums of "
              "the interval totals, the jump-time values running sums over any number of product intervals, the whole copula / coupled copula "
              "path projects component by component onto the 1-d model on the same times with equally many fine and coarse columns, the coupled "
              "max-step path has every step <= eps, the diffusion is the running sum of sqrt(dt) (matrix row . normals of the step); and the real "
              "jump_times_from_nb_of_jumps turns distinct uniforms in (0,1) into strictly increasing offsets inside the interval. Tied to the source "
              "by driving real LevyProcess / MarkovChainProcess / MarkovChainLevyCopula / CouplingMarkovChain / CouplingProcessLevyCopula objects "
              "(d = 1, 2, 3) through simulate_one_path / simulate_one_path_with_coupling with scripted variates against the models (exact on dyadic "
              "scripts), 1-12 product dates, non-ragged and ragged jump counts, real TimeGrid and jump_times_from_nb_of_jumps. The model follows "
              "/repo HEAD (fixes F-C15-1..4, 6..8). Float rounding of build_finer_grid on non-dyadic inputs is the known finding F-C15-5.")
LEVEL_NOTE = ("Trusted: Coq kernel + vm_compute; floats as rationals (dyadic scripts exact; sqrt of the steps fed as data, diffusion within 1e-12 "
              "when a sqrt is inexact); numpy insert/cumsum/diff/flatnonzero modelled by list functions and pinned by the correspondence; the "
              "randomness sources are scripted at nb_jump_dt / jump_times_from_nb_of_jumps / the state sampler / np.random.normal / "
              "coupling_state (the n-d cases run jump_times_from_nb_of_jumps, TimeGrid and partly __coupling_state unpatched); the diffusion matrix "
              "(scipy sqrtm) is data. F-C15-5 (float rounding in build_finer_grid on non-dyadic inputs) is accepted only through matches_known.")
TECHNIQUE = "Coq proof (induction over interval/gap lists, an inductive refinement relation for build_finer_grid, projection of the d-dimensional model onto its components) on hand models + vm_compute correspondence through simulate_one_path with scripted variates"

"""C16 -- the SDE scheme is the Euler scheme of its driver; rate models discount sanely:
correspondence (model vs implementation, vm_compute) + implementation-only oracle."""
import json
import random
from fractions import Fraction

from common import qlit, lst, coq_bad_indices

PROP = "C16"
PROPERTY_FILE = "Properties/C16.v"
GEN_DEPS = ["GenC16Rates"]
RULE = ("cases: real MarkovChainSDE / CouplingSDE objects over dyadic step-measure drivers (1-d chain and 2-d Levy-copula chain), "
        "coefficient functions Constant and DiagX, x0 dyadic, scripted driver paths of 1-8 steps with dyadic times/jumps/diffusion "
        "(plus paths really simulated by the driver and recorded), coupling levels 1-3; df of LevyForwardModel and LevyLiborModel on "
        "dyadic tenors/rates over a dyadic mesh incl. the tenors themselves and tenor +- 2^-20; non-trivial = path with >= 2 steps "
        "and a non-zero jump, df time beyond the first tenor")
MODELLED = ["MarkovChainSDE.simulate_one_path / CouplingSDE.simulate_one_path_with_coupling loops and CouplingSDE.next_level drift "
            "bookkeeping (hand model Model/Euler.v over Q lists, tied by vm_compute correspondence on real objects)",
            "numpy matmul/broadcast/cumsum/diff modelled by list functions of Base/QVec.v (shape errors not modelled)",
            "np.searchsorted modelled as the number of leading entries < t (equal on sorted tenors); np.prod as a left fold",
            "coefficient and sde drift: arbitrary functions of (t, x) in the theorems; in the correspondence Constant, DiagX and the "
            "harness-defined time-dependent a(t,x) = (1+t) base(t,x), b(t,x) = beta t x (exact); the real Libor / forward-market sigma(t) x "
            "coefficient and quadrature drift are checked by an implementation-only left-point Euler oracle (tolerance 1e-12), not modelled in Coq",
            "epsilon = h ** Blumenthal-Getoor index: the value stored in the SDE process and in the driver's max-step simulators is "
            "checked by the oracle at every level (C15 covers what the cap then does)"]
ASSUMPTIONS = ["floats are modelled by exact rationals: exact comparison on dyadic inputs whose Euler recursion stays within 53 bits "
               "(checked by recomputation in Fractions), absolute tolerance 1e-9 otherwise; df: tolerance 2^-45",
               "df theorems: tenors strictly increasing, first tenor >= 0, rates >= 0, 0 <= t <= last tenor",
               "the driver path consumed by the scheme is the one returned by the driver's simulate_one_path(_with_coupling)"]
THEOREM_NOTES = {
    "C16_euler_step": "for every a, b, mu, x0 and any number of steps; a and b are evaluated at the scheme's own state Z_i, which is proved equal to x0 + the returned paths",
    "C16_constant_a": "Y_T as sums of the increments, and for steps_of (times, J, W) these sums are proved equal to the driver's end minus start values",
    "C16_coupled": "ceuler_st models the ONE call a(t, zi) on the stacked (2,m,1) state with an explicit Shared/Stacked result (matmul "
                   "broadcasting); numpy shape errors (the former F-C16-2) cannot be expressed in the list model and are covered by the "
                   "correspondence on real objects; drift bookkeeping over next_level as a fold, checked on the object at 4 successive levels",
    "C16_df_continuous": "Lipschitz bounds on [0,T_0] and on each closed period [T_j,T_{j+1}] (hence left limit = value = right limit at every tenor)",
    "C16_df_negative_rate_refuted": "F-C16-5: rates >= 0 (1 + rate * accrual > 0) is a real hypothesis: tenors 1,2, rate -5/4 give df(1) = -4",
    "C16_df_*": "about the repaired tree (fix commit 'rate-model discount factor compounds ...'); on the unrepaired tree the oracle reports F-C16-1",
}

TOL_INEXACT = Fraction(1, 10 ** 9)
TOL_DF = Fraction(1, 2 ** 45)


def F(x):
    return Fraction(float(x))


def dy(rng, lo, hi, den):
    return rng.randrange(int(lo * den), int(hi * den) + 1) / den


# ----------------------------------------------------------------------------- building real processes
def step_driver(rng, d, infinite_variation=False):
    """dyadic step-measure driver (1-d StepModel or a copula of d of them) and a grid of step 1/4.
    The density is positive around 0, asymmetric, and has breaks (at +-5/64) that are not cell boundaries down to h = 1/32, so the
    chain's drift (mu_h: state x cell mass, leaving out (-h/2, h/2)) CHANGES when the grid is refined; with the
    infinite-variation flag the equivalent diffusion coefficient changes with h as well."""
    from stepmeasure import StepMeasure, StepModel, make_grid, step_spec, build_copula_model
    Fr = Fraction
    h = Fr(1, 4)
    n_side = rng.choice([3, 4])
    axis = [h * k for k in range(-n_side, n_side + 1)]
    el, cl, cr, er = rng.sample(range(1, 9), 4)            # four different densities
    dens = [Fr(3 * el, 4), Fr(3 * cl, 4), Fr(3 * cr, 4), Fr(3 * er, 4)]
    breaks = [-h * n_side, Fr(-5, 64), Fr(0), Fr(5, 64), h * n_side]
    a, sigma = dy(rng, -1, 1, 4), dy(rng, 0, 1, 4)
    if d == 1:
        model = StepModel(StepMeasure(breaks, dens, strict=False, finite_variation=not infinite_variation), a=a, sigma=sigma)
    else:
        specs = [step_spec(StepMeasure(breaks, dens, strict=False), a=a, sigma=sigma) for _ in range(d)]
        model = build_copula_model(specs, "independent")
    return model, (lambda: make_grid(axis, n_side, h, dimension=d))


def make_a(kind, m, d, c, tdep=False):
    """Constant / DiagX, or (tdep) the harness-defined time-dependent coefficient a(t, x) = (1 + t) * base(t, x)
    (a subclass of rpylib's SDEFunction plugged into the model's `a` slot)"""
    from rpylib.model.levydrivensde.levydrivensde import Constant, DiagX, SDEFunction
    base = Constant(m=m, d=d, constant=c) if kind == "const" else DiagX(dimension=m)
    if not tdep:
        return base

    class TimeScaled(SDEFunction):
        def __init__(self):
            super().__init__(m=base.shape[0], d=base.shape[1])

        def __call__(self, t, x):
            return (1.0 + t) * base(t, x)

    return TimeScaled()


def make_model(driver, x0, a, beta=0.0):
    """LevyDrivenSDEModel; with beta != 0 a subclass whose sde drift depends on time: b(t, x) = beta * t * x"""
    import numpy as np
    from rpylib.model.levydrivensde.levydrivensde import LevyDrivenSDEModel
    x0v = np.array(x0) if len(x0) > 1 else x0[0]
    if not beta:
        return LevyDrivenSDEModel(driver=driver, x0=x0v, a=a)

    class TimeDriftModel(LevyDrivenSDEModel):
        def drift(self, t=0, x=0):
            return beta * t * x

    return TimeDriftModel(driver=driver, x0=x0v, a=a)


def sampling_method(d):
    from rpylib.distribution.sampling import SamplingMethod
    return SamplingMethod.BINARYSEARCHTREEADAPTED1D if d == 1 else SamplingMethod.BINARYSEARCHTREEADAPTED


def the_product():
    from rpylib.product.product import Product
    from rpylib.product.payoff import Forward
    from rpylib.product.underlying import Spot
    return Product(Spot(), Forward(0.0), maturity=1.0)


def gen_path(rng, d, coupled, nsteps):
    """dyadic driver path: times (n), jump rows, diffusion rows; coupled -> fine and coarse rows"""
    n = nsteps + 1
    cuts = sorted(rng.sample(range(1, 32), n - 2)) if n > 2 else []
    times = [0.0] + [k / 32 for k in cuts] + [1.0]

    def rows():
        out = []
        for _ in range(d):
            x, r = 0.0, [0.0]
            for _ in range(n - 1):
                x += rng.choice([0.0, dy(rng, -1, 1, 8)])
                r.append(x)
            out.append(r)
        return out

    def drows():
        return [[0.0] + [dy(rng, -1, 1, 16) for _ in range(n - 1)] for _ in range(d)]

    if coupled:
        return times, (rows(), rows()), (drows(), drows())
    return times, rows(), drows()


# ----------------------------------------------------------------------------- independent Euler recursion (oracle)
def euler_fraction(kind, A, mu, x0, times, jrows, drows, tdep=False, beta=0.0):
    """X_{i+1} = X_i + (b(t_i,X_i) + a(t_i,X_i) mu) dt_i + a(t_i,X_i) (dW_i + dL_i) in exact arithmetic, with the coefficient and
    the drift evaluated at the LEFT point t_i;  a = base or (1+t) base,  b = beta t x.
    Returns (states, drift path, diffusion path, jump path, dY increments, every intermediate value the float code forms)"""
    m, d = len(x0), len(mu)
    x = [F(v) for v in x0]
    mu = [F(v) for v in mu]
    X, D, W, J = [list(x)], [[Fraction(0)] * m], [[Fraction(0)] * m], [[Fraction(0)] * m]
    dYs, inter = [], []
    for i in range(len(times) - 1):
        t = F(times[i])
        dt = F(times[i + 1]) - t
        dL = [F(r[i + 1]) - F(r[i]) for r in jrows]
        dW = [F(r[i + 1]) - F(r[i]) for r in drows]
        if kind == "const":
            a = [[F(A)] * d for _ in range(m)]
        else:
            a = [[x[k] if j == k else Fraction(0) for j in range(d)] for k in range(m)]
        if tdep:
            a = [[(1 + t) * v for v in row] for row in a]
            inter += [v for row in a for v in row]
        bt = F(beta) * t
        b = [bt * x[k] for k in range(m)]
        inter += [bt] + b

        def matvec(v):
            out = []
            for k in range(m):
                acc = Fraction(0)
                for j in range(d):
                    pr = a[k][j] * v[j]
                    acc += pr
                    inter.extend([pr, acc])
                out.append(acc)
            return out
        amu, adW, adL = matvec(mu), matvec(dW), matvec(dL)
        ddt = [(b[k] + amu[k]) * dt for k in range(m)]
        inter += [b[k] + amu[k] for k in range(m)] + ddt + [ddt[k] + adL[k] for k in range(m)] + [ddt[k] + adL[k] + adW[k] for k in range(m)]
        x = [x[k] + ddt[k] + adL[k] + adW[k] for k in range(m)]
        X.append(list(x))
        D.append([D[-1][k] + ddt[k] for k in range(m)])
        W.append([W[-1][k] + adW[k] for k in range(m)])
        J.append([J[-1][k] + adL[k] for k in range(m)])
        dYs.append([mu[j] * dt + dL[j] + dW[j] for j in range(d)])
    return X, D, W, J, dYs, inter


def all_doubles(vals, bits=50):
    for v in vals:
        d = v.denominator
        if d & (d - 1) or abs(v.numerator).bit_length() > bits:
            return False
    return True


def closed_form_violations(res, kind, A, mu, x0, times, jrows, drows, got_rows, ctx):
    """the IMPLEMENTATION's end value x0 + drift_T + diffusion_T + jump_T against the closed form computed from the driver path
    alone: x0 + a Y_T with Y_T = mu (t_n - t_0) + (L_n - L_0) + (W_n - W_0) (Constant), x0 prod_i (1 + dY_i) (DiagX)"""
    m, d = len(x0), len(mu)
    gD, gW, gJ = got_rows
    got = [F(x0[k]) + F(gD[k][-1]) + F(gW[k][-1]) + F(gJ[k][-1]) for k in range(m)]
    muq = [F(v) for v in mu]
    if kind == "const":
        T = F(times[-1]) - F(times[0])
        YT = [muq[j] * T + (F(jrows[j][-1]) - F(jrows[j][0])) + (F(drows[j][-1]) - F(drows[j][0])) for j in range(d)]
        want = [F(x0[k]) + sum(F(A) * YT[j] for j in range(d)) for k in range(m)]
    else:
        want = []
        for k in range(m):
            p = F(x0[k])
            for i in range(len(times) - 1):
                dt = F(times[i + 1]) - F(times[i])
                p *= 1 + muq[k] * dt + (F(jrows[k][i + 1]) - F(jrows[k][i])) + (F(drows[k][i + 1]) - F(drows[k][i]))
            want.append(p)
    if any(abs(g - w) > TOL_INEXACT * max(1, abs(w)) for g, w in zip(got, want)):
        res.violation("the simulated end value is not the closed form (x0 + a Y_T, resp. x0 prod(1+dY)) of the consumed driver path",
                      dict(ctx, closed_form=want, simulated=got))


def mat_lit(rows):
    return lst([lst([qlit(v) for v in r]) for r in rows])


def rows_of(arr):
    """numpy (m, n) array -> list of m rows of floats"""
    import numpy as np
    a = np.asarray(arr, dtype=float)
    return [[float(v) for v in r] for r in a]


def compare_paths(res, what, got_rows, want_cols, tol, ctx):
    """got: m rows x n (implementation); want: n time points of m-vectors (oracle, Fractions)"""
    m = len(got_rows)
    for k in range(m):
        for i, col in enumerate(want_cols):
            if abs(F(got_rows[k][i]) - col[k]) > tol:
                res.violation(f"{what}: the returned path is not the Euler scheme of the consumed driver path",
                              dict(ctx, component=k, index=i, got=got_rows[k][i], want=col[k]))
                return False
    return True


# ----------------------------------------------------------------------------- single process
def single_cases(res, rng, tier):
    import numpy as np
    from rpylib.model.levydrivensde.levydrivensde import LevyDrivenSDEModel
    from rpylib.process.markovchain.markovchainsde import MarkovChainSDE
    from rpylib.montecarlo.path import StochasticJumpPath
    cases = []
    n_proc = 12 if tier == "quick" else 60
    for ip in range(n_proc):
        d = 1 if ip % 3 else 2
        kind = "diag" if ip % 2 else "const"
        m = d if kind == "diag" else rng.choice([1, 2, 3])
        driver, mkgrid = step_driver(rng, d)
        c = dy(rng, -2, 2, 4) or 1.0
        x0 = [dy(rng, 0.5, 3, 4) for _ in range(m)]
        if ip % 3 == 1:
            x0 = [rng.randrange(1, 4) for _ in range(m)]      # INTEGER initial value (Python int / integer array)
        tdep = ip % 4 >= 2                       # time-dependent coefficient (1+t)*a and drift beta*t*x
        beta = dy(rng, -1, 1, 4) if tdep else 0.0
        ctx0 = {"kind": "single", "a": kind, "m": m, "d": d, "c": c, "x0": x0, "time_dependent": tdep, "beta": beta}
        try:
            model = make_model(driver, x0, make_a(kind, m, d, c, tdep), beta)
            proc = MarkovChainSDE(model, sampling_method(d), mkgrid())
            proc.initialisation(the_product())
            mu = [float(v) for v in np.atleast_1d(np.asarray(proc.markov_chain.process_drift(), dtype=float)).flatten()]
            eps_want = float(proc.markov_chain.grid.h) ** float(driver.blumenthal_getoor_index())
            eps_drv = getattr(proc.markov_chain._path_simulation, "epsilon", None)
            if proc.epsilon != eps_want or eps_drv != eps_want:
                res.violation("MarkovChainSDE: the maximum time step handed to the driver is not h ** (Blumenthal-Getoor index)",
                              dict(ctx0, h=float(proc.markov_chain.grid.h), epsilon=proc.epsilon, driver_epsilon=eps_drv, expected=eps_want))
        except Exception as e:  # noqa
            res.violation(f"MarkovChainSDE cannot be built/initialised: {type(e).__name__}", dict(ctx0, error=str(e)))
            continue
        for ic in range(12 if tier == "quick" else 40):
            recorded = ic == 0
            if recorded:   # the driver's own simulation, recorded (np.random seeded from the run's seed)
                np.random.seed(rng.randrange(2 ** 31))
                proc.pre_computation(mc_paths=1, product=the_product())
                orig = type(proc.markov_chain).simulate_one_path
                box = {}

                def rec(orig=orig, box=box):
                    box["p"] = orig(proc.markov_chain)
                    return box["p"]
                proc.markov_chain.simulate_one_path = rec
            else:
                times, jrows, drows = gen_path(rng, d, False, rng.randrange(1, 9))
                jp = np.array(jrows if d > 1 else jrows[0])
                dp = np.array(drows if d > 1 else drows[0])
                proc.markov_chain.simulate_one_path = (lambda t=np.array(times), dp=dp, jp=jp: StochasticJumpPath(t, dp.copy(), jp.copy()))
            ctx = dict(ctx0, mu=mu)
            try:
                sp = proc.simulate_one_path()
            except Exception as e:  # noqa
                rp = dict(ctx, error=f"{type(e).__name__}: {e}")
                integer_x0 = all(isinstance(v, int) for v in x0)
                if "UFuncTypeError" in rp["error"] and integer_x0:
                    rp["finding"] = "F-C16-3"
                elif kind == "diag":
                    rp["finding"] = "F-C16-2"
                res.violation("MarkovChainSDE.simulate_one_path raises" + (" for an integer x0" if rp.get("finding") == "F-C16-3" else (" with a(x) = diag(x)" if kind == "diag" else "")), rp)
                break
            if recorded:
                p = box["p"]
                times = [float(t) for t in p.jump_times]
                jrows = rows_of(np.atleast_2d(p.jump_path))
                drows = rows_of(np.atleast_2d(p.diffusion_path))
                del proc.markov_chain.simulate_one_path
            ctx.update(times=times, jump_rows=jrows, diffusion_rows=drows)
            X, D, W, J, dYs, inter = euler_fraction(kind, c, mu, x0, times, jrows, drows, tdep, beta)
            exact = (not recorded) and all_doubles([v for col in X + D + W + J for v in col] + inter)
            tol = Fraction(0) if exact else TOL_INEXACT
            gD, gW, gJ = rows_of(sp.drift), rows_of(sp.diffusion_path), rows_of(sp.jump_path)
            nontriv = len(times) > 2 and any(v != 0 for r in jrows for v in r)
            res.count(("single", kind, tdep, beta, m, d, tuple(times), repr(jrows), repr(drows), tuple(x0)), nontrivial=nontriv,
                      kind=f"single {kind}{' time-dependent' if tdep else ''} d={d}")
            res.bump("single_steps", len(times) - 1)
            res.bump("single_source", "recorded driver simulation" if recorded else ("scripted exact" if exact else "scripted tolerance"))
            ok = (compare_paths(res, "MarkovChainSDE", gD, D, tol, ctx) and compare_paths(res, "MarkovChainSDE", gW, W, tol, ctx)
                  and compare_paths(res, "MarkovChainSDE", gJ, J, tol, ctx))
            val = rows_of(sp.value())
            # value() = drift + (diffusion + jump) adds three exact doubles: the sum itself may need rounding
            if ok and not compare_paths(res, "MarkovChainSDE value()", val, [[X[i][k] - F(x0[k]) for k in range(m)] for i in range(len(X))], TOL_INEXACT, ctx):
                ok = False
            if list(map(float, sp.jump_times)) != times:
                res.violation("MarkovChainSDE does not return the driver's own time grid", dict(ctx, got_times=list(map(float, sp.jump_times))))
            if not tdep:
                closed_form_violations(res, kind, c, mu, x0, times, jrows, drows, (gD, gW, gJ), ctx)
            A = "None" if kind == "diag" else f"(Some {mat_lit([[c] * d for _ in range(m)])})"
            cases.append(f"({'true' if tdep else 'false'}, {qlit(beta)}, {A}, {lst([qlit(v) for v in mu])}, {lst([qlit(v) for v in x0])}, {lst([qlit(t) for t in times])}, "
                         f"{mat_lit(jrows)}, {mat_lit(drows)}, {qlit(tol)}, ({mat_lit(gD)}, {mat_lit(gW)}, {mat_lit(gJ)}))")
    return cases


# ----------------------------------------------------------------------------- coupled process
def coupled_cases(res, rng, tier):
    import numpy as np
    from rpylib.model.levydrivensde.levydrivensde import LevyDrivenSDEModel
    from rpylib.process.coupling.couplingsde import CouplingSDE
    from rpylib.montecarlo.path import StochasticJumpPath, MLMCPath
    cases = []
    n_proc = 8 if tier == "quick" else 32
    for ip in range(n_proc):
        d = 2 if ip % 3 == 2 else 1
        kind = "diag" if ip % 2 else "const"
        m = d if kind == "diag" else rng.choice([1, 2])
        infvar = d == 1 and ip % 2 == 0
        driver, mkgrid = step_driver(rng, d, infinite_variation=infvar)
        c = dy(rng, -2, 2, 4) or 1.0
        x0 = [dy(rng, 0.5, 3, 4) for _ in range(m)]
        if ip % 3 == 1:
            x0 = [rng.randrange(1, 4) for _ in range(m)]      # INTEGER initial value (Python int / integer array)
        tdep = ip % 4 >= 2
        beta = dy(rng, -1, 1, 4) if tdep else 0.0
        ctx0 = {"kind": "coupled", "infinite_variation_flag": infvar, "a": kind, "m": m, "d": d, "c": c, "x0": x0, "time_dependent": tdep, "beta": beta}
        try:
            model = make_model(driver, x0, make_a(kind, m, d, c, tdep), beta)
            cp = CouplingSDE(model, mkgrid(), sampling_method(d))
            prod = the_product()
            cp.initialisation(prod)
            pms = [MLMCPath(cp.fine_process.deterministic_path, False)]
        except Exception as e:  # noqa
            res.violation(f"CouplingSDE cannot be built/initialised: {type(e).__name__}", dict(ctx0, error=str(e)))
            continue
        flat = lambda v: [float(x) for x in np.atleast_1d(np.asarray(v, dtype=float)).flatten()]   # noqa
        drift_history = [flat(cp.mc_drift_h)]
        dcp = cp.driver_coupling_process
        diff_history = [float(dcp.equivalent_diffusion_coefficient_fine)] if d == 1 else None
        for level in range(1, (4 if d == 1 else 2) + 1):
            # observed BEFORE the call: the drift / diffusion coefficient of the chain that is about to become the coarse one
            prev_fine_drift = flat((cp.fine_process.markov_chain if level == 1 else dcp.fine_process).process_drift())
            try:
                cp.next_level(mc_paths=1, path_managers=pms, product=prod)
            except Exception as e:  # noqa
                res.violation(f"CouplingSDE.next_level raises {type(e).__name__}", dict(ctx0, level=level, error=str(e)))
                break
            mu_h, mu_2h = flat(cp.mc_drift_h), flat(cp.mc_drift_2h)
            fine_drift = flat(cp.driver_coupling_process.fine_process.process_drift())
            res.count(("levels", ip, level), nontrivial=True, kind="next_level drift bookkeeping")
            res.bump("fine_drift_changes_with_level", mu_h != drift_history[-1])
            if mu_2h != drift_history[-1] or mu_2h != prev_fine_drift or mu_h != fine_drift or cp.level != level:
                res.violation("CouplingSDE.next_level: mc_drift_2h is not the drift of the previous level's fine chain / mc_drift_h is not the fine driver's drift",
                              dict(ctx0, level=level, mc_drift_h=mu_h, mc_drift_2h=mu_2h, previous_level_mc_drift_h=drift_history[-1],
                                   previous_level_fine_chain_drift=prev_fine_drift, fine_driver_drift=fine_drift, drift_history=drift_history))
            drift_history.append(mu_h)
            eps_want = float(dcp.grid.h) ** float(driver.blumenthal_getoor_index())
            eps_drv = getattr(dcp._path_coupling_simulation, "epsilon", None)
            eps_fine = getattr(dcp.fine_process._path_simulation, "epsilon", None)
            res.bump("epsilon_vs_1", "eps < 1" if eps_want < 1 else "eps = 1 (index 0)")
            if cp.epsilon != eps_want or eps_drv != eps_want or eps_fine != eps_want:
                res.violation("CouplingSDE.next_level: the maximum time step handed to the coupled driver is not (refined h) ** (Blumenthal-Getoor index)",
                              dict(ctx0, level=level, h=float(dcp.grid.h), epsilon=cp.epsilon, coupling_epsilon=eps_drv, fine_epsilon=eps_fine, expected=eps_want))
            # the model and the oracle below are fed the coarse drift the HARNESS observed on the previous level (not the
            # object's own mc_drift_2h): the scheme must USE the previous level's fine drift for the coarse component
            mu_2h = drift_history[-2]
            if diff_history is not None:
                cf, cc = float(dcp.equivalent_diffusion_coefficient_fine), float(dcp.equivalent_diffusion_coefficient_coarse)
                res.bump("fine_diffusion_coefficient_changes_with_level", cf != diff_history[-1])
                if cc != diff_history[-1] or cf != float(dcp.fine_process.equivalent_diffusion_coefficient):
                    res.violation("coupled driver: the coarse diffusion coefficient is not the previous level's fine coefficient",
                                  dict(ctx0, level=level, coarse=cc, fine=cf, history=diff_history))
                diff_history.append(cf)
            for ic in range(6 if tier == "quick" else 20):
                recorded = ic == 0 and d == 1
                if recorded:
                    # the REAL coupled driver (CouplingMarkovChain of C03: sampler, coupling states, jump times, normals from numpy's
                    # generator seeded from the run's seed) simulates the path; it is recorded on its way into the scheme
                    np.random.seed(rng.randrange(2 ** 31))
                    dcp.__dict__.pop("simulate_one_path_with_coupling", None)
                    box, orig = {}, dcp.simulate_one_path_with_coupling

                    def rec(orig=orig, box=box):
                        box["p"] = orig()
                        return box["p"]
                    dcp.simulate_one_path_with_coupling = rec
                    try:
                        dcp.pre_computation(1, prod)
                        box["p"] = orig()
                        pth = box["p"]
                        dcp.simulate_one_path_with_coupling = (lambda pth=pth: pth)
                    except Exception as e:  # noqa
                        res.violation(f"the coupled driver cannot simulate a path: {type(e).__name__}", dict(ctx0, level=level, error=f"{type(e).__name__}: {e}"))
                        continue
                    times = [float(t) for t in pth.jump_times]
                    if len(times) > 24:          # long refined paths (small epsilon) make the exact-rational model slow: keep the first 24 points
                        keep = 24
                        pth = StochasticJumpPath(pth.jump_times[:keep], pth.diffusion_path[:, :keep], pth.jump_path[:, :keep])
                        dcp.simulate_one_path_with_coupling = (lambda pth=pth: pth)
                        times = times[:keep]
                    jf, jc = [[float(v) for v in pth.jump_path[0]]], [[float(v) for v in pth.jump_path[1]]]
                    df_, dc = [[float(v) for v in pth.diffusion_path[0]]], [[float(v) for v in pth.diffusion_path[1]]]
                    res.bump("coupled_source", "recorded real coupled driver")
                else:
                    times, (jf, jc), (df_, dc) = gen_path(rng, d, True, rng.randrange(1, 7))
                    if d == 1:
                        jp, dp = np.array([jf[0], jc[0]]), np.array([df_[0], dc[0]])
                    else:
                        jp, dp = np.array([jf, jc]), np.array([df_, dc])
                    cp.driver_coupling_process.simulate_one_path_with_coupling = (
                        lambda t=np.array(times), dp=dp, jp=jp: StochasticJumpPath(t, dp.copy(), jp.copy()))
                    res.bump("coupled_source", "scripted")
                ctx = dict(ctx0, level=level, mu_h=mu_h, mu_2h=mu_2h, times=times, jump_fine=jf, jump_coarse=jc, diff_fine=df_, diff_coarse=dc)
                try:
                    sp = cp.simulate_one_path_with_coupling()
                except Exception as e:  # noqa
                    rp = dict(ctx, error=f"{type(e).__name__}: {e}")
                    integer_x0 = all(isinstance(v, int) for v in x0)
                    if "UFuncTypeError" in rp["error"] and integer_x0:
                        rp["finding"] = "F-C16-3"
                    elif kind == "diag":
                        rp["finding"] = "F-C16-2"
                    res.violation("CouplingSDE.simulate_one_path_with_coupling raises" + (" for an integer x0" if rp.get("finding") == "F-C16-3" else (" with a(x) = diag(x)" if kind == "diag" else "")), rp)
                    break
                got = {}
                for name, arr in (("D", sp.drift), ("W", sp.diffusion_path), ("J", sp.jump_path)):
                    a3 = np.asarray(arr, dtype=float)
                    got[name] = (rows_of(a3[0]), rows_of(a3[1]))
                exact_all, ok = True, True
                for comp, (mu, jr, dr) in enumerate(((mu_h, jf, df_), (mu_2h, jc, dc))):
                    X, D, W, J, dYs, inter = euler_fraction(kind, c, mu, x0, times, jr, dr, tdep, beta)
                    exact = (not recorded) and all_doubles([v for col in X + D + W + J for v in col] + inter)
                    exact_all &= exact
                    tol = Fraction(0) if exact else TOL_INEXACT
                    who = "CouplingSDE " + ("fine" if comp == 0 else "coarse")
                    ok &= (compare_paths(res, who, got["D"][comp], D, tol, ctx) and compare_paths(res, who, got["W"][comp], W, tol, ctx)
                           and compare_paths(res, who, got["J"][comp], J, tol, ctx))
                    if not tdep:
                        closed_form_violations(res, kind, c, mu, x0, times, jr, dr, (got["D"][comp], got["W"][comp], got["J"][comp]),
                                               dict(ctx, component="fine" if comp == 0 else "coarse"))
                tol = Fraction(0) if exact_all else TOL_INEXACT
                res.count(("coupled", kind, tdep, beta, m, d, level, tuple(times), repr(jf), repr(jc), repr(df_), repr(dc), tuple(x0)),
                          nontrivial=len(times) > 2, kind=f"coupled {kind}{' time-dependent' if tdep else ''} d={d} level={level}")
                res.bump("coupled_steps", len(times) - 1)
                A = "None" if kind == "diag" else f"(Some {mat_lit([[c] * d for _ in range(m)])})"
                exp = ", ".join(mat_lit(got[nm][comp]) for comp in (0, 1) for nm in ("D", "W", "J"))
                cases.append(f"({'true' if tdep else 'false'}, {qlit(beta)}, {A}, {lst([qlit(v) for v in mu_h])}, {lst([qlit(v) for v in mu_2h])}, {lst([qlit(v) for v in x0])}, "
                             f"{lst([qlit(t) for t in times])}, {mat_lit(jf)}, {mat_lit(df_)}, {mat_lit(jc)}, {mat_lit(dc)}, {qlit(tol)}, ({exp}))")
            else:
                continue
            break
    return cases


# ----------------------------------------------------------------------------- rate models: real sigma(t) coefficient and Libor drift (oracle only)
def rate_model_oracle(res, rng, tier):
    """LevyLiborModel and LevyForwardModel (repaired forward-market sigma(t), F-C16-4), horizon BEYOND the first and second tenor: several
    paths in a row on the SAME model object, single scheme and coupled scheme at levels 1-2; every path must be the LEFT-point Euler
    recursion of the consumed driver path with the coefficient a(t, x) evaluated by a FRESH, independently constructed coefficient
    object (so a coefficient object that is mutated by a simulation shows), and the model's sigma array must be unchanged after every
    path; sde_drift(t, x) is taken from the implementation (tolerance 1e-12; no Coq model of the quadrature-based drift)"""
    import numpy as np
    from rpylib.model.levydrivensde.levylibormodel import LevyLiborModel
    from rpylib.model.levydrivensde.levyforwardmodel import LevyForwardModel
    from rpylib.process.coupling.couplingsde import CouplingSDE
    from rpylib.process.markovchain.markovchainsde import MarkovChainSDE
    from rpylib.montecarlo.path import StochasticJumpPath, MLMCPath
    from rpylib.product.product import Product
    from rpylib.product.payoff import Forward
    from rpylib.product.underlying import Libors

    def left_euler(a, sde_drift, mu, x0, times, jrow, drow):
        x = np.array([x0], dtype=float).T
        out = [x.copy()]
        for i in range(len(times) - 1):
            t, dt = float(times[i]), times[i + 1] - times[i]      # a plain Python float (LiborSDEFunction used to need a numpy float: fixed)
            A = a(t, x)
            x = x + (sde_drift(t, x) + A @ np.atleast_2d(mu)) * dt + A @ np.array([[(jrow[i + 1] - jrow[i]) + (drow[i + 1] - drow[i])]])
            out.append(x.copy())
        return np.hstack(out) - np.array([x0], dtype=float).T

    for cls in (LevyLiborModel, LevyForwardModel):
        for it in range(2 if tier == "quick" else 8):
            m = rng.choice([2, 3])
            rates = [dy(rng, 0.01, 0.05, 256) for _ in range(m)]
            tenors = [1.0 + 0.5 * k for k in range(m + 1)]
            sigma = np.array([[dy(rng, 0.125, 0.5, 8)] for _ in range(m)])
            sigma0 = sigma.copy()                              # pristine copy kept by the harness
            horizon = tenors[min(2, m)] + 0.25        # beyond the first and second tenor, for both rate models
            driver, mkgrid = step_driver(rng, 1)
            ctx0 = {"kind": "rate-model", "cls": cls.__name__, "rates": rates, "tenors": tenors, "sigma": sigma.flatten().tolist()}
            try:
                model = cls(np.array(rates), list(tenors), sigma, driver)
                prod = Product(Libors(), Forward(1.0), maturity=horizon)
                cp = CouplingSDE(model, mkgrid(), sampling_method(1))
                cp.initialisation(prod)
                pms = [MLMCPath(cp.fine_process.deterministic_path, False)]
                single = cp.fine_process
            except Exception as e:  # noqa
                res.broke("rate-model oracle", f"{cls.__name__} with a product maturing at the first tenor could not be built/initialised: "
                                               f"{type(e).__name__}: {e} ({ctx0})")
                continue
            # the coefficient sigma(t) itself against its specification, computed independently: Libor rate i is switched off from
            # its fixing date T_i on; forward-market rate i keeps its volatility up to T_i and decays linearly to 0 at T_i+1
            for t in sorted({0.0, horizon} | set(tenors) | {x + 0.125 for x in tenors[:-1]} | {dy(rng, 0, horizon, 16) for _ in range(6)}):
                if cls is LevyLiborModel:
                    want = [[0.0 if tenors[i] <= t else float(sigma0[i, 0])] for i in range(m)]
                else:
                    want = [[float(sigma0[i, 0]) * min(1.0, max(0.0, tenors[i + 1] - t) / (tenors[i + 1] - tenors[i]))] for i in range(m)]
                res.count(("sigma", cls.__name__, tuple(tenors), t), nontrivial=t >= tenors[0], kind=f"{cls.__name__} sigma(t) specification")
                try:
                    got = np.asarray(model.a.sigma(float(t)), dtype=float).tolist()
                except Exception as e:  # noqa
                    res.violation(f"{cls.__name__}: sigma(t) raises {type(e).__name__}", dict(ctx0, t=t, error=f"{type(e).__name__}: {e}"))
                    break
                if np.max(np.abs(np.array(got) - np.array(want))) > 1e-15:
                    res.violation(f"{cls.__name__}: sigma(t) is not the documented volatility structure", dict(ctx0, t=t, got=got, want=want))
                    break
            for level in (0, 1, 2):
                if level:
                    cp.next_level(mc_paths=1, path_managers=pms, product=prod)
                for ic in range(4):
                    times, (jf, jc), (df_, dc) = gen_path(rng, 1, True, rng.randrange(3, 8))
                    times = [t * horizon for t in times]
                    ctx = dict(ctx0, level=level, path_number_on_this_model=4 * level + ic + 1, horizon=horizon, times=times, jump_fine=jf, jump_coarse=jc, diff_fine=df_, diff_coarse=dc)
                    res.count(("rate", cls.__name__, level, tuple(times), repr(jf), repr(jc)), nontrivial=True, kind=f"{cls.__name__} sigma(t) level={level}")
                    try:
                        if level == 0:
                            single.markov_chain.simulate_one_path = (
                                lambda t=np.array(times), d=np.array(df_[0]), j=np.array(jf[0]): StochasticJumpPath(t, d.copy(), j.copy()))
                            got = [np.asarray(single.simulate_one_path().value(), dtype=float)]
                            mus, rows = [single.markov_chain.process_drift()], [(jf[0], df_[0])]
                        else:
                            cp.driver_coupling_process.simulate_one_path_with_coupling = (
                                lambda t=np.array(times), d=np.array([df_[0], dc[0]]), j=np.array([jf[0], jc[0]]): StochasticJumpPath(t, d.copy(), j.copy()))
                            v = np.asarray(cp.simulate_one_path_with_coupling().value(), dtype=float)
                            got, mus, rows = [v[0], v[1]], [cp.mc_drift_h, cp.mc_drift_2h], [(jf[0], df_[0]), (jc[0], dc[0])]
                    except Exception as e:  # noqa
                        res.violation(f"{cls.__name__}: the SDE scheme raises {type(e).__name__}", dict(ctx, error=str(e)))
                        break
                    fresh_a = type(model.a)(sigma=sigma0.copy(), tenors=list(tenors))     # independently constructed coefficient
                    if not (np.array_equal(np.asarray(model.a._sigma), sigma0) and np.array_equal(sigma, sigma0)):
                        res.violation("rate model: simulating a path changed the model's volatility matrix sigma (coefficient object / caller's array mutated)",
                                      dict(ctx, sigma_before=sigma0.tolist(), model_sigma_after=np.asarray(model.a._sigma).tolist(), callers_sigma_after=sigma.tolist()))
                        model.a._sigma[...] = sigma0
                        sigma[...] = sigma0
                    for comp, (g, mu, (jr, dr)) in enumerate(zip(got, mus, rows)):
                        want = left_euler(fresh_a, cp.fine_process.sde_drift, mu, rates, times, jr, dr)
                        err = float(np.max(np.abs(g - want)))
                        if err > 1e-12:
                            res.violation("rate model: the scheme is not the Euler recursion with a(t_i, X_i) and the drift taken at the LEFT point of each step",
                                          dict(ctx, component=["fine", "coarse"][comp] if level else "single", max_abs_error=err,
                                               got=g.tolist(), left_point_euler=want.tolist()))
                            break


# ----------------------------------------------------------------------------- discount factors
def df_cases(res, rng, tier):
    import numpy as np
    from stepmeasure import StepMeasure, StepModel
    from rpylib.model.levydrivensde.levyforwardmodel import LevyForwardModel
    from rpylib.model.levydrivensde.levylibormodel import LevyLiborModel
    Fr = Fraction
    drv = StepModel(StepMeasure([Fr(-1), Fr(-1, 4), Fr(1, 4), Fr(1)], [Fr(3, 4), Fr(0), Fr(3, 2)], strict=False), a=0.25, sigma=0.5)
    cases = []
    configs = [([5.0, 6.0], [0.02])]       # the recorded witness of F-C16-1
    for _ in range(10 if tier == "quick" else 80):
        m = rng.randrange(1, 6)
        t0 = dy(rng, 0.25, 2, 4)
        tenors = [t0]
        for _ in range(m):
            tenors.append(tenors[-1] + dy(rng, 0.25, 1.5, 4))
        configs.append((tenors, [dy(rng, 0, 0.25, 64) for _ in range(m)]))
    # rates below -1/accrual: simple compounding 1 + r * delta <= 0 (outside the theorems' hypothesis rates >= 0; recorded F-C16-5)
    for cls in (LevyForwardModel, LevyLiborModel):
        tenors, rates = [1.0, 2.0], [-1.25]
        mdl = cls(np.array(rates), list(tenors), np.full((1, 1), 0.1), drv)
        res.count(("df-negative", cls.__name__), kind="df with strongly negative rate")
        with np.errstate(all="ignore"):
            vals = [(t, float(mdl.df(t))) for t in (0.5, 0.8, 1.0, 1.5)]
        bad = [(t, v) for t, v in vals if not (0 < v < float("inf"))]
        if bad:
            res.violation("df is infinite or negative for a rate below -1/accrual (no validation of 1 + rate * accrual > 0)",
                          {"kind": "df-negative-rate", "finding": "F-C16-5", "cls": cls.__name__, "tenors": tenors, "rates": rates, "values": vals})
    for tenors, rates in configs:
        for cls, fn in ((LevyForwardModel, "forward_df"), (LevyLiborModel, "libor_df")):
            mdl = cls(np.array(rates), list(tenors), np.full((len(rates), 1), 0.1), drv)
            mesh = sorted({0.0, tenors[-1]} | set(tenors) | {t + s * 2.0 ** -20 for t in tenors[:-1] for s in (-1, 1)}
                          | {tenors[-1] - 2.0 ** -20} | {dy(rng, 0, tenors[-1], 64) for _ in range(12)})
            mesh = [t for t in mesh if 0 <= t <= tenors[-1]]
            vals = []
            for t in mesh:
                v = float(mdl.df(t))
                vals.append(v)
                res.count(("df", fn, tuple(tenors), tuple(rates), t), nontrivial=t > tenors[0], kind=f"df {cls.__name__}")
                cases.append(f"({'true' if fn == 'forward_df' else 'false'}, {lst([qlit(x) for x in tenors])}, {lst([qlit(x) for x in rates])}, {qlit(t)}, {qlit(v)})")
            ctx = {"kind": "df", "cls": cls.__name__, "tenors": tenors, "rates": rates}
            if vals[0] != 1.0:
                res.violation("df(0) != 1", dict(ctx, got=vals[0]))
            rmax = max(rates)
            for (s, a), (t, b) in zip(zip(mesh, vals), zip(mesh[1:], vals[1:])):
                if not b > 0:
                    res.violation("df is not positive", dict(ctx, t=t, got=b))
                    break
                if b > a + 1e-15:
                    res.violation("df increases in time (non-negative rates)", dict(ctx, finding="F-C16-1", s=s, t=t, df_s=a, df_t=b))
                    break
                if a - b > rmax * (t - s) + 1e-12:
                    res.violation("df is discontinuous (drop larger than rate * dt)", dict(ctx, finding="F-C16-1", s=s, t=t, df_s=a, df_t=b))
                    break
    return cases


HEADER = """From Coq Require Import ZArith QArith Qabs List Bool.
From RV Require Import Base.QB Base.QVec Base.QArr Base.Corr Gen.GenC16Rates Model.Euler.
Import ListNotations.
Open Scope Q_scope.
Definition afun0 (k : option (list (list Q))) := match k with Some A => a_constant A | None => a_diag end.
(* harness coefficient: a(t,x) = (1+t) * base(t,x) when time-dependent; sde drift b(t,x) = beta * t * x *)
Definition afun (tdep : bool) (k : option (list (list Q))) : Q -> list Q -> list (list Q) :=
  fun t x => if tdep then map (vscale (1 + t)) (afun0 k t x) else afun0 k t x.
Definition bfun (beta : Q) : Q -> list Q -> list Q := fun t x => vscale (beta * t) x.
(* the same on the stacked state: ONE call a(t, zi); Constant gives a matrix shared by both components, DiagX a stack *)
Definition afun_st (tdep : bool) (k : option (list (list Q))) : Q -> list Q -> list Q -> smat :=
  fun t zf zc =>
    let S := match k with Some A => a_st_constant A t zf zc | None => a_st_diag t zf zc end in
    if tdep then match S with Shared A => Shared (map (vscale (1 + t)) A)
                            | Stacked Af Ac => Stacked (map (vscale (1 + t)) Af) (map (vscale (1 + t)) Ac) end
    else S.
Definition rows_of (m : nat) (path : list (list Q)) : list (list Q) := map (fun k => map (fun v => nth k v 0) path) (seq 0 m).
Definition mats_eqb (tol : Q) (m : nat) (p : list (list Q) * list (list Q) * list (list Q)) (e : list (list Q) * list (list Q) * list (list Q)) : bool :=
  match p, e with (D, W, J), (eD, eW, eJ) =>
    mat_eqb tol (rows_of m D) eD && mat_eqb tol (rows_of m W) eW && mat_eqb tol (rows_of m J) eJ end.
Definition sde_check (c : bool * Q * option (list (list Q)) * list Q * list Q * list Q * list (list Q) * list (list Q) * Q
                          * (list (list Q) * list (list Q) * list (list Q))) : bool :=
  match c with (tdep, beta, ak, mu, x0, times, jrows, drows, tol, e) =>
    mats_eqb tol (length x0) (sde_path (afun tdep ak) (bfun beta) mu x0 (steps_of times jrows drows)) e end.
Definition coupled_check (c : bool * Q * option (list (list Q)) * list Q * list Q * list Q * list Q * list (list Q) * list (list Q) * list (list Q)
                              * list (list Q) * Q * (list (list Q) * list (list Q) * list (list Q) * list (list Q) * list (list Q) * list (list Q))) : bool :=
  match c with (tdep, beta, ak, mu_h, mu_2h, x0, times, jf, df, jc, dc, tol, (fD, fW, fJ, cD, cW, cJ)) =>
    let cs := zip_csteps (steps_of times jf df) (steps_of times jc dc) in
    let tms := ceuler_st (afun_st tdep ak) (bfun beta) mu_h mu_2h cs x0 x0 in
    let m := length x0 in
    let f := map fst tms in let co := map snd tms in
    mats_eqb tol m (path_of m (map fst3 f), path_of m (map snd3 f), path_of m (map thd3 f)) (fD, fW, fJ)
    && mats_eqb tol m (path_of m (map fst3 co), path_of m (map snd3 co), path_of m (map thd3 co)) (cD, cW, cJ) end.
Definition df_check (c : bool * list Q * list Q * Q * Q) : bool :=
  match c with (fw, tenors, rates, t, e) =>
    Qle_bool (Qabs ((if fw then forward_df tenors rates t else libor_df tenors rates t) - e)) (1 # 35184372088832) end.
"""


def correspond(res):
    import warnings
    warnings.simplefilter("ignore")      # scipy.linalg.sqrtm warns on the singular variance matrix of a pure-jump copula driver
    rng = random.Random(res.seed)
    tier = res.tier
    dfs = df_cases(res, rng, tier)
    singles = single_cases(res, rng, tier)
    coupled = coupled_cases(res, rng, tier)
    rate_model_oracle(res, rng, tier)
    groups = [
        ("single", "bool * Q * option (list (list Q)) * list Q * list Q * list Q * list (list Q) * list (list Q) * Q * (list (list Q) * list (list Q) * list (list Q))",
         "sde_check", singles),
        ("coupled", "bool * Q * option (list (list Q)) * list Q * list Q * list Q * list Q * list (list Q) * list (list Q) * list (list Q) * list (list Q) * Q * "
                    "(list (list Q) * list (list Q) * list (list Q) * list (list Q) * list (list Q) * list (list Q))", "coupled_check", coupled),
        ("df", "bool * list Q * list Q * Q * Q", "df_check", dfs),
    ]
    groups = [g for g in groups if g[3]]
    res.case_lemmas += 3
    if len(groups) < 3:
        res.broke("correspondence", "no cases could be produced for: " + ", ".join(sorted({"single", "coupled", "df"} - {g[0] for g in groups})))
    from concurrent.futures import ThreadPoolExecutor

    def work(g):
        return g, coq_bad_indices(PROP, f"cases_{g[0]}", HEADER, [g], timeout=600)[g[0]]

    with ThreadPoolExecutor(max_workers=3) as ex:
        for (g, ty, chk, cs), bad in ex.map(work, groups):
            if bad:
                res.broke(f"correspondence {g}", f"model and implementation differ on {len(bad)} of {len(cs)} case(s), first: {cs[bad[0]][:2500]}")
            else:
                res.case_ok += 1


def matches_known(v, known):
    r = v["replay"]
    if known["id"] == "F-C16-5":
        try:
            return r.get("kind") == "df-negative-rate" and min(r["rates"]) < 0 and any(1 + x * max(r["tenors"]) <= 0 for x in r["rates"]) \
                and all(v_ > 0 for t, v_ in r["values"] if 1 + r["rates"][0] * t > 0 and t <= r["tenors"][0])
        except Exception:  # noqa
            return False
    return False


def replay(path):
    import numpy as np
    data = json.load(open(path))
    print(json.dumps(data, indent=1)[:4000])
    if data.get("kind") == "df":
        from stepmeasure import StepMeasure, StepModel
        from rpylib.model.levydrivensde.levyforwardmodel import LevyForwardModel
        from rpylib.model.levydrivensde.levylibormodel import LevyLiborModel
        Fr = Fraction
        drv = StepModel(StepMeasure([Fr(-1), Fr(-1, 4), Fr(1, 4), Fr(1)], [Fr(3, 4), Fr(0), Fr(3, 2)], strict=False), a=0.25, sigma=0.5)
        cls = LevyForwardModel if data["cls"] == "LevyForwardModel" else LevyLiborModel
        mdl = cls(np.array(data["rates"]), list(data["tenors"]), np.full((len(data["rates"]), 1), 0.1), drv)
        a, b = float(mdl.df(data["s"])), float(mdl.df(data["t"]))
        print(f"df({data['s']}) = {a}   df({data['t']}) = {b}")
        return 1 if b > a + 1e-15 or a - b > max(data["rates"]) * (data["t"] - data["s"]) + 1e-12 else 0
    if data.get("kind") in ("single", "coupled") and data.get("a") == "diag" and "error" in data:
        from rpylib.model.levydrivensde.levydrivensde import DiagX
        m = data["m"]
        try:
            col = DiagX(m)(0.0, np.array([data["x0"]]).T)
            stk = DiagX(m)(0.0, np.stack((np.array([data["x0"]]).T, np.array([data["x0"]]).T)))
            print("DiagX on the state column ->", col.tolist(), " on the stacked states ->", stk.tolist())
            ok = np.asarray(col).shape == (m, m) and np.asarray(stk).shape == (2, m, m)
            return 0 if ok else 1
        except Exception as e:  # noqa
            print("DiagX raises", type(e).__name__, e)
            return 1
    print("replay: re-run ./check C16 to re-evaluate this class of input")
    return 1


LEVEL_TEXT = ("Proof: 9 Coq theorems (closed under the global context). For the hand model of the loops of MarkovChainSDE.simulate_one_path "
              "and CouplingSDE.simulate_one_path_with_coupling (any coefficient function, any drift, any dimensions, any number of steps): "
              "the returned drift/diffusion/jump paths are the cumulative sums of the three Euler terms evaluated at the scheme's state and "
              "x0 + their sum is that state (C16_euler_step); X_T = x0 + A Y_T for constant a; X_T = x0 prod(1+dY_i) componentwise for "
              "a = diag(x); both rows of the coupled recursion are single recursions with their own increments and drifts, and the drift "
              "bookkeeping over next_level. For the py2coq-generated df of the Levy forward / Libor models (repaired): df(0)=1, 0<df<=1, "
              "Lipschitz on each closed period (continuity at the tenors), non-increasing, for any number of tenors. Tied to the source by "
              "the translator (df) and by running real MarkovChainSDE/CouplingSDE objects on scripted and recorded driver paths against the "
              "model (exact on dyadic inputs). The model follows the tree with the fixes for F-C16-1 (df) and F-C16-2 (DiagX).")
LEVEL_NOTE = ("Trusted: Coq kernel + vm_compute; py2coq (fail-closed; generated df also run against the implementation); floats as rationals "
              "(exact on dyadic inputs, 1e-9 otherwise, df 2^-45); numpy matmul/broadcast/cumsum/searchsorted/prod modelled by list functions "
              "and pinned by the correspondence; the driver's simulate_one_path(_with_coupling) is scripted (or recorded) - what it returns is C15/C03's "
              "subject. Not covered: the Libor-market sde drift and sigma(t) coefficient functions (quadrature), epsilon = h^beta.")
TECHNIQUE = "Coq proof (induction over step lists, ring/nra over Q, pointwise vector algebra) on a hand model of the Euler loops + py2coq-generated df; vm_compute correspondence on real process objects"

"""C17 -- payoffs and underlyings are pure functions of the path obeying static identities:
correspondence (model vs implementation, vm_compute) + implementation-only oracle."""
import json
import random
from fractions import Fraction

from common import qlit, lst, blit, natlit, coq_bad_indices

PROP = "C17"
PROPERTY_FILE = "Properties/C17.v"
GEN_DEPS = ["GenC17Payoff"]
RULE = ("cases: (a) every payoff class of the statement evaluated on dyadic strikes/underlyings, (b) sequences of 1-6 "
        "update/underlying_value/call triples (plus stray underlying_value and call operations) on ONE Product object, mixing "
        "identity/LOG representations, knocked and un-knocked paths, Spot/Asian/DefaultTime underlyings, time grids of 1-12 dates, "
        "(c) n-th-to-default on d x n log-jump arrays, d in 1..5; non-trivial = sequence with >= 2 processed paths, payoff "
        "case with strike strictly inside the sampled range, n-th default with d >= 2")
MODELLED = ["Underlying classes Spot/Asian/DefaultTime/NthDefaultTimes, Barrier.process loops, Product.underlying_value/update "
            "(hand models in Model/Payoff.v tied by vm_compute correspondence on operation sequences)",
            "np.exp/np.log: arbitrary functions in the theorems; in the correspondence the floats numpy returned are fed to the model as a table",
            "numpy 1-d arrays as lists; path[..., -1] as `last`; empty paths (IndexError) are outside the model",
            "modelled underlyings: Spot, Libors (= Spot), LogSpot, Asian, DefaultTime, NthDefaultTimes; payoffs: Forward, Vanilla, CallSpread, Butterfly, Digital, Barrier. "
            "Not modelled: LookBack (F-C17-8), Rainbow, CDS, Bond, Cap, Ratchet, Swaption, Mean, Performances, Indicators, NthSpot "
            "(not named by the statement)"]
ASSUMPTIONS = ["floats are modelled by exact rationals: exact comparison on dyadic inputs (identity representation), relative "
               "tolerance 2^-36 where np.exp entered a value (LOG representation)",
               "C17_rep_agree assumes expf (logf v) == v on the path's spots (true up to rounding for np.exp/np.log)",
               "C17_average_between_extremes assumes 0 <= t_0 <= ... <= t_n, t_n > 0 and equally long times/path"]
THEOREM_NOTES = {
    "C17_butterfly": "call-combination identity for all strikes; non-negativity holds iff k1 + k3 <= 2 k2 (proved as an equivalence)",
    "C17_butterfly_nonneg_refuted": "F-C17-4: Butterfly(0,1,10) accepted by the constructor, evaluate(20) = -8 < 0",
    "C17_in_out": "stated on product objects in arbitrary states (after the fix of F-C17-1 the flag is recomputed per path)",
    "C17_product_rep_agree": "about the repaired tree (fix 'path-dependent payoffs see spot values in the log representation too', F-C17-7); "
                             "Spot underlying, every modelled payoff incl. barriers",
    "C17_succeeds": "excludes the error value UErr under the hypotheses of the identities, so that C17_in_out / C17_product_rep_agree / C17_history_free "
                    "are not read in the 0 + 0 == 0 branch; for arrays of different lengths Python raises IndexError while the list model is total",
    "C17_history_free": "a statement about the HAND-WRITTEN state machine of Model/Payoff.v (two booleans: barrier flag, representation binding): "
                        "process/update/underlying_value are not generated from the source, so purity of the code itself is established by the "
                        "operation-sequence correspondence and the fresh-object oracle (sampled), not by proof; classes outside the model "
                        "(LookBack is stateful through max_spot and cannot be valued at all: F-C17-8) are not covered; "
                        "about the repaired tree (fix commits for F-C17-1, F-C17-2, F-C17-3 on branch fix-paths); on the unrepaired "
                        "tree the oracle reports the history dependence with findings F-C17-1/F-C17-2/F-C17-3",
}

TOL_LOG = Fraction(1, 2 ** 36)


# ----------------------------------------------------------------------------- building real objects / Coq literals
def make_payoff(spec):
    from rpylib.product import payoff as P
    k = spec[0]
    if k == "forward":
        return P.Forward(spec[1])
    if k == "vanilla":
        return P.Vanilla(spec[2], P.PayoffType.CALL if spec[1] == 1 else P.PayoffType.PUT)
    if k == "spread":
        return P.CallSpread(spec[1], spec[2])
    if k == "butterfly":
        return P.Butterfly(spec[1], spec[2], spec[3])
    if k == "digital":
        return P.Digital(spec[2], P.PayoffType.CALL if spec[1] else P.PayoffType.PUT)
    if k == "barrier":
        _, cp, strike, knock_in, down, barrier = spec
        bt = {(True, True): P.BarrierType.DOWN_AND_IN, (True, False): P.BarrierType.UP_AND_IN,
              (False, True): P.BarrierType.DOWN_AND_OUT, (False, False): P.BarrierType.UP_AND_OUT}[(bool(knock_in), bool(down))]
        return P.Barrier(strike, P.PayoffType.CALL if cp == 1 else P.PayoffType.PUT, bt, barrier)
    raise ValueError(k)


def payoff_lit(spec):
    k = spec[0]
    if k == "forward":
        return f"(PForward {qlit(spec[1])})"
    if k == "vanilla":
        return f"(PVanilla {qlit(spec[1])} {qlit(spec[2])})"
    if k == "spread":
        return f"(PCallSpread {qlit(spec[1])} {qlit(spec[2])})"
    if k == "butterfly":
        return f"(PButterfly {qlit(spec[1])} {qlit(spec[2])} {qlit(spec[3])})"
    if k == "digital":
        return f"(PDigital {blit(spec[1])} {qlit(spec[2])})"
    _, cp, strike, knock_in, down, barrier = spec
    return f"(PBarrier {qlit(cp)} {qlit(strike)} {blit(knock_in)} {blit(down)} {qlit(barrier)})"


def make_underlying(spec):
    from rpylib.product import underlying as U
    if spec[0] == "spot":
        return U.Spot()
    if spec[0] == "asian":
        return U.Asian()
    if spec[0] == "logspot":
        return U.LogSpot()
    if spec[0] == "libors":
        return U.Libors()
    return U.DefaultTime(spec[1])


def und_lit(spec):
    return {"spot": "USpot", "libors": "USpot", "asian": "UAsian", "logspot": "ULogSpot"}.get(spec[0]) or f"(UDefaultTime {qlit(spec[1])})"


def make_product(pspec):
    from rpylib.product.product import Product
    return Product(make_underlying(pspec["und"]), make_payoff(pspec["pay"]), maturity=1.0, notional=pspec["notional"])


def rep_enum(lg):
    from rpylib.process.process import ProcessRepresentation as PR
    return PR.LOG if lg else PR.IDENDITY


def fin(x):
    import math
    x = float(x)
    return None if math.isinf(x) else x


def apply_op(prod, op):
    """one operation on the real Product object -> ('none',) | ('u', float|None(inf)) | ('v', float) | ('raise', text)"""
    import numpy as np
    try:
        if op[0] == "update":
            prod.update(rep_enum(op[1]))
            return ("none",)
        if op[0] == "uv":
            _, times, path, jumps = op
            u = prod.underlying_value(np.array(times, dtype=float), np.array(path, dtype=float), np.array(jumps, dtype=float))
            u = float(u)
            if u != u:
                return ("u", "err")              # nan: Asian average over a grid that ends at time 0
            return ("u", fin(u))
        v = prod(op[1])
        return ("v", float(v))
    except ZeroDivisionError as e:
        if op[0] == "uv":
            return ("u", "err")                  # Asian average over an empty grid
        return ("raise", f"{type(e).__name__}: {e}")
    except Exception as e:  # noqa
        return ("raise", f"{type(e).__name__}: {e}")


def op_lit(op, with_jumps):
    if op[0] == "update":
        return f"(OpUpdate {blit(op[1])})"
    if op[0] == "uv":
        _, times, path, jumps = op
        return (f"(OpUnderlying {lst([qlit(t) for t in times])} {lst([qlit(v) for v in path])} "
                f"{lst([qlit(v) for v in jumps]) if with_jumps else '[]'})")
    return f"(OpCall {qlit(op[1])})"


def out_lit(o):
    if o[0] == "u" and o[1] == "err":
        return "(OutU UErr)"
    if o[0] == "u":
        return "(OutU UInf)" if o[1] is None else f"(OutU (UFin {qlit(o[1])}))"
    if o[0] == "v":
        return f"(OutV {qlit(o[1])})"
    return "OutNone"   # update; a raise is also printed as OutNone and therefore differs from the model's OutU/OutV


# ----------------------------------------------------------------------------- generators
def dy(rng, lo, hi, den):
    return rng.randrange(int(lo * den), int(hi * den) + 1) / den


def gen_times(rng, n):
    T = rng.choice([0.5, 1.0, 2.0, 4.0])
    if n == 1:
        return [T]
    inner = sorted(rng.sample(range(1, 64), n - 2)) if n > 2 else []
    return [0.0] + [T * k / 64 for k in inner] + [T]


def gen_payoff(rng, scale_log=False):
    """strikes and barriers are ALWAYS in spot units (the product's terms do not depend on the representation of the process)"""
    lo, hi, den = 70, 150, 8
    kind = rng.choice(["forward", "vanilla", "vanilla", "spread", "butterfly", "digital", "barrier", "barrier", "barrier"])
    ks = sorted({dy(rng, lo, hi, den) for _ in range(6)})
    if kind == "forward":
        return ("forward", ks[0])
    if kind == "vanilla":
        return ("vanilla", rng.choice([1, -1]), ks[1])
    if kind == "spread":
        return ("spread", ks[0], ks[2])
    if kind == "butterfly":
        k1, k3 = ks[0], ks[-1]
        return ("butterfly", k1, (k1 + k3) / 2, k3)          # symmetric here; asymmetric ones in the static section
    if kind == "digital":
        return ("digital", rng.random() < 0.5, ks[1])
    return ("barrier", rng.choice([1, -1]), ks[1], rng.random() < 0.5, rng.random() < 0.5, rng.choice(ks + [dy(rng, 60, 200, 8) + 1 / 16]))


def gen_spot_path(rng, n, lg):
    if lg:
        return [dy(rng, 3.5, 5.5, 16) for _ in range(n)]
    return [dy(rng, 60, 160, 8) for _ in range(n)]


def gen_jump_path(rng, n, lg, a):
    """pure-jump path for DefaultTime: cumulated log-jumps (LOG) or their positive levels (identity);
    returns None if a log-ratio is too close to the level (the float comparison could then flip)"""
    import numpy as np
    if lg:
        x, out = 0.0, [0.0]
        for _ in range(n - 1):
            x += rng.choice([0.0, 0.0, dy(rng, -2, 1, 8)])
            out.append(x)
        return out
    out = [dy(rng, 0.25, 4, 8) for _ in range(n)]
    if 0.0 in out:
        return None
    lg_ = np.log(np.array(out, dtype=float))
    for i in range(n - 1):
        if abs(Fraction(float(lg_[i + 1])) - Fraction(float(lg_[i])) - Fraction(a)) < Fraction(1, 10 ** 9):
            return None
    return out


def gen_sequence(rng, tier):
    """-> (product spec, ops, triple positions [(index of uv, index of call, rep in force)])"""
    und = rng.choice([("spot",), ("spot",), ("asian",), ("asian",), ("libors",), ("logspot",), ("dt", -dy(rng, 0.25, 1.5, 8))])
    mostly_log = rng.random() < 0.3
    pspec = {"und": und, "pay": gen_payoff(rng, mostly_log), "notional": dy(rng, 0.25, 8, 4)}
    ops, triples, cur = [], [], False
    for _ in range(rng.randrange(1, 7 if tier == "quick" else 10)):
        if rng.random() < 0.8:
            cur = (rng.random() < 0.5) if rng.random() < 0.5 else mostly_log
            ops.append(("update", cur))
        nuv = 2 if rng.random() < 0.2 else 1       # sometimes two paths are processed before the call (fine/coarse pattern)
        for _ in range(nuv):
            n = rng.randrange(1, 13)
            times = gen_times(rng, n)
            if und[0] == "asian" and rng.random() < 0.06:
                n, times = 1, [0.0]     # degenerate grid ending at time 0: nan in Python, UErr in the model (an EMPTY grid raises
                #                         ZeroDivisionError before payoff.process is reached: exceptions abort the operation and are not modelled)
            if und[0] == "dt":
                jumps = None
                while jumps is None:
                    jumps = gen_jump_path(rng, n, cur, und[1])
                path = jumps
            else:
                path = gen_spot_path(rng, n, cur)
                jumps = path
            ops.append(("uv", times, path, jumps))
        iuv = len(ops) - 1
        ops.append(("call", None))                 # filled with the returned underlying when finite
        triples.append((iuv, len(ops) - 1, cur))
        if rng.random() < 0.15:
            ops.append(("call", dy(rng, 60, 160, 8)))
    return pspec, ops, triples


def run_sequence(pspec, ops):
    """runs ops on ONE real product object; fills ('call', None) with the last finite underlying (dropped if there is
    none); returns (ops actually run, outputs, {index in ops: index in the ops actually run})"""
    prod = make_product(pspec)
    outs, real_ops, last_u, idx_map = [], [], None, {}
    for k, op in enumerate(ops):
        if op[0] == "call" and op[1] is None:
            if last_u is None:
                continue
            op = ("call", last_u)
        o = apply_op(prod, op)
        if op[0] == "uv":
            last_u = o[1] if (o[0] == "u" and isinstance(o[1], float)) else None
        idx_map[k] = len(real_ops)
        real_ops.append(op)
        outs.append(o)
    return real_ops, outs, idx_map


def tables_for(pspec, ops):
    """np.exp / np.log as data for the model: every value the model may feed to expf/logf"""
    import numpy as np
    et, lt, cur = {}, {}, False
    for op in ops:
        if op[0] == "update":
            cur = op[1]
        elif op[0] == "uv":
            _, times, path, jumps = op
            # representation actually bound in the implementation may lag (unrepaired tree): provide both tables always
            for v in path:
                et[v] = float(np.exp(np.float64(v))) if v < 700 else 0.0
            if pspec["und"][0] == "logspot" and path and path[-1] > 0:
                lt[path[-1]] = float(np.log(np.float64(path[-1])))
            if pspec["und"][0] == "dt" and all(v > 0 for v in jumps):
                lg_ = np.log(np.array(jumps, dtype=float))
                for v, l in zip(jumps, lg_):
                    lt[v] = float(l)
    return et, lt


def table_lit(tb):
    return lst([f"({qlit(k)}, {qlit(v)})" for k, v in tb.items()])


# ----------------------------------------------------------------------------- oracle pieces (implementation only)
def history_check(res, pspec, ops, outs, triples_idx):
    """each (update rep; underlying_value; call) triple of the sequence must give what a FRESH object gives"""
    for (iuv, icall, rep) in triples_idx:
        fresh = make_product(pspec)
        apply_op(fresh, ("update", rep))
        fu = apply_op(fresh, ops[iuv])
        got_u = outs[iuv]
        bad, fid = None, None
        if got_u[0] == "raise" or fu[0] == "raise":
            bad = f"underlying_value raises: {got_u[1] if got_u[0] == 'raise' else fu[1]}"
            fid = "F-C17-3" if pspec["und"][0] == "asian" else None
        elif got_u != fu:
            bad, fid = "underlying value depends on earlier update() calls (representation switch is sticky)", "F-C17-2"
        elif icall is not None:
            fv = apply_op(fresh, ops[icall])
            if outs[icall] != fv:
                bad = "payoff value depends on the paths processed earlier on the same product object"
                fid = "F-C17-1" if pspec["pay"][0] == "barrier" else None
                got_v, fresh_v = outs[icall], fv
        if bad:
            rp = {"kind": "history", "product": pspec, "ops": [list(o) for o in ops[:(icall or iuv) + 1]],
                  "triple_rep_log": rep, "got_underlying": got_u, "fresh_underlying": fu}
            if fid:
                rp["finding"] = fid
            if icall is not None and "got_v" in locals():
                rp.update({"got_value": got_v, "fresh_value": fresh_v})
            res.violation(bad, rp)
            return False
    return True


def static_oracle(res, rng, tier, payoff_cases):
    from rpylib.product import payoff as P
    from rpylib.product.product import Product
    from rpylib.product.underlying import Spot
    n = 250 if tier == "quick" else 3000
    for i in range(n):
        ks = sorted({dy(rng, 70, 150, 8) for _ in range(5)})
        if len(ks) < 3:
            continue
        k1, k2, k3 = ks[0], ks[len(ks) // 2], ks[-1]
        u = rng.choice(ks + [dy(rng, 40, 190, 8)])
        call = lambda k: float(P.Vanilla(k, P.PayoffType.CALL).evaluate(u))     # noqa
        put = float(P.Vanilla(k2, P.PayoffType.PUT).evaluate(u))
        fwd = float(P.Forward(k2).evaluate(u))
        res.count(("static", k1, k2, k3, u), nontrivial=k1 < u < k3, kind="static identities")
        if call(k2) - put != fwd:
            res.violation("call - put != forward", {"kind": "static", "what": "parity", "k": k2, "u": u})
        cs = float(P.CallSpread(k1, k3).evaluate(u))
        if cs != call(k1) - call(k3) or cs < 0:
            res.violation("call spread != call(k1) - call(k2) or negative", {"kind": "static", "what": "spread", "k1": k1, "k2": k3, "u": u, "got": cs})
        asym = rng.random() < 0.5
        kb2 = k2 if asym else (k1 + k3) / 2
        bf = float(P.Butterfly(k1, kb2, k3).evaluate(u))
        res.bump("butterfly", "asymmetric" if kb2 != (k1 + k3) / 2 else "symmetric")
        if bf != call(k1) - 2 * call(kb2) + call(k3):
            res.violation("butterfly != call(k1) - 2 call(k2) + call(k3)", {"kind": "static", "what": "butterfly-eq", "k": [k1, kb2, k3], "u": u, "got": bf})
        if bf < 0:
            res.violation("butterfly payoff is negative for strikes the constructor accepts (k2 below the mid-point)",
                          {"kind": "butterfly", "finding": "F-C17-4", "k1": k1, "k2": kb2, "k3": k3, "u": u, "got": bf})
        dc = float(P.Digital(k2, P.PayoffType.CALL).evaluate(u))
        dp = float(P.Digital(k2, P.PayoffType.PUT).evaluate(u))
        if dc + dp != 1.0:
            res.violation("digital call + digital put != 1", {"kind": "static", "what": "digital", "k": k2, "u": u})
        a, n1 = dy(rng, -4, 4, 4), dy(rng, 0.25, 8, 4)
        pay = P.Vanilla(k2, P.PayoffType.CALL)
        if float(Product(Spot(), pay, 1.0, notional=a * n1)(u)) != a * float(Product(Spot(), pay, 1.0, notional=n1)(u)):
            res.violation("notional does not scale linearly", {"kind": "static", "what": "notional", "k": k2, "u": u, "a": a, "n": n1})
        payoff_cases += [(("forward", k2), False, u, fwd), (("vanilla", 1, k2), False, u, call(k2)), (("vanilla", -1, k2), False, u, put),
                         (("spread", k1, k3), False, u, cs), (("butterfly", k1, kb2, k3), False, u, bf),
                         (("digital", True, k2), False, u, dc), (("digital", False, k2), False, u, dp)]
    # the recorded witness of F-C17-4, always evaluated
    bf = float(P.Butterfly(0.0, 1.0, 10.0).evaluate(20.0))
    res.count(("static", "butterfly-witness"), kind="static identities")
    if bf < 0:
        res.violation("butterfly payoff is negative for strikes the constructor accepts (k2 below the mid-point)",
                      {"kind": "butterfly", "finding": "F-C17-4", "k1": 0.0, "k2": 1.0, "k3": 10.0, "u": 20.0, "got": bf})
    payoff_cases.append((("butterfly", 0.0, 1.0, 10.0), False, 20.0, bf))


def barrier_oracle(res, rng, tier, payoff_cases):
    """knock-in + knock-out = vanilla on fresh objects; the flag seen by evaluate goes to the payoff correspondence"""
    import numpy as np
    from rpylib.product import payoff as P
    for i in range(150 if tier == "quick" else 2000):
        n = rng.randrange(1, 10)
        path = gen_spot_path(rng, n, False)
        strike, barrier = dy(rng, 70, 150, 8), rng.choice(path + [dy(rng, 60, 160, 8)])
        cp, down = rng.choice([1, -1]), rng.random() < 0.5
        u = path[-1]
        vals = {}
        for knock_in in (True, False):
            spec = ("barrier", cp, strike, knock_in, down, barrier)
            b = make_payoff(spec)
            b.process(None, np.array(path))
            vals[knock_in] = float(b.evaluate(u))
            payoff_cases.append((spec, bool(b.barrier_event), u, vals[knock_in]))
            want = any((v < barrier) if down else (v > barrier) for v in path)
            if bool(b.barrier_event) != want:
                res.violation("barrier flag of a fresh object is not 'some path value beyond the barrier'",
                              {"kind": "barrier-flag", "spec": list(spec), "path": path, "flag": bool(b.barrier_event)})
        van = float(make_payoff(("vanilla", cp, strike)).evaluate(u))
        res.count(("inout", cp, strike, down, barrier, tuple(path)), nontrivial=min(path) < barrier < max(path), kind="knock-in + knock-out")
        if vals[True] + vals[False] != van:
            res.violation("knock-in + knock-out != vanilla on fresh objects", {"kind": "inout", "cp": cp, "strike": strike, "down": down,
                                                                              "barrier": barrier, "path": path, "in": vals[True], "out": vals[False], "vanilla": van})


def underlying_oracle(res, rng, tier):
    """average between extremes, default time = first index, representations agree (implementation only)"""
    import numpy as np
    from rpylib.product import underlying as U
    for i in range(150 if tier == "quick" else 2000):
        n = rng.randrange(2, 13)
        times, path = gen_times(rng, n), gen_spot_path(rng, n, False)
        res.count(("und", tuple(times), tuple(path)), kind="underlying oracle")
        try:
            av = float(U.Asian().value(np.array(times), np.array(path), np.array(path)))
        except Exception as e:  # noqa
            res.violation(f"Asian.value raises {type(e).__name__}", {"kind": "asian", "finding": "F-C17-3", "times": times, "path": path, "error": str(e)})
            av = None
        if av is not None and not (min(path) <= av <= max(path)):
            res.violation("Asian average outside [min, max] of the path", {"kind": "asian", "times": times, "path": path, "got": av})
        # representations agree (tolerance: exp(log x) is not exact)
        for cls in (U.Spot, U.Asian):
            try:
                a, b = cls(), cls()
                a.update(rep_enum(False))
                b.update(rep_enum(True))
                va = float(a.value(np.array(times), np.array(path), np.array(path)))
                vb = float(b.value(np.array(times), np.log(np.array(path)), np.log(np.array(path))))
                if abs(va - vb) > 1e-9 * max(1.0, abs(va)):
                    res.violation("identity and LOG representation give different underlying values for the same spot path",
                                  {"kind": "rep", "cls": cls.__name__, "times": times, "path": path, "identity": va, "log": vb})
            except Exception as e:  # noqa
                if cls is U.Asian:
                    res.violation(f"Asian.value raises {type(e).__name__}", {"kind": "asian", "finding": "F-C17-3", "times": times, "path": path, "error": str(e)})
                else:
                    raise
        a = -dy(rng, 0.25, 1.5, 8)
        jumps = gen_jump_path(rng, n, True, a)
        d = U.DefaultTime(a)
        d.update(rep_enum(True))
        got = float(d.value(np.array(times), np.array(jumps), np.array(jumps)))
        first = next((times[k + 1] for k in range(n - 1) if jumps[k + 1] - jumps[k] < a), float("inf"))
        if got != first:
            res.violation("default time is not the first time a log-jump falls below the level", {"kind": "dt", "a": a, "times": times, "jumps": jumps, "got": got, "want": first})


def nth_default_cases(res, rng, tier):
    import numpy as np
    from rpylib.product import underlying as U
    cases = []
    for i in range(120 if tier == "quick" else 1500):
        d, n = rng.randrange(1, 6), rng.randrange(2, 10)
        times = gen_times(rng, n)
        levels = [-dy(rng, 0.25, 1.5, 8) for _ in range(d)]
        lg = rng.random() < 0.6
        rows = []
        for a in levels:
            r = None
            while r is None:
                r = gen_jump_path(rng, n, lg, a)
            rows.append(r)
        prev, seq = None, []
        for k in range(1, d + 1):
            obj = U.NthDefaultTimes(levels, k)
            obj.update(rep_enum(lg))
            try:
                v = fin(obj.value(np.array(times), np.array(rows), np.array(rows)))
            except Exception as e:  # noqa
                res.violation(f"NthDefaultTimes.value raises {type(e).__name__} in the {'LOG' if lg else 'identity'} representation",
                              {"kind": "nth-raise", "finding": "F-C17-6", "levels": levels, "index": k, "times": times, "rows": rows, "log": lg, "error": str(e)})
                seq = None
                break
            seq.append(v)
            res.count(("nth", d, k, lg, tuple(times), tuple(map(tuple, rows))), nontrivial=d >= 2, kind="NthDefaultTimes")
            res.bump("nth_default_result", "inf" if v is None else "finite")
            if prev is not None and (float("inf") if v is None else v) < (float("inf") if prev is None else prev):
                res.violation("n-th-to-default time decreases in n", {"kind": "nth", "levels": levels, "times": times, "rows": rows, "log": lg, "values": seq})
            prev = v
            lt = {}
            if not lg:
                for row in rows:
                    for x, l in zip(row, np.log(np.array(row, dtype=float))):
                        lt[x] = float(l)
            cases.append(f"({natlit(k - 1)}, {lst([qlit(a) for a in levels])}, {lst([qlit(t) for t in times])}, "
                         f"{lst([lst([qlit(x) for x in row]) for row in rows])}, {blit(lg)}, {table_lit(lt)}, "
                         f"{'UInf' if v is None else '(UFin ' + qlit(v) + ')'})")
        if seq is None:
            continue
        # individual default times (one DefaultTime object per row) must be the multiset the n-th defaults enumerate
        singles = []
        for a, row in zip(levels, rows):
            o = U.DefaultTime(a)
            o.update(rep_enum(lg))
            singles.append(fin(o.value(np.array(times), np.array(row), np.array(row))))
        key = lambda v: float("inf") if v is None else v   # noqa
        if sorted(map(key, singles)) != list(map(key, seq)):
            res.violation("n-th-to-default times are not the order statistics of the individual default times",
                          {"kind": "nth", "levels": levels, "times": times, "rows": rows, "log": lg, "values": seq, "singles": singles})
    return cases


def default_history_cases(res, rng, tier):
    """>= 3 valuations in a row on ONE underlying object, for every default-time underlying class (DefaultTime, NthDefaultTimes,
    DefaultTimeNthUnderlying; LOG and identity representation), mixing paths on which a name defaults with paths on which it
    does not: every value must equal the value on a FRESH object (history-freeness) and the model's value (cases for nth_check)"""
    import numpy as np
    from rpylib.product import underlying as U
    cases = []
    for it in range(90 if tier == "quick" else 900):
        cls = ["DefaultTime", "NthDefaultTimes", "DefaultTimeNthUnderlying"][it % 3]
        lg = (it // 3) % 2 == 0
        d = 1 if cls == "DefaultTime" else rng.randrange(2, 5)
        levels = [-dy(rng, 0.25, 1.5, 8) for _ in range(d)]
        k = rng.randrange(1, d + 1)

        def make():
            if cls == "DefaultTime":
                o = U.DefaultTime(levels[0])
            elif cls == "NthDefaultTimes":
                o = U.NthDefaultTimes(list(levels), k)
            else:
                o = U.DefaultTimeNthUnderlying(list(levels), k)
            o.update(rep_enum(lg))
            return o

        def gen_row(defaults, n):
            """log-jump path (LOG) or its level path 2^j (identity: log-ratios are multiples of ln 2, never within 1e-9 of a dyadic level)"""
            x, row = 0, [0]
            where = rng.randrange(1, n) if defaults else None
            for i in range(1, n):
                x += (-3 if i == where else rng.choice([0, 0, 1]))
                row.append(x)
            return [float(v) for v in row] if lg else [2.0 ** v for v in row]

        obj = make()
        n_val = rng.randrange(3, 6)
        pattern = [[True] * d, [False] * d] + [[rng.random() < 0.5 for _ in range(d)] for _ in range(n_val - 2)]
        rng.shuffle(pattern)
        if it % 2 == 0:
            pattern[0], pattern[1] = [True] * d, [False] * d          # default first, then a default-free path
        history = []
        for step, pat in enumerate(pattern):
            n = rng.randrange(3, 9)
            times = gen_times(rng, n)
            rows = [gen_row(pat[j], n) for j in range(d)]
            arr = np.array(rows[0]) if cls == "DefaultTime" else np.array(rows)
            t = np.array(times)
            got = fin(obj.value(t, arr.copy(), arr.copy()))
            fresh = fin(make().value(t, arr.copy(), arr.copy()))
            history.append({"defaults": pat, "times": times, "rows": rows, "got": got, "fresh": fresh})
            res.count(("default-history", cls, lg, d, k, step, tuple(times), repr(rows)), nontrivial=step >= 1, kind=f"{cls} reused object")
            res.bump("default_history_pattern", f"{'default' if any(pat) else 'no default'} at valuation {min(step, 3)}")
            stale = got != fresh
            if stale:
                res.violation("a default-time underlying object returns a value that depends on the paths valued earlier on the same object",
                              {"kind": "default-history", "cls": cls, "log": lg, "levels": levels, "index": k, "valuations": history})
            # model: DefaultTime = first default of the single row; DefaultTimeNthUnderlying = that of row k; NthDefaultTimes = order statistic
            if cls == "NthDefaultTimes":
                m_levels, m_rows, m_k = levels, rows, k - 1
            else:
                j = 0 if cls == "DefaultTime" else k - 1
                m_levels, m_rows, m_k = [levels[j]], [rows[j]], 0
            lt = {}
            if not lg:
                for row in m_rows:
                    for x, l in zip(row, np.log(np.array(row, dtype=float))):
                        lt[x] = float(l)
            cases.append(f"({natlit(m_k)}, {lst([qlit(a) for a in m_levels])}, {lst([qlit(x) for x in times])}, "
                         f"{lst([lst([qlit(x) for x in row]) for row in m_rows])}, {blit(lg)}, {table_lit(lt)}, "
                         f"{'UInf' if got is None else '(UFin ' + qlit(got) + ')'})")
            if stale:
                break            # the case above also breaks the correspondence with the (history-free) model
    return cases


def control_variates_oracle(res, rng, tier):
    """ControlVariates.initialisation / process / process_mlmc: the value of every control product on a path must be the value a FRESH
    product gives on that path (pure function of the path), over sequences of >= 3 paths on ONE ControlVariates object, with barrier
    controls (knocked and un-knocked paths), in both representations; and the multilevel engine must hand the representation of the
    process to the control products as the standard engine does."""
    import numpy as np
    from rpylib.product.product import ControlVariates
    from rpylib.product import underlying as U
    for it in range(60 if tier == "quick" else 600):
        lg = it % 2 == 1
        specs = [{"und": ("spot",), "pay": ("barrier", rng.choice([1, -1]), dy(rng, 70, 150, 8), rng.random() < 0.5, rng.random() < 0.5, dy(rng, 60, 160, 8) + 1 / 16),
                  "notional": dy(rng, 0.25, 8, 4)},
                 {"und": ("spot",), "pay": gen_payoff(rng), "notional": 1.0}]
        prods = [make_product(sp) for sp in specs]
        for pr in prods:
            pr.update(rep_enum(lg))
        cv = ControlVariates(products=prods, prices=[0.0] * len(prods))
        cv.initialisation(U.Spot)
        history = []
        for step in range(rng.randrange(3, 6)):
            n = rng.randrange(2, 9)
            times = gen_times(rng, n)
            mlmc = step % 2 == 1
            paths = [gen_spot_path(rng, n, False) for _ in range(2 if mlmc else 1)]
            arrs = [np.log(np.array(p)) if lg else np.array(p) for p in paths]
            fresh = []
            for pth, arr in zip(paths, arrs):
                row = []
                for sp in specs:
                    f = make_product(sp)
                    f.update(rep_enum(lg))
                    row.append(float(f(f.underlying_value(np.array(times), arr, arr))))
                fresh.append(row)
            t = np.array(times)
            try:
                if mlmc:
                    spot = [float(U.Spot().value(t, a, a)) if not lg else float(np.exp(a[-1])) for a in arrs]
                    out = np.asarray(cv.process_mlmc(t, arrs[0], arrs[1], arrs[0], arrs[1], spot[0], spot[1]), dtype=float)
                    # shape (number of controls, 1, 2): last axis = fine / coarse
                    got = [[float(out[k, 0, 0]) for k in range(len(specs))], [float(out[k, 0, 1]) for k in range(len(specs))]]
                else:
                    spot = float(np.exp(arrs[0][-1])) if lg else float(arrs[0][-1])
                    out = np.asarray(cv.process(t, arrs[0], arrs[0], spot), dtype=float)
                    got = [[float(v) for v in out.ravel()]]
            except Exception as e:  # noqa
                res.violation(f"ControlVariates.{'process_mlmc' if mlmc else 'process'} raises {type(e).__name__}",
                              {"kind": "control-variates", "products": specs, "log": lg, "error": f"{type(e).__name__}: {e}"})
                break
            history.append({"call": "process_mlmc" if mlmc else "process", "times": times, "spot_paths": paths, "got": got, "fresh": fresh})
            res.count(("cv", json.dumps(specs), lg, step, tuple(times), repr(paths)), nontrivial=step >= 1, kind=f"ControlVariates.{'process_mlmc' if mlmc else 'process'}")
            if any(abs(g - f) > 1e-9 * max(1.0, abs(f)) for gr, fr in zip(got, fresh) for g, f in zip(gr, fr)):
                res.violation("a control variate's value on a path is not the value of a fresh product on that path (payoff.process not called / stale knock flag)",
                              {"kind": "control-variates", "finding": "F-C17-9", "products": specs, "log": lg, "calls": history})
                break
    # same underlying CLASS, different parameters: the control reuses the main product's underlying value (recorded: F-C17-10)
    t, jumps = np.array([0.0, 1.0, 2.0, 3.0]), np.array([0.0, -0.5, -2.0, -4.0])
    ctrl = make_product({"und": ("dt", -0.25), "pay": ("forward", 0.0), "notional": 1.0})
    ctrl.update(rep_enum(True))
    main_u = U.DefaultTime(-1.0)
    main_u.update(rep_enum(True))
    cv = ControlVariates(products=[ctrl], prices=[0.0])
    cv.initialisation(U.DefaultTime)
    res.count(("cv-imply",), kind="ControlVariates same underlying class")
    main_value = float(main_u.value(t, jumps, jumps))
    got = float(np.asarray(cv.process(t, jumps, jumps, main_value)).ravel()[0])
    alone = float(ctrl(ctrl.underlying_value(t, jumps, jumps)))
    if got != alone:
        res.violation("a control variate whose underlying has the class of the main product's underlying takes the MAIN product's underlying value, whatever its own parameters",
                      {"kind": "cv-imply", "finding": "F-C17-10", "control_level": -0.25, "main_level": -1.0, "times": t.tolist(), "log_jumps": jumps.tolist(),
                       "inside_control_variates": got, "alone": alone, "main_underlying": main_value})
    # multilevel engine: update(representation) must reach the control products (the standard engine does it)
    from rpylib.montecarlo.multilevel.engine import Engine
    from rpylib.process.process import ProcessRepresentation as PR

    class _Fine:
        process_representation = PR.LOG

        def deterministic_path(self, times):
            return 0.0

    class _Model:
        def dimension_model(self):
            return 1

    class _Coupling:
        model, fine_process = _Model(), _Fine()

        def initialisation(self, product):
            raise RuntimeError("stop here: only the update calls are observed")

    class _Config:
        nb_of_processes = 2

        def __init__(self, cvs):
            self.control_variates = cvs

    ctrl = make_product({"und": ("spot",), "pay": ("forward", 0.0), "notional": 1.0})
    main = make_product({"und": ("spot",), "pay": ("forward", 0.0), "notional": 1.0})
    eng = Engine(_Config(ControlVariates(products=[ctrl], prices=[0.0])), _Coupling())
    try:
        eng.initialisation(main)
    except RuntimeError:
        pass
    res.count(("cv-mlmc-update",), kind="multilevel engine: representation of the control variates")
    lp = np.log(np.array([100.0, 120.0]))
    um, uc = float(main.underlying_value(np.array([0.0, 1.0]), lp, lp)), float(ctrl.underlying_value(np.array([0.0, 1.0]), lp, lp))
    if abs(um - 120.0) > 1e-9 or abs(uc - 120.0) > 1e-9:
        res.violation("multilevel Engine.initialisation does not hand the process representation to the control-variate products",
                      {"kind": "cv-mlmc-update", "finding": "F-C17-11", "main_underlying_on_log_path": um, "control_underlying_on_log_path": uc, "spot": 120.0})


def representation_oracle(res, rng, tier):
    """the SAME spot path under the identity and the LOG representation on fresh products: every payoff class, in
    particular barriers (whose level is in spot units), must give the same value"""
    import numpy as np
    for i in range(200 if tier == "quick" else 2500):
        n = rng.randrange(1, 10)
        times, path = gen_times(rng, n), gen_spot_path(rng, n, False)
        pay = gen_payoff(rng) if i % 2 else ("barrier", rng.choice([1, -1]), dy(rng, 70, 150, 8), rng.random() < 0.5, rng.random() < 0.5,
                                            rng.choice(path) if i % 4 == 0 else dy(rng, 60, 160, 8) + 1 / 16)    # also barriers AT a path value
        pspec = {"und": ("spot",), "pay": pay, "notional": dy(rng, 0.25, 8, 4)}
        vals = {}
        for lg in (False, True):
            prod = make_product(pspec)
            prod.update(rep_enum(lg))
            arr = np.log(np.array(path)) if lg else np.array(path)
            u = float(prod.underlying_value(np.array(times), arr, arr))
            vals[lg] = (u, float(prod(u)))
        res.count(("rep", json.dumps(pspec), tuple(path)), nontrivial=pay[0] == "barrier" and min(path) < pay[5] < max(path), kind=f"same spot path, both representations ({pay[0]})")
        if abs(vals[True][1] - vals[False][1]) > 1e-9 * max(1.0, abs(vals[False][1])):
            touch = pay[0] == "barrier" and pay[5] in path
            if touch:
                # the path touches the barrier exactly: strict inequality in spot units, but exp(log b) != b in floats (recorded: F-C17-13)
                res.violation("barrier touched exactly: the knock test '>' / '<' is decided by the rounding of exp(log(barrier)) in the LOG representation",
                              {"kind": "rep-touch", "finding": "F-C17-13", "product": pspec, "times": times, "spot_path": path,
                               "identity": list(vals[False]), "log": list(vals[True]),
                               "exp_log_of_barrier": float(np.exp(np.log(np.float64(pay[5]))))})
            else:
                res.violation("the value of a product on the same spot path depends on the process representation",
                              {"kind": "rep-product", "finding": "F-C17-7", "product": pspec, "times": times, "spot_path": path,
                               "identity": list(vals[False]), "log": list(vals[True])})


def shared_underlying_oracle(res, rng, tier):
    """SEVERAL products that share ONE underlying object (a call and a put on the same Spot(), a control variate sharing the main
    product's underlying), valued in an interleaved order with a representation chosen per valuation (each valuation starts with
    product.update(rep), as the engines do): every value must be the value of a fresh product with a fresh underlying."""
    import numpy as np
    from rpylib.product import underlying as U
    from rpylib.product.product import Product, ControlVariates
    und_kinds = [("spot",), ("asian",), ("logspot",), ("libors",), ("dt", -0.5)]
    for it in range(80 if tier == "quick" else 800):
        uk = und_kinds[it % len(und_kinds)]
        shared = make_underlying(uk)
        pays = [gen_payoff(rng) for _ in range(rng.randrange(2, 4))]
        prods = [Product(shared, make_payoff(pay), maturity=1.0, notional=1.0) for pay in pays]
        history = []
        # first valuation: product 0 under LOG; second: ANOTHER product (never used before) under the identity representation
        plan = [(0, True), (1, False)] + [(rng.randrange(len(prods)), rng.random() < 0.5) for _ in range(rng.randrange(1, 4))]
        if it % 3 == 0:
            rng.shuffle(plan)
        for step, (k, lg) in enumerate(plan):
            n = rng.randrange(2, 8)
            times = gen_times(rng, n)
            if uk[0] == "dt":
                path = None
                while path is None:
                    path = gen_jump_path(rng, n, lg, uk[1])
                arr = np.array(path)
            else:
                path = gen_spot_path(rng, n, False)
                arr = np.log(np.array(path)) if lg else np.array(path)
            t = np.array(times)
            prods[k].update(rep_enum(lg))
            u = float(prods[k].underlying_value(t, arr.copy(), arr.copy()))
            v = float(prods[k](u)) if u == u and abs(u) != float("inf") else None
            fresh = Product(make_underlying(uk), make_payoff(pays[k]), maturity=1.0, notional=1.0)
            fresh.update(rep_enum(lg))
            fu = float(fresh.underlying_value(t, arr.copy(), arr.copy()))
            fv = float(fresh(fu)) if fu == fu and abs(fu) != float("inf") else None
            history.append({"product": k, "payoff": list(pays[k]), "log": lg, "times": times, "path": path, "underlying": u, "value": v,
                            "fresh_underlying": fu, "fresh_value": fv})
            res.count(("shared-und", uk, step, k, lg, tuple(times), repr(path)), nontrivial=step >= 1, kind=f"products sharing one {uk[0]} underlying")
            if (u, v) != (fu, fv):
                res.violation("products sharing one underlying object: the value of a product depends on the representation another product was priced with before",
                              {"kind": "shared-underlying", "underlying": list(uk), "valuations": history})
                break
    # a control variate sharing the main product's underlying object: priced with a LOG process, then with an identity process
    for it in range(20 if tier == "quick" else 200):
        shared = U.Spot()
        main = Product(shared, make_payoff(("vanilla", 1, dy(rng, 70, 150, 8))), maturity=1.0)
        ctrl = Product(shared, make_payoff(("vanilla", -1, dy(rng, 70, 150, 8))), maturity=1.0)
        cv = ControlVariates(products=[ctrl], prices=[0.0])      # initialised below with a different class: the control computes its own underlying
        runs = []
        for lg in ([True, False, True] if it % 2 == 0 else [False, True, False]):
            n = rng.randrange(2, 7)
            times, path = gen_times(rng, n), gen_spot_path(rng, n, False)
            arr = np.log(np.array(path)) if lg else np.array(path)
            t = np.array(times)
            main.update(rep_enum(lg))
            for pr in cv.products:          # what both engines do before pricing: update, then (configuration.initialisation) the
                pr.update(rep_enum(lg))     # control variates re-read their underlying functions
            cv.initialisation(U.Asian)
            um = float(main.underlying_value(t, arr, arr))
            vm = float(main(um))
            vc = float(np.asarray(cv.process(t, arr, arr, um)).ravel()[0])
            want_m, want_c = max(path[-1] - main.payoff.strike, 0.0), max(ctrl.payoff.strike - path[-1], 0.0)
            runs.append({"log": lg, "path": path, "main": vm, "control": vc, "want_main": want_m, "want_control": want_c})
            res.count(("shared-cv", it, lg, tuple(path)), nontrivial=len(runs) > 1, kind="control variate sharing the main underlying")
            if abs(vm - want_m) > 1e-9 * max(1.0, want_m) or abs(vc - want_c) > 1e-9 * max(1.0, want_c):
                res.violation("a control variate sharing the main product's underlying object is valued in the wrong representation",
                              {"kind": "shared-underlying-cv", "runs": runs})
                break


def shapes_oracle(res, rng, tier):
    """shapes the property quantifies over beyond flat scalar paths: (1, n) paths, vector underlyings, and the product classes
    that have no Coq model, each through the fresh-object (history-freeness) oracle"""
    import numpy as np
    from rpylib.product import payoff as P
    from rpylib.product import underlying as U
    from rpylib.product.product import Product
    # (1, n) paths (what MarkovChainSDE returns) must give what the flat path gives
    for i in range(40 if tier == "quick" else 400):
        n = rng.randrange(2, 9)
        times, path = gen_times(rng, n), gen_spot_path(rng, n, False)
        pspec = {"und": ("spot",), "pay": gen_payoff(rng) if i % 2 else ("barrier", 1, dy(rng, 70, 150, 8), rng.random() < 0.5, rng.random() < 0.5, rng.choice(path)),
                 "notional": 1.0}
        res.count(("shape-1n", json.dumps(pspec), tuple(path)), kind="(1, n) path")
        flat = make_product(pspec)
        vf = float(flat(flat.underlying_value(np.array(times), np.array(path), np.array(path))))
        try:
            two = make_product(pspec)
            a2 = np.array([path])
            v2 = float(np.asarray(two(two.underlying_value(np.array(times), a2, a2))).ravel()[0])
        except Exception as e:  # noqa
            res.violation(f"a product cannot be valued on a path of shape (1, n): {type(e).__name__}",
                          {"kind": "shape-1n", "finding": "F-C17-14", "product": pspec, "times": times, "path": path, "error": f"{type(e).__name__}: {e}"})
            continue
        if v2 != vf:
            res.violation("a (1, n) path gives a different value than the same flat path", {"kind": "shape-1n", "product": pspec, "path": path, "flat": vf, "row": v2})
    # vector underlyings: every payoff must act componentwise (or refuse); recorded: F-C17-12
    vec = np.array([95.0, 120.0, 200.0])
    for name, pay in (("Forward", P.Forward(100.0)), ("Vanilla", P.Vanilla(100.0, P.PayoffType.CALL)), ("CallSpread", P.CallSpread(90.0, 110.0)),
                      ("Butterfly", P.Butterfly(90.0, 100.0, 110.0)), ("Digital", P.Digital(100.0, P.PayoffType.CALL))):
        want = [float(pay.evaluate(float(x))) for x in vec]
        res.count(("vector", name), kind="vector underlying")
        try:
            got = np.asarray(pay.evaluate(vec), dtype=float).ravel().tolist()
            err = None
        except Exception as e:  # noqa
            got, err = None, f"{type(e).__name__}: {e}"
        if got != want:
            res.violation("a payoff evaluated on a vector underlying is not its componentwise value (scalar-only formula)",
                          {"kind": "vector-underlying", "finding": "F-C17-12", "payoff": name, "underlying": vec.tolist(), "got": got, "error": err, "componentwise": want})
    # NthSpot shortcut used by ControlVariates
    res.count(("nthspot-imply",), kind="NthSpot.imply_from_payoff_underlying")
    try:
        f = U.NthSpot(2).imply_from_payoff_underlying(U.Spot)
        v = float(f(np.array([0.0, 1.0]), np.array([[1.0, 2.0], [3.0, 4.0]]), np.array([[0.0, 0.0], [0.0, 0.0]]), np.array([2.0, 4.0])))
        if v != 4.0:
            res.violation("NthSpot.imply_from_payoff_underlying does not return the n-th spot", {"kind": "nthspot-imply", "got": v})
    except Exception as e:  # noqa
        res.violation("NthSpot.imply_from_payoff_underlying(Spot) cannot be called the way ControlVariates calls it",
                      {"kind": "nthspot-imply", "finding": "F-C17-15", "error": f"{type(e).__name__}: {e}"})
    # classes without a Coq model: value on a reused object == value on a fresh object, over 3 paths, both representations
    spots = [100.0, 50.0, 80.0]
    df = lambda t: float(np.exp(-0.03 * t))      # noqa
    und_factories = {
        "Mean": lambda: U.Mean(), "Performances": lambda: U.Performances(spots), "MaximumOfPerformances": lambda: U.MaximumOfPerformances(spots),
        "NthSpot": lambda: U.NthSpot(2), "Indicators": lambda: U.Indicators([90.0, 40.0, 70.0]), "Indicators(<=0)": lambda: U.Indicators([-1.0, 0.0, 70.0]),
        "LogSpot": lambda: U.LogSpot(), "Libors": lambda: U.Libors(), "Spot(d,n)": lambda: U.Spot(),
    }
    for name, fac in und_factories.items():
        for lg in (False, True):
            obj = fac()
            obj.update(rep_enum(lg))
            for step in range(3):
                n = rng.randrange(2, 7)
                times = gen_times(rng, n)
                path = np.array([[dy(rng, 30, 160, 8) for _ in range(n)] for _ in spots])
                arr = np.log(path) if lg else path
                res.count(("unmodelled-und", name, lg, step, repr(path.tolist())), nontrivial=step >= 1, kind=f"unmodelled underlying {name}")
                try:
                    got = np.asarray(obj.value(np.array(times), arr.copy(), arr.copy()), dtype=float).ravel().tolist()
                    fresh = fac()
                    fresh.update(rep_enum(lg))
                    want = np.asarray(fresh.value(np.array(times), arr.copy(), arr.copy()), dtype=float).ravel().tolist()
                    ident = np.asarray(fac().value(np.array(times), path.copy(), path.copy()), dtype=float).ravel().tolist()
                except Exception as e:  # noqa
                    res.violation(f"underlying {name} raises {type(e).__name__}", {"kind": "unmodelled-und", "cls": name, "log": lg, "error": f"{type(e).__name__}: {e}"})
                    break
                if got != want:
                    res.violation("an underlying object returns a value that depends on the paths valued earlier", {"kind": "unmodelled-und", "cls": name, "log": lg, "got": got, "fresh": want})
                    break
                if any(abs(a - b) > 1e-9 * max(1.0, abs(b)) for a, b in zip(want, ident)):
                    rp = {"kind": "unmodelled-und", "cls": name, "spot_path": path.tolist(), "log": want, "identity": ident}
                    if name.startswith("Indicators"):
                        rp["finding"] = "F-C17-16"
                    res.violation("identity and LOG representation give different underlying values for the same spot path", rp)
                    break
    rates, deltas = np.array([0.02, 0.03, 0.025]), np.array([0.5, 0.5, 0.5])
    pay_factories = {
        "Rainbow": (lambda: P.Rainbow([0.5, 0.3, 0.2], 1.0, P.PayoffType.CALL), lambda: np.array([dy(rng, 0.5, 2, 16) for _ in range(3)])),
        "CDS": (lambda: P.CDS(0.4, 0.01, 5.0, df), lambda: rng.choice([float("inf"), dy(rng, 0.25, 8, 8)])),
        "Bond": (lambda: P.Bond(rates, deltas), lambda: np.array([dy(rng, 0, 0.0625, 256) for _ in range(3)])),
        "Cap": (lambda: P.Cap(rates, deltas, 0.02), lambda: np.array([dy(rng, 0, 0.0625, 256) for _ in range(3)])),
        "Ratchet": (lambda: P.Ratchet(deltas, 1.0, 0.0, 0.01, 0.001, 0.02), lambda: np.array([dy(rng, 0, 0.0625, 256) for _ in range(3)])),
        "Swaption": (lambda: P.Swaption(rates, deltas, 0.02), lambda: np.array([dy(rng, 0, 0.0625, 256) for _ in range(3)])),
        "FixedCoupon": (lambda: P.FixedCoupon(0.05), lambda: dy(rng, 50, 150, 8)),
    }
    for name, (fac, arg) in pay_factories.items():
        obj = fac()
        for step in range(3):
            u = arg()
            res.count(("unmodelled-pay", name, step, repr(np.asarray(u).tolist())), nontrivial=step >= 1, kind=f"unmodelled payoff {name}")
            try:
                obj.process(None, np.array([1.0, 2.0]))
                got = np.asarray(obj.evaluate(u), dtype=float).ravel().tolist()
                f2 = fac()
                f2.process(None, np.array([1.0, 2.0]))
                want = np.asarray(f2.evaluate(u), dtype=float).ravel().tolist()
            except Exception as e:  # noqa
                res.violation(f"payoff {name} raises {type(e).__name__}", {"kind": "unmodelled-pay", "cls": name, "error": f"{type(e).__name__}: {e}"})
                break
            if got != want and not (got != got and want != want):
                res.violation("a payoff object returns a value that depends on the evaluations made earlier", {"kind": "unmodelled-pay", "cls": name, "got": got, "fresh": want})
                break


def lookback_oracle(res):
    """LookBack is stateful through max_spot; its process() raises by design, so the product cannot be valued on a path"""
    import numpy as np
    from rpylib.product import payoff as P
    from rpylib.product.product import Product
    from rpylib.product.underlying import Spot
    prod = Product(Spot(), P.LookBack(100.0), 1.0)
    t, path = np.array([0.0, 0.5, 1.0]), np.array([4.5, 4.75, 4.625])
    res.count(("lookback",), kind="LookBack")
    try:
        u = prod.underlying_value(t, path, path)
        v1 = float(prod(u))
        u2 = prod.underlying_value(t, path - 1.0, path - 1.0)
        fresh = Product(Spot(), P.LookBack(100.0), 1.0)
        v2, vf = float(prod(u2)), float(fresh(fresh.underlying_value(t, path - 1.0, path - 1.0)))
        if v2 != vf:
            res.violation("LookBack: the value depends on the paths processed earlier", {"kind": "lookback", "values": [v1, v2, vf]})
    except Exception as e:  # noqa
        res.violation("LookBack payoff cannot be valued on a path: process() raises", {"kind": "lookback", "finding": "F-C17-8",
                                                                                      "error": f"{type(e).__name__}: {e}", "max_spot_left_behind": float(prod.payoff.max_spot)})


def matches_known(v, known):
    """a violation is accepted as a recorded finding only if it is exactly the recorded class"""
    r, kid = v["replay"], known["id"]
    if kid == "F-C17-4":
        try:
            k1, k2, k3, u, got = (Fraction(r[x]) for x in ("k1", "k2", "k3", "u", "got"))
        except Exception:  # noqa
            return False
        call = lambda k: max(u - k, Fraction(0))   # noqa
        return r.get("kind") == "butterfly" and k1 < k2 < k3 and k1 + k3 > 2 * k2 and got < 0 and got == call(k1) - 2 * call(k2) + call(k3)
    if kid == "F-C17-12":
        return r.get("kind") == "vector-underlying" and r.get("payoff") in ("CallSpread", "Butterfly", "Digital") and len(r.get("underlying", [])) >= 2 \
            and (r.get("error") is not None or r.get("payoff") == "Butterfly")
    if kid == "F-C17-13":
        try:
            b = r["product"]["pay"][5]
            return r.get("kind") == "rep-touch" and r["product"]["pay"][0] == "barrier" and b in r["spot_path"] and r.get("exp_log_of_barrier") != b
        except Exception:  # noqa
            return False
    if kid == "F-C17-10":
        return r.get("kind") == "cv-imply" and r.get("inside_control_variates") == r.get("main_underlying") != r.get("alone")
    if kid == "F-C17-8":
        return r.get("kind") == "lookback" and r.get("error", "").startswith("ValueError: it depends on the process representation")
    return False


def mlmc_oracle(res, rng, tier):
    """MLMCPath.process (fine and coarse path on one product object) against fresh objects"""
    import numpy as np
    from rpylib.montecarlo.path import MLMCPath, StochasticJumpPath
    from rpylib.product.product import NoControlVariates
    for i in range(60 if tier == "quick" else 600):
        n = rng.randrange(2, 9)
        times = gen_times(rng, n)
        fine, coarse = gen_spot_path(rng, n, False), gen_spot_path(rng, n, False)
        pspec = {"und": ("spot",), "pay": gen_payoff(rng, False) if i % 3 else ("barrier", 1, 100.0, False, False, 130.0), "notional": 1.0}
        prod = make_product(pspec)
        m = MLMCPath(deterministic_path=lambda tt: 0.0, activate_spot_underlying=False)
        m.set_to_path(StochasticJumpPath(np.array(times), np.zeros((2, n)), np.array([fine, coarse])))
        m.process(prod, NoControlVariates())
        got = [float(m.payoff[0]), float(m.payoff[1])]
        want = []
        for p in (fine, coarse):
            f = make_product(pspec)
            want.append(float(f(f.underlying_value(np.array(times), np.array(p), np.array(p)))))
        res.count(("mlmc", json.dumps(pspec), tuple(fine), tuple(coarse)), nontrivial=pspec["pay"][0] == "barrier", kind="MLMCPath.process")
        if got != want:
            res.violation("MLMCPath.process: the payoff of the fine path depends on the coarse path processed on the same product",
                          {"kind": "mlmc", "finding": "F-C17-5", "product": pspec, "times": times, "fine": fine, "coarse": coarse, "got": got, "fresh": want})
            break


# ----------------------------------------------------------------------------- correspondence
HEADER = """From Coq Require Import ZArith QArith List Bool.
From RV Require Import Base.QB Base.Corr Gen.GenC17Payoff Model.Payoff.
Import ListNotations.
Open Scope Q_scope.
(* one tolerance per output: 0 (exact) unless np.exp entered that value *)
Fixpoint outs_eqb (tols : list Q) (a b : list out) : bool :=
  match tols, a, b with
  | [], [], [] => true
  | tol :: ts, x :: r, y :: s => out_eqb tol x y && outs_eqb ts r s
  | _, _, _ => false
  end.
Definition seq_check (c : list (Q * Q) * list (Q * Q) * list Q * product * list op * list out) : bool :=
  match c with (et, lt, tols, pr, ops, outs) =>
    outs_eqb tols (snd (run (qlookup et) (qlookup lt) pr fresh ops)) outs end.
Definition payoff_check (c : payoff * bool * Q * Q) : bool :=
  match c with (p, ev, u, e) => Qeq_bool (payoff_eval p ev u) e end.
Definition nth_check (c : nat * list Q * list Q * list (list Q) * bool * list (Q * Q) * uval) : bool :=
  match c with (k, levels, times, rows, lg, lt, e) =>
    uval_eqb (nth_default (qlookup lt) lg k levels times rows) e end.
"""


def correspond(res):
    import warnings
    warnings.simplefilter("ignore")      # 0.0 / 0.0 in Asian.value on a grid ending at time 0 (modelled as UErr)
    rng = random.Random(res.seed)
    tier = res.tier
    payoff_cases = []
    static_oracle(res, rng, tier, payoff_cases)
    barrier_oracle(res, rng, tier, payoff_cases)
    underlying_oracle(res, rng, tier)
    nth_cases = nth_default_cases(res, rng, tier) + default_history_cases(res, rng, tier)
    mlmc_oracle(res, rng, tier)
    representation_oracle(res, rng, tier)
    control_variates_oracle(res, rng, tier)
    shared_underlying_oracle(res, rng, tier)
    shapes_oracle(res, rng, tier)
    lookback_oracle(res)

    seq_cases, seq_meta = [], []
    reported = set()
    for i in range(350 if tier == "quick" else 4000):
        pspec, ops, triples = gen_sequence(rng, tier)
        real_ops, outs, idx_map = run_sequence(pspec, ops)
        pos = [(idx_map[iuv], idx_map.get(icall), rep) for (iuv, icall, rep) in triples]
        n_uv = sum(1 for o in real_ops if o[0] == "uv")
        uses_log = any(o[0] == "update" and o[1] for o in real_ops)
        res.count((json.dumps(pspec), repr(real_ops)), nontrivial=n_uv >= 2, kind=f"sequence {pspec['und'][0]}/{pspec['pay'][0]}")
        res.bump("seq_len_paths", n_uv)
        res.bump("seq_representation", "mixed/log" if uses_log else "identity only")
        if pspec["pay"][0] == "barrier":
            flags = set()
            for o in real_ops:
                if o[0] == "uv":
                    _, _, path, _ = o
                    b, down = pspec["pay"][5], pspec["pay"][4]
                    import math
                    spots = [math.exp(v) for v in path] if (path and max(path) < 10) else path      # LOG-scale paths
                    flags.add(any((v < b) if down else (v > b) for v in spots))
            res.bump("seq_barrier_paths", "knocked+unknocked" if len(flags) == 2 else ("knocked" if True in flags else "unknocked"))
        ok = history_check(res, pspec, real_ops, outs, pos)
        for o in outs:
            if o[0] == "raise" and ("raise", pspec["und"][0]) not in reported:
                reported.add(("raise", pspec["und"][0]))
                if ok:
                    res.violation(f"operation on the product raises: {o[1]}", {"kind": "history", "product": pspec, "ops": [list(x) for x in real_ops],
                                                                              **({"finding": "F-C17-3"} if pspec["und"][0] == "asian" else {})})
        et, lt = tables_for(pspec, real_ops)
        # tolerance only for the outputs that np.exp entered: underlying values under the LOG representation and calls on them
        tols, cur_log, tainted_u = [], False, False
        for o in real_ops:
            if o[0] == "update":
                cur_log = o[1]
                tols.append(Fraction(0))
            elif o[0] == "uv":
                tainted_u = cur_log or (pspec["und"][0] == "logspot")      # np.exp / np.log entered the value
                tols.append(TOL_LOG if tainted_u else Fraction(0))
            else:
                prev_u = next((x for x in reversed(real_ops[:len(tols)]) if x[0] == "uv"), None)
                from_u = prev_u is not None and real_ops[len(tols) - 1][0] == "uv"
                tols.append(TOL_LOG if (from_u and tainted_u) else Fraction(0))
        prod_lit = f"(Build_product {und_lit(pspec['und'])} {payoff_lit(pspec['pay'])} {qlit(pspec['notional'])})"
        with_j = pspec["und"][0] == "dt"
        seq_cases.append(f"({table_lit(et if uses_log else {})}, {table_lit(lt)}, {lst([qlit(t) for t in tols])}, {prod_lit}, "
                         f"{lst([op_lit(o, with_j) for o in real_ops])}, {lst([out_lit(o) for o in outs])})")
        seq_meta.append((pspec, real_ops, outs))

    for spec, ev, u, e in payoff_cases:
        res.count(("payoff", spec, ev, u), nontrivial=True, kind=f"evaluate {spec[0]}")
    for nm, lst_ in (("payoff", payoff_cases), ("nth", nth_cases), ("seq", seq_cases)):
        if not lst_:
            res.broke(f"correspondence {nm}", "no case could be produced for this group (an empty group would otherwise be dropped silently)")
    pay_lits = [f"({payoff_lit(s)}, {blit(ev)}, {qlit(u)}, {qlit(e)})" for s, ev, u, e in payoff_cases]
    groups = [(f"payoff{k // 3000}", "payoff * bool * Q * Q", "payoff_check", pay_lits[k:k + 3000]) for k in range(0, len(pay_lits), 3000)]
    groups += [(f"nth{k // 1000}", "nat * list Q * list Q * list (list Q) * bool * list (Q * Q) * uval", "nth_check", nth_cases[k:k + 1000])
               for k in range(0, len(nth_cases), 1000)]
    shard = 400
    for k in range(0, len(seq_cases), shard):
        groups.append((f"seq{k // shard}", "list (Q * Q) * list (Q * Q) * list Q * product * list op * list out", "seq_check", seq_cases[k:k + shard]))
    from concurrent.futures import ThreadPoolExecutor
    res.case_lemmas += len(groups)

    def work(g):
        return g, coq_bad_indices(PROP, f"cases_{g[0]}", HEADER, [g], timeout=900)[g[0]]

    with ThreadPoolExecutor(max_workers=8) as ex:
        for g, bad in ex.map(work, groups):
            if bad:
                detail = f"model and implementation differ on {len(bad)} case(s), first: {g[3][bad[0]][:1500]}"
                if g[0].startswith("seq"):
                    base = int(g[0][3:]) * shard
                    pspec, rops, outs = seq_meta[base + bad[0]]
                    detail += f"\nproduct={pspec} ops={rops} implementation outputs={outs}"
                res.broke(f"correspondence {g[0]}", detail)
            else:
                res.case_ok += 1


def search(res):
    """deeper implementation-only search when a proof/correspondence broke and the quick oracle found nothing"""
    rng = random.Random(res.seed + 1)
    for i in range(3000):
        pspec, ops, triples = gen_sequence(rng, "thorough")
        # force full triples so that every call can be compared with a fresh object
        prod_ops, outs, _ = run_sequence(pspec, ops)
        pos, cur = [], False
        for k, o in enumerate(prod_ops):
            if o[0] == "update":
                cur = o[1]
            if o[0] == "call" and k > 0 and prod_ops[k - 1][0] == "uv":
                pos.append((k - 1, k, cur))
        if not history_check(res, pspec, prod_ops, outs, pos):
            return


def replay(path):
    data = json.load(open(path))
    print(json.dumps(data, indent=1)[:4000])
    kind = data.get("kind")
    if kind == "butterfly":
        from rpylib.product import payoff as P
        v = float(P.Butterfly(data["k1"], data["k2"], data["k3"]).evaluate(data["u"]))
        print("Butterfly.evaluate ->", v)
        return 1 if v < 0 else 0
    if kind == "history":
        pspec = data["product"]
        pspec = {"und": tuple(pspec["und"]), "pay": tuple(pspec["pay"]), "notional": pspec["notional"]}
        ops = [tuple(o) for o in data["ops"]]
        prod = make_product(pspec)
        outs = [apply_op(prod, o) for o in ops]
        fresh = make_product(pspec)
        apply_op(fresh, ("update", data.get("triple_rep_log", False)))
        tail = [o for o in ops if o[0] != "update"][-2:] if ops[-1][0] == "call" else [ops[-1]]
        fouts = [apply_op(fresh, o) for o in tail]
        print("on the used object :", outs[-len(tail):])
        print("on a fresh object  :", fouts)
        return 0 if outs[-len(tail):] == fouts and not any(o[0] == "raise" for o in outs) else 1
    if kind == "mlmc":
        import numpy as np
        from rpylib.montecarlo.path import MLMCPath, StochasticJumpPath
        from rpylib.product.product import NoControlVariates
        pspec = {"und": tuple(data["product"]["und"]), "pay": tuple(data["product"]["pay"]), "notional": data["product"]["notional"]}
        m = MLMCPath(deterministic_path=lambda tt: 0.0, activate_spot_underlying=False)
        n = len(data["times"])
        m.set_to_path(StochasticJumpPath(np.array(data["times"]), np.zeros((2, n)), np.array([data["fine"], data["coarse"]])))
        m.process(make_product(pspec), NoControlVariates())
        print("MLMCPath.process payoff ->", list(map(float, m.payoff)), " fresh objects ->", data["fresh"])
        return 0 if list(map(float, m.payoff)) == data["fresh"] else 1
    if kind == "nth-raise":
        import numpy as np
        from rpylib.product import underlying as U
        o = U.NthDefaultTimes(data["levels"], data["index"])
        o.update(rep_enum(data["log"]))
        try:
            print("NthDefaultTimes.value ->", o.value(np.array(data["times"]), np.array(data["rows"]), np.array(data["rows"])))
            return 0
        except Exception as e:  # noqa
            print("NthDefaultTimes.value raises", type(e).__name__, e)
            return 1
    if kind == "asian":
        import numpy as np
        from rpylib.product import underlying as U
        try:
            print("Asian.value ->", U.Asian().value(np.array(data["times"]), np.array(data["path"]), np.array(data["path"])))
            return 0
        except Exception as e:  # noqa
            print("Asian.value raises", type(e).__name__, e)
            return 1
    print("replay: re-run ./check C17 to re-evaluate this class of input")
    return 1


LEVEL_TEXT = ("Proof: 13 Coq theorems (closed under the global context) about the py2coq-generated payoff formulas (Forward, Vanilla, "
              "CallSpread, Butterfly, Digital, Barrier knock-in/out, Product.__call__) and hand models of Spot/Asian/DefaultTime/"
              "NthDefaultTimes and of the Product object as a state machine (barrier flag, representation binding): put-call parity, "
              "spread/butterfly = call combinations, digital call+put = 1, knock-in + knock-out = vanilla for objects in any state, "
              "average between the extremes, default time = first log-jump below the level, n-th default = order statistic and "
              "monotone, notional linear, representation agreement given exp(log x) = x, and history-freeness of "
              "update;underlying_value;call after ANY operation history, for paths of any length. Butterfly non-negativity is proved "
              "equivalent to k1+k3 <= 2 k2 and refuted for the strikes the constructor accepts (F-C17-4). The model follows the tree "
              "repaired by the fix commits for F-C17-1/2/3/5/6/7 (F-C17-7: barrier level compared with exp(path) under LOG; product-level representation agreement proved: C17_product_rep_agree); history-freeness is a theorem about the hand-written state machine, the code is tied to it by sampling; it is tied to the source by the translator and by replaying random "
              "operation sequences on real Product objects against the model (exact on dyadic inputs).")
LEVEL_NOTE = ("Trusted: Coq kernel + vm_compute; py2coq (fail-closed; generated definitions also run against the implementation); floats "
              "as rationals (exact on dyadic inputs, tolerance 2^-36 after np.exp); np.exp/np.log enter the model as tables of the "
              "values numpy returned; numpy slicing/diff/argwhere/argpartition modelled by list functions and pinned by the correspondence. "
              "Payoff/underlying classes not named by the statement (LookBack, Rainbow, CDS, rates payoffs, Mean, ...) are not covered.")
TECHNIQUE = "Coq proof (lra/nra over Q, induction over paths and operation lists) on py2coq-generated payoff definitions + state-machine model, vm_compute correspondence on operation sequences"

"""C18 -- Fourier and closed-form pricers are mutually consistent and arbitrage-free  (PARTIAL).

proof          : identities of the code's definitions (parity for COS / FFT / Black-Scholes), the COS coefficients are the
                 exact cosine-coefficient integrals, Simpson weights, VG = CGMY(Y=0), cdf undiscounted; all on the py2coq
                 translation of the current source.
tie            : Interval-tactic case lemmas  |model - implementation| <= tol  for COSPricer.xi / psi / u_put, the digital
                 coefficients, the Simpson weights and CFBlackScholes.call/put (Phi := Gaussian integral, `integral` tactic).
differential   : (reported as TESTS, never as the proof) COS vs FFT vs closed form on Black-Scholes, COS vs FFT on HEM / Merton /
tests            VG / CGMY, VG vs its CGMY parametrisation, the no-arbitrage predicates on a strike ladder, density and cdf.
"""
import json
import math
import random
import re
import warnings
from fractions import Fraction

from common import coq_eval_file

PROP = "C18"
PROPERTY_FILE = "Properties/C18.v"
GEN_DEPS = ["GenC18Cos"]

TOL = 1e-6            # price tolerances are TOL * spot; probabilities / densities TOL absolute
DECAY = 1e-10         # regime: |characteristic function| at the last COS frequency
BOX = {
    "BLACKSCHOLES": dict(sigma=(0.08, 0.5)),
    "HEM": dict(sigma=(0.03, 0.3), p=(0.2, 0.8), eta1=(1.3, 40.0), eta2=(3.0, 40.0), intensity=(0.5, 6.0)),
    "MERTON": dict(sigma=(0.03, 0.3), mu_j=(0.0, 0.1), sigma_j=(0.03, 0.2), intensity=(0.5, 6.0)),
    "VG": dict(sigma=(0.08, 0.4), nu=(0.03, 0.25), theta=(-0.3, 0.2)),
    "CGMY": dict(c=(0.3, 3.0), g=(2.0, 30.0), m=(1.3, 30.0), y=[0.2, 0.5, 1.2, 1.5]),
}
MATURITIES = [1 / 12, 0.25, 0.5, 1.0, 2.0]
RULE = ("documented box: spot in {1,50,100}, r in {0,.02,.05}, d in {0,.01}, T in {1/12,1/4,1/2,1,2}; " + json.dumps(BOX) +
        " (eta1 and m: 40% of the draws below 6, i.e. heavy right tails); COS regime: |cf(T,u_N)| <= " + str(DECAY) + " at the last COS frequency "
        "u_N = (n-1)pi/(b-a) (n=10000, l=10) -- outside it the same predicates are evaluated with the tolerance widened by 2e4*|cf(u_N)| and the "
        "density quadratures are skipped; strike ladders: 21 strikes with log(K/S) in [a/3, b/3] (hard) and 14 strikes in the outer ring up to "
        "0.9*[a,b] (failures there are the recorded finding F-C18-5, matched by value); FFT comparisons on |log(K/S)| <= 0.7: right-tail rate "
        "M <= 2.5 => the pricer must raise; resolved regime (M >= 5 and |psi(eta)|/|psi(0)| >= 0.95) => hard, otherwise recorded finding F-C18-4; "
        f"tolerances: prices {TOL}*spot, digital/density/cdf {TOL} (cdf vs Simpson-integrated density 5e-4; density on 1001 uniform log-points "
        "over the truncation range), parity 1e-12*max(S,K). non-trivial = model case (all predicates evaluated on its ladders) or an Interval "
        "case lemma with k >= 1; closed form around its threshold: sigma in {0, .5e-8, .99e-8, prev(1e-8), 1e-8, next(1e-8), 1.5e-8, 2e-8, 1e-7}, "
        "T = 1e-9, spot = 1e-9, K/S in {.8, 1, 1.25}; FFT scale cases: Black-Scholes spot in {100, 1e3, 5e3, 9e3, 1e4, 2e4, 1e6} against the same law at "
        "spot 1 (decision must agree: recorded finding F-C18-7; prices homogeneous to 1e-6); VG nu in [-2, -0.03] and 0 must be refused "
        "(recorded finding F-C18-6), nu > 0 controls")
MODELLED = ["numpy elementwise semantics of COSPricer.xi/psi/u_put (translated pointwise by py2coq); np.divide(..., where=mask) leaves "
            "the masked cells uninitialised: modelled by an arbitrary real `uninit` (the theorems show the result never depends on it)",
            "scipy.stats.norm.cdf: abstract Phi (symmetric, [0,1]-valued, monotone) in the theorems; the Gaussian integral PhiR in the "
            "Interval cases; Phi_like PhiR IS proved (C18_PhiR_is_Phi_like: symmetry, monotonicity, and 0 <= PhiR <= 1 from the Gaussian "
            "integral bound (int_0^x e^{-t^2/2})^2 <= pi/2); PhiR -> 1 at +oo (hypothesis of C18_bs_sigma_to_zero) IS proved since wave 6 "
            "(C18_PhiR_tail: 1 - e^{-x^2/2}/2 <= PhiR x); PhiR' = phi and the Gaussian identity F phi(d1) = K phi(d2) give the full static shape "
            "of the generated closed form at PhiR (C18_bs_at_gaussian, C18_bs_strike_derivative, C18_bs_sigma_monotone); that "
            "norm.cdf IS PhiR is tied only by the Interval/integral cases (1e-11)",
            "bsc F sd K (Proofs/C18_Shape.v) = the undiscounted regular-branch call as a function of forward, total standard deviation and strike; "
            "bs_call_regular proves the generated bs_call_put PhiR equals df * bsc there, so the shape theorems are about the generated formula",
            "COSPricer._pricing_formula / density: hand models cos_sum / cos_density_impl (finite sums, real part termwise; the complex numbers "
            "cf(u_k) e^{..} enter as the real data A_k resp. B_k), each tied by Interval cases on pricers with 3-5 terms; the compositions "
            "cos_put_price / cos_call_price / cos_digital_price / cos_cdf_value (Model/CosExt.v: generated cos_put, cos_call, cos_digital, cos_cdf, "
            "cos_pricing_formula around cos_sum) are tied through the PUBLIC entry points put / call / digital / cdf of few-term pricers; "
            "COSPricer._interval_a_b: delta and the returned pair are generated (cos_window_delta, cos_window), the cumulants enter as data and "
            "the bare except around cumulant6 is re-enacted by the harness (c6 = 0); COSPricer.put's x = log(S/K) and the characteristic "
            "functions themselves are NOT modelled (x enters through the data A_k)",
            "cos_u_call / cos_u_fwd (Model/CosExt.v) are yardsticks built from the generated xi / psi, NOT code: the code prices the call by parity",
            "CFBlackScholes.digital and both butterfly methods: generated (np.where(fwd > strike, 1, 0) read as if Rltb strike fwd then 1 else 0); "
            "bs_regular = the else-branch of _call_put as a function of sigma (equal to the generated bs_call_put there: clause 1 of C18_bs_sigma_to_zero)",
            "exponential-model layer (levy_exponent, omega, drift, log_characteristic_function, std_moment, mean, df): generated on the "
            "imaginary axis x = -iu by textual substitution 1j*x -> u; their composition exp_mgf is hand-written",
            "FFTPricer._call_prices (FFT, interpolation), the characteristic functions and cumulants: NOT modelled -- covered by the "
            "differential tests only",
            "FFTPricer._sufficient_condition: NOT modelled in Coq and nothing of it is generated; its branches are driven through the public "
            "FFTPricer.call by implementation-only cases: infinite E[S^2.5] (tail rate <= 2.5: _fft_guard_cases, oracle = the tail rate of the "
            "Levy measure), `except ZeroDivisionError` with HEM eta1 exactly on the guard's grid {0, .25, ..., 2.5} (that the characteristic "
            "function raises there is REQUIRED since wave 8b), and `moments[-1] > 1e10` with a SCALE-FREE oracle since wave 8b (audit5b A5/D7: "
            "the old oracle copied the code's 1e10): the same Black-Scholes law at `spot` and at spot 1 must get the same decision and "
            "homogeneous prices, box models must be quoted at unit spot, returned prices are compared with CFBlackScholes.  The absolute "
            "threshold (currency units: every spot >= 1e4 refused) is finding F-C18-7 (known), not expected behaviour",
            "VGParameters: vgR_c / vgR_lambda_p / vgR_lambda_m generated from __init__; the class guards sigma only (descriptor `positive`, not "
            "generated); nu < 0 is accepted by the code and by the generated constructor alike: finding F-C18-6 (C18_vg_nu_unguarded_refuted on "
            "the generated term; the out-of-bounds COS quotes are observed on the implementation only, _vg_nu_cases)",
            "the wave-6 closed-form theorems are also evaluated on the implementation (CFBlackScholes, scipy norm.cdf, floats): central strike "
            "difference of call = -digital (1e-6), call/put not decreasing when sigma crosses the 1e-8 threshold (_bs_shape_checks)",
            "CFBlackScholes._call_put BOTH branches are tied by Coq cases since wave 8b (audit5b A5): case_b* regular branch (sigma in [.1,.4]), "
            "case_bd* degenerate branch (sigma = 0 / .99e-8 / the float below 1e-8, T = 1e-9, spot = 1e-9; `degen` proves the GENERATED "
            "disjunction true), case_ba* regular side AT the threshold (sigma = 1e-8, next float, 2e-8; PhiR enclosed by C18_PhiR_enclosure, at "
            "the money by the integral tactic).  The generated test compares with the RATIONAL 1/10^8, the code with the float 1e-8 (2.1e-25 "
            "larger): no float lies between them, so the two tests agree on every float sigma (the cases include both neighbours)",
            "VG = CGMY(Y=0) is proved for real arguments inside the strip of analyticity; the complex extension used by the "
            "characteristic function is covered by the differential test VG vs CGMY"]
ASSUMPTIONS = ["the differential tests hold on the documented box and regime only; they are tests, not proofs",
               "truncation error of COS (range l=10, n=10000 terms) and quadrature/interpolation error of FFT (N=2^18, eta=0.25, "
               "alpha=1.5) are NOT bounded by any theorem",
               "every closed-form theorem needs 0 < K, and the model is wrong without it: Coq's ln 0 = 0 gives bs_call PhiR 0 0 1 1 0 1 = PhiR(1/2) while "
               "CFBlackScholes.call(0, 1) = spot (numpy log(inf)); K < 0 is nan in the code (audit5b B13); the harness uses strikes > 0 only",
               "scipy.stats.norm.cdf is taken to be PhiR within 1e-11 by the regular-branch cases; at the threshold cases (|d| ~ 1e7) only "
               "norm.cdf = 0 or 1 within 1e-14 is used",
               "parameters outside the models' domains are not in the property's box; VG nu < 0 is nevertheless recorded (F-C18-6) because the "
               "code accepts it silently and quotes arbitrageable prices"]
THEOREM_NOTES = {
    "C18_parity_forward_leg": "the forward leg (df*(S*mean - K) = S e^{-dT} - K e^{-rT}) has content (C18_forward_martingale); the option legs do not: "
                        "COS computes the call FROM the put by parity and FFT the put FROM the call, so the put's (call's) pricing sum enters "
                        "as the same free number on both sides -- that the sum itself is the right price is not proved",
    "C18_forward_martingale": "exponential-model layer generated on the imaginary axis x = -iu (1j*x -> u); composition exp_mgf hand-written",
    "C18_bs_closed_form_partial": "partial over an ABSTRACT Phi: lower bounds and monotonicity/convexity in K of the non-degenerate branch need the "
                                  "Gaussian identity fwd*phi(d1) = K*phi(d2), not available for an abstract Phi; at the Gaussian integral PhiR they "
                                  "are proved in C18_bs_at_gaussian (wave 6)",
    "C18_cos_is_integral": "linearity of the integral over the finite cosine family, about the hand model cos_sum/cos_density (tied by Interval "
                           "cases on pricers with 3-5 terms); the series f_N is COSPricer.density only for K = S (see Model/CosSum.v)",
    "C18_density_is_series_specification": "cos_density_impl mirrors cosmethod.py:72-82 and is tied to COSPricer.density by Interval cases",
    "C18_shape_from_positive_density_partial": "partial and conditional: only put >= 0 and digital >= 0, under the hypothesis f_N >= 0 which is "
                                               "never discharged for a concrete model; monotonicity/convexity in K and all bounds are tests only",
    "C18_omega_guard": "clause 2 is conditional on two stated hypotheses about the closed-form exponents (finite/real/kappa(1) inside the strip, "
                       "not finite or not real outside); they are discharged only by the harness oracle on fixed and random CGMY/VG parameters; "
                       "for HEM the second one is false (finite real beyond the pole); HEM and CGMY have generated class guards: C18_omega_guard_hem / _cgmy",
    "C18_density_integrates_to_A0": "shows that 'integrates to one' is structural (A_0 = Re cf(0) = 1), not evidence of accuracy",
    "C18_vg_is_cgmy": "real argument only (both u and 1 inside the strip); the raw exponents differ by theta*u, the exponential models agree",
    "C18_cdf_is_truncated_mass": "for every n and every data A_k: cdf = (1 - A_0) + integral of the truncated series over [a,0]; the [0,1] clause is "
                                 "conditional on f_N >= 0 (differential test only); A_k and the window are data, x = log(S/K) enters through A_k",
    "C18_parity_all_N": "cos_u_call / cos_u_fwd are yardsticks (not code); the last clause says the code's parity-built call differs from the direct "
                        "COS call by exactly the truncation error of the forward under the same series -- no bound on that error is proved",
    "C18_butterfly": "algebra on the generated return expressions; non-negativity of the butterfly (convexity) is a differential test only",
    "C18_window": "cumulants are data; the statement needs l > 0 and c2 > 0 only (Coq's sqrt of a negative number is 0, numpy's is nan: a negative "
                  "c4 / c6 would make the implementation's window nan -- the harness reports a non-finite window as a violation)",
    "C18_bs_digital": "over an abstract Phi_like Phi; instantiated at the Gaussian integral in C18_bs_at_gaussian_partial",
    "C18_PhiR_is_Phi_like": "classical one-dimensional proof of the Gaussian integral bound (differentiation under the integral sign via "
                            "Coquelicot is_derive_RInt_param, substitution u = x s, atan); discharges Phi_like for PhiR",
    "C18_bs_at_gaussian_partial": "partial (kept as the wave-5 statement): the binding intrinsic legs, monotonicity and convexity of call/put in K "
                                  "are now PROVED at PhiR in C18_bs_at_gaussian (wave 6) through the Gaussian density identity F phi(d1) = K phi(d2)",
    "C18_bs_static_bounds_partial": "partial: only the non-binding leg of the intrinsic bound on each side of the forward; the binding legs need the "
                                    "Gaussian identity (C18_bs_lower_bound_needs_gaussian: Phi = 1/2 meets Phi_like and prices a call negative)",
    "C18_bs_lower_bound_needs_gaussian": "a statement about the ABSTRACTION (Phi = 1/2), not about the code: shows the partial theorem is sharp",
    "C18_bs_sigma_to_zero": "epsilon-delta form over an abstract Phi; strikes off the forward only (K = F needs continuity of Phi at 0); the hypothesis "
                            "Phi -> 1 at +oo is discharged for PhiR in C18_bs_sigma_to_zero_at_gaussian (wave 6), which also covers K = F",
    "C18_PhiR_tail": "GG(x) <= (pi/4) e^{-x^2/2} inside F = pi/2 gives (2 PhiR - 1)^2 >= 1 - e^{-x^2/2}; Lipschitz clause from PhiR' = phi <= 1 (MVT)",
    "C18_bs_sigma_to_zero_at_gaussian": "no abstract Phi and no hypothesis on Phi left; every strike incl. K = F (Lipschitz bound); flag = +-1",
    "C18_bs_strike_derivative": "regular branch; Coquelicot auto_derive through the Gaussian integral (PhiR' = phi by is_derive_RInt); the identity "
                                "F phi(d1) = K phi(d2) is algebra on exp/ln; ties the GENERATED bs_digital to the strike derivative of the GENERATED call",
    "C18_bs_at_gaussian": "FULL (not partial) for the closed form at PhiR: both intrinsic legs, upper bounds, monotone and convex (three-point slope "
                          "form) in K, both branches of the GENERATED term (tied to CFBlackScholes.call/put by Coq cases in both branches since "
                          "wave 8b: case_b*, case_bd*, case_ba*; before that the degenerate branch of call/put had no Coq case -- audit5b A5). "
                          "0 < K is needed (false in the model at K = 0, where model and code differ). It is a theorem about the generated formula evaluated at the Gaussian integral PhiR; that "
                          "scipy.stats.norm.cdf is PhiR (1e-11) and float rounding are outside it (Interval cases / differential tests)",
    "C18_bs_sigma_monotone": "vega >= 0 by the mean value theorem on the regular branch, and across the code's threshold sigma < 1e-8 by the binding "
                             "lower bound (intrinsic <= regular value); 'across the threshold' is about the generated test sigma < 1/10^8, tied on "
                             "both sides by case_bd* / case_ba* (sigma = prev(1e-8), 1e-8, next(1e-8), 2e-8) and monitored on floats by _bs_shape_checks",
    "C18_PhiR_enclosure": "corollary of C18_PhiR_tail + symmetry + range (thin); exists because the threshold cases need a two-sided enclosure at |x| ~ 1e7",
    "C18_vg_nu_unguarded_refuted": "finding F-C18-6 on the GENERATED VGParameters.__init__: C = 1/nu < 0 for every nu < 0 and a negative radicand of "
                                   "lambda_+ at the witness; the statement is about the parameter map only (thin by nature: the defect is a missing "
                                   "guard) -- that COS then quotes call(100,1) = -1.69 is observed on the implementation, not proved",
    "C18_PhiR_monotone": "integrand positive + Chasles; with C18_PhiR_symmetric and the range clause it gives Phi_like PhiR",
}


def rlit(x) -> str:
    fr = Fraction(x)
    if fr.denominator == 1:
        return f"({fr.numerator})" if fr.numerator < 0 else f"{fr.numerator}"
    return f"({fr.numerator} / {fr.denominator})"


# ----------------------------------------------------------------------------- Interval case lemmas
CASE_HEADER = """From Coq Require Import Reals Lra.
From Coquelicot Require Import Coquelicot.
From Interval Require Import Tactic.
From Coq Require Import List.
From RV Require Import Base.RB Gen.GenC18Cos Model.Cos Model.CosSum Model.CosExt Proofs.C18_Cos Proofs.C18_Ext Proofs.C18_Bs Proofs.C18_Gauss Proofs.C18_Shape Proofs.C18_Findings.
Import ListNotations.
Open Scope R_scope.
Ltac nondeg := unfold bs_degenerate, Rltb;
  repeat match goal with |- context [Rlt_dec ?a ?b] => destruct (Rlt_dec a b); [exfalso; lra|] end; reflexivity.
Ltac degen := unfold bs_degenerate, Rltb; repeat match goal with |- context [Rlt_dec ?a ?b] => destruct (Rlt_dec a b) end;
  simpl; first [reflexivity | exfalso; lra].
Ltac rmax_split := match goal with |- context [Rmax 0 ?e] =>
  first [ assert (HS : 0 <= e) by interval; rewrite (Rmax_right 0 e HS) | assert (HS : e <= 0) by interval; rewrite (Rmax_left 0 e HS)\n        | unfold Rmax; destruct (Rle_dec 0 e) ] end.
Ltac psi_norm := first [ rewrite cos_psi_zero | rewrite cos_psi_nonzero by lra ]; unfold psi_prim.
"""


def _coefficient_cases(res, rng, n_cases):
    import numpy as np
    from rpylib.numerical.cosmethod import COSPricer
    lemmas = []
    ks_pool = [0, 1, 2, 3, 7, 50, 999, 9999]
    with warnings.catch_warnings():
        warnings.simplefilter("ignore")
        for i in range(n_cases):
            a = -round(rng.uniform(0.3, 4.0), rng.choice([1, 3, 6]))
            b = round(rng.uniform(0.3, 4.0), rng.choice([1, 3, 6]))
            k = rng.choice(ks_pool)
            kind = ["xi", "psi", "u_put", "vk"][i % 4]
            tol = 1e-12 * (1 + math.exp(b))
            ka = np.array([k])
            if kind in ("xi", "psi"):
                c, d = (a, 0.0) if i % 8 < 4 else ((0.0, b) if i % 8 < 6 else tuple(sorted([round(rng.uniform(a, b), 3), round(rng.uniform(a, b), 3)])))
                v = float((COSPricer.xi if kind == "xi" else COSPricer.psi)(ka, a, b, c, d)[0])
                if kind == "xi":
                    stmt = f"Rabs (cos_xi {rlit(k)} {rlit(a)} {rlit(b)} {rlit(c)} {rlit(d)} - {rlit(v)}) <= {rlit(tol)}"
                    proof = "unfold cos_xi; cbv zeta beta; interval with (i_prec 100)."
                else:
                    stmt = f"Rabs (cos_psi 12345 {rlit(k)} {rlit(a)} {rlit(b)} {rlit(c)} {rlit(d)} - {rlit(v)}) <= {rlit(tol)}"
                    proof = "psi_norm; interval with (i_prec 100)."
                case = (kind, k, a, b, c, d)
            elif kind == "u_put":
                v = float(COSPricer.u_put(ka, a, b)[0])
                stmt = f"Rabs (cos_u_put 12345 {rlit(k)} {rlit(a)} {rlit(b)} - {rlit(v)}) <= {rlit(tol * 2 / (b - a) + 1e-15)}"
                proof = "unfold cos_u_put; replace (0 / 1) with 0 by field; psi_norm; unfold cos_xi; cbv zeta beta; interval with (i_prec 100)."
                case = (kind, k, a, b)
            else:
                v = float((2 / (b - a) * COSPricer.psi(ka, a, b, 0.0, b))[0])
                stmt = f"Rabs (cos_digital_vk 12345 {rlit(k)} {rlit(a)} {rlit(b)} - {rlit(v)}) <= {rlit(tol)}"
                proof = "unfold cos_digital_vk; replace (0 / 1) with 0 by field; psi_norm; interval with (i_prec 100)."
                case = (kind, k, a, b)
            if not math.isfinite(v):
                res.violation(f"COSPricer.{kind} returns a non-finite value", dict(kind="coefficient", which=kind, k=k, a=a, b=b))
                continue
            res.count(case, nontrivial=k >= 1, kind=f"interval case {kind}")
            res.bump("coefficient_k", k)
            lemmas.append((f"{kind} k={k} a={a} b={b}", f"Lemma case_{len(lemmas)} : {stmt}.\nProof. {proof} Qed."))
    return lemmas


def _simpson_cases(res, rng):
    """observe the weight vector through np.fft.fft's argument (a_s = exp(i b v) psi(v) w), compare all N weights with the
    eta/3*(1,4,2,4,...) pattern on the Python side (oracle) and a few indices with the generated definition by Interval"""
    import numpy as np
    from rpylib.model import utils as U_
    from rpylib.model.levymodel.levymodel import ModelType
    from rpylib.numerical.fft import FFTPricer
    model = U_.create_exponential_of_levy_model(ModelType.BLACKSCHOLES)()
    pricer = FFTPricer(model)
    seen = {}
    real_fft = np.fft.fft

    def spy(x, *a, **k):
        seen["a_s"] = np.array(x)
        return real_fft(x, *a, **k)

    np.fft.fft = spy
    try:
        pricer.call(100.0, 1.0)
    finally:
        np.fft.fft = real_fft
    n, eta = pricer.N, pricer.eta
    vs = np.arange(n) * eta
    base = np.exp(1j * pricer.b * vs) * pricer._psi(t=1.0, v=vs)
    ok = np.abs(base) > 1e-200
    w = np.real(seen["a_s"][ok] / base[ok])
    idx = np.arange(n)[ok]
    want = np.where(idx == 0, eta / 3, np.where(idx % 2 == 1, 4 * eta / 3, 2 * eta / 3))
    res.count(("simpson", int(ok.sum())), kind="simpson weights (all indices, oracle)")
    bad = np.nonzero(np.abs(w - want) > 1e-9 * eta)[0]
    if len(bad):
        j = int(idx[bad[0]])
        res.violation("FFTPricer Simpson weights are not eta/3*(1,4,2,4,2,...)", dict(kind="simpson", index=j, weight=float(w[bad[0]]), expected=float(want[bad[0]])))
    lemmas = []
    for j in [0, 1, 2, 3, 4, 101, 4998, 4999]:
        pos = int(np.searchsorted(idx, j))
        if pos >= len(idx) or idx[pos] != j:
            continue
        res.count(("simpson", j), kind="interval case simpson")
        lemmas.append((f"simpson j={j}", f"Lemma case_s{j} : Rabs (fft_simpson_w {rlit(eta)} {j} - {rlit(float(w[pos]))}) <= {rlit(1e-12)}.\n"
                       f"Proof. unfold fft_simpson_w, kron; simpl pow; interval. Qed." if j <= 4 else
                       f"Lemma case_s{j} : Rabs (fft_simpson_w {rlit(eta)} {j} - {rlit(float(w[pos]))}) <= {rlit(1e-12)}.\n"
                       f"Proof. rewrite simpson_weights; unfold simpson_target; replace (Nat.even {j}) with {'true' if j % 2 == 0 else 'false'} by (vm_compute; reflexivity); interval. Qed."))
    return lemmas


E11 = Fraction(1, 10 ** 11)


def _bs_cases(res, rng, n_cases):
    import numpy as np
    from scipy.stats import norm
    from rpylib.model import utils as U_
    from rpylib.model.levymodel.levymodel import ModelType
    from rpylib.numerical.closedform.cfblackscholes import CFBlackScholes
    lemmas = []
    for i in range(n_cases):
        # r, d > 0: the `integral` tactic of Interval trips over a literal `- 0` inside an integration bound
        r, d = rng.choice([0.01, 0.02, 0.05]), rng.choice([0.005, 0.01])
        S, sigma, T = rng.choice([50.0, 100.0]), round(rng.uniform(0.1, 0.4), 2), rng.choice([0.25, 1.0, 2.0])
        K = S * rng.choice([0.8, 1.0, 1.25])
        flag = 1 if i % 2 == 0 else -1
        cf = CFBlackScholes(U_.helper_model(ModelType.BLACKSCHOLES)(spot=S, r=r, d=d, sigma=sigma))
        v = float(cf.call(K, T) if flag == 1 else cf.put(K, T))
        fwd = S * np.exp((r - d) * T)
        sd = sigma * np.sqrt(T)
        d1 = np.log(fwd / K) / sd + 0.5 * sd
        p1, p2 = float(norm.cdf(d1 * flag)), float(norm.cdf((d1 - sd) * flag))
        A = [rlit(x) for x in (r, d, S, sigma)]
        args = " ".join(A + [rlit(flag), rlit(K), rlit(T)])
        d1e = (f"(ln ({A[2]} * exp (({A[0]} - {A[1]}) * {rlit(T)}) / {rlit(K)}) / ({A[3]} * sqrt {rlit(T)}) + 1 / 2 * ({A[3]} * sqrt {rlit(T)}))")
        a1 = f"({d1e} * {rlit(flag)})"
        a2 = f"(({d1e} - {A[3]} * sqrt {rlit(T)}) * {rlit(flag)})"
        text = (f"Lemma nd_{i} : bs_degenerate {A[2]} {A[3]} {rlit(T)} = false.\nProof. nondeg. Qed.\n"
                f"Lemma case_b{i} : Rabs (bs_call_put PhiR {args} - {rlit(v)}) <= {rlit(1e-9 * S)}.\n"
                f"Proof.\n  rewrite (bs_nondegenerate PhiR _ _ _ _ _ _ _ nd_{i}).\n"
                f"  assert (H1 : {rlit(Fraction(p1) - E11)} <= PhiR {a1} <= {rlit(Fraction(p1) + E11)}) by (unfold PhiR; integral with (i_prec 60, i_relwidth 45)).\n"
                f"  assert (H2 : {rlit(Fraction(p2) - E11)} <= PhiR {a2} <= {rlit(Fraction(p2) + E11)}) by (unfold PhiR; integral with (i_prec 60, i_relwidth 45)).\n"
                f"  set (p1 := PhiR {a1}) in *. set (p2 := PhiR {a2}) in *.\n  interval with (i_prec 60).\nQed.")
        res.count(("bs", r, d, S, sigma, T, K, flag), kind="interval case black-scholes")
        lemmas.append((f"bs flag={flag} S={S} K={K} T={T} sigma={sigma} r={r} d={d}", text))
    return lemmas


E14 = "1 / 100000000000000"


def _bs_threshold_cases(res, rng, n_random):
    """audit5b A5: CFBlackScholes.call / put against the GENERATED bs_call_put PhiR in the DEGENERATE branch and on both sides of the code's
    threshold.  (bd) degenerate: sigma in {0, 0.99e-8, the float just below 1e-8}, maturity < 1e-8, spot < 1e-8 -- `degen` proves
    bs_degenerate = true from the generated disjunction, bs_degenerate_intrinsic rewrites the generated term, Interval evaluates
    df * max(0, +-(F - K)) (1e-12 * max(S, K));  (ba) regular side, sigma in {1e-8 (the float is 2e-25 above the rational 1/10^8 of the
    generated test), nextafter(1e-8), 2e-8}: `nondeg` proves bs_degenerate = false, |d1|, |d2| ~ 1e7 are enclosed by C18_PhiR_enclosure
    (PhiR within 1e-14 of 0 or 1), at the money (r = d, K = S: d1 = sd/2 ~ 5e-9) by the `integral` tactic as in _bs_cases with the tighter
    tolerance 5e-11 * S (the value there is ~4e-7 * S/100: a branch mix-up is visible)."""
    import numpy as np
    from scipy.stats import norm
    from rpylib.model import utils as U_
    from rpylib.model.levymodel.levymodel import ModelType
    from rpylib.numerical.closedform.cfblackscholes import CFBlackScholes
    below, above = float(np.nextafter(1e-8, 0.0)), float(np.nextafter(1e-8, 1.0))
    # (r, d, S, sigma, T, K-factor)
    fixed = [(0.02, 0.01, 100.0, 0.0, 1.0, 0.8), (0.02, 0.01, 100.0, 0.99e-8, 1.0, 0.8), (0.02, 0.01, 100.0, below, 2.0, 1.25),
             (0.05, 0.005, 50.0, below, 0.25, 0.8), (0.02, 0.01, 100.0, 0.2, 1e-9, 1.25), (0.02, 0.01, 1e-9, 0.2, 1.0, 0.8),
             (0.01, 0.01, 100.0, 0.99e-8, 1.0, 1.0),
             (0.02, 0.01, 100.0, 1e-8, 1.0, 0.8), (0.02, 0.01, 100.0, above, 2.0, 1.25), (0.05, 0.005, 50.0, 2e-8, 0.25, 0.8),
             (0.01, 0.01, 100.0, 1e-8, 1.0, 1.0), (0.01, 0.01, 100.0, 2e-8, 1.0, 1.0)]
    rand = [(rng.choice([0.01, 0.02, 0.05]), rng.choice([0.005, 0.01]), rng.choice([50.0, 100.0]),
             rng.choice([0.0, 0.5e-8, 0.99e-8, below, 1e-8, above, 1.5e-8, 2e-8, 1e-7]), rng.choice([0.25, 1.0, 2.0]), rng.choice([0.8, 1.25]))
            for _ in range(n_random)]
    lemmas = []
    for i, (r, d, S, sigma, T, kf) in enumerate(fixed + rand):
        K = S * kf
        cf = CFBlackScholes(U_.helper_model(ModelType.BLACKSCHOLES)(spot=S, r=r, d=d, sigma=sigma))
        A = [rlit(x) for x in (r, d, S, sigma)]
        degenerate = sigma < 1e-8 or S < 1e-8 or T < 1e-8          # the code's own test, on floats (the Coq side proves ITS test on the rationals)
        side = "degenerate" if degenerate else "regular side of the threshold"
        res.bump("bs_threshold", f"sigma={sigma!r} T={T:g} S={S:g}: {side}")
        text = (f"Lemma bd_{i} : bs_degenerate {A[2]} {A[3]} {rlit(T)} = {'true' if degenerate else 'false'}.\n"
                f"Proof. {'degen' if degenerate else 'nondeg'}. Qed.\n")
        for flag in (1, -1):
            v = float(cf.call(K, T) if flag == 1 else cf.put(K, T))
            if not math.isfinite(v):
                res.violation("closed-form price is not finite at the degenerate threshold", dict(kind="bs_threshold", spot=S, r=r, d=d, sigma=sigma, maturity=T, strike=K, flag=flag))
                continue
            args = " ".join(A + [rlit(flag), rlit(K), rlit(T)])
            tag = "c" if flag == 1 else "p"
            res.count(("bs-threshold", r, d, S, sigma, T, K, flag), kind=f"interval case black-scholes {side}")
            if degenerate:
                text += (f"Lemma case_bd{i}{tag} : Rabs (bs_call_put PhiR {args} - {rlit(v)}) <= {rlit(1e-12 * max(S, K))}.\n"
                         f"Proof. rewrite (bs_degenerate_intrinsic PhiR _ _ _ _ _ _ _ bd_{i}). rmax_split; interval with (i_prec 60). Qed.\n")
                continue
            d1e = (f"(ln ({A[2]} * exp (({A[0]} - {A[1]}) * {rlit(T)}) / {rlit(K)}) / ({A[3]} * sqrt {rlit(T)}) + 1 / 2 * ({A[3]} * sqrt {rlit(T)}))")
            a1 = f"({d1e} * {rlit(flag)})"
            a2 = f"(({d1e} - {A[3]} * sqrt {rlit(T)}) * {rlit(flag)})"
            fwd, sd = S * math.exp((r - d) * T), sigma * math.sqrt(T)
            x1 = (math.log(fwd / K) / sd + 0.5 * sd) * flag
            xs = (x1, x1 - sd * flag)
            far = all(abs(x) >= 8 for x in xs)
            text += (f"Lemma case_ba{i}{tag} : Rabs (bs_call_put PhiR {args} - {rlit(v)}) <= {rlit((1e-9 if far else 5e-11) * S)}.\nProof.\n"
                     f"  rewrite (bs_nondegenerate PhiR _ _ _ _ _ _ _ bd_{i}).\n")
            for n, (a, x) in enumerate(zip((a1, a2), xs), 1):
                if abs(x) >= 8 and x > 0:
                    text += (f"  assert (X{n} : 0 <= {a}) by interval.\n  assert (E{n} : exp (- ({a} * {a}) / 2) / 2 <= {E14}) by interval.\n"
                             f"  assert (H{n} : 1 - {E14} <= PhiR {a} <= 1) by (pose proof (PhiR_enclosure_pos _ X{n}); lra).\n")
                elif abs(x) >= 8:
                    text += (f"  assert (X{n} : {a} <= 0) by interval.\n  assert (E{n} : exp (- ({a} * {a}) / 2) / 2 <= {E14}) by interval.\n"
                             f"  assert (H{n} : 0 <= PhiR {a} <= {E14}) by (pose proof (PhiR_enclosure_neg _ X{n}); lra).\n")
                else:
                    pp = float(norm.cdf(x))
                    text += (f"  assert (H{n} : {rlit(Fraction(pp) - E11)} <= PhiR {a} <= {rlit(Fraction(pp) + E11)}) by (unfold PhiR; integral with (i_prec 60, i_relwidth 45)).\n")
            text += f"  set (p1 := PhiR {a1}) in *. set (p2 := PhiR {a2}) in *.\n  interval with (i_prec 60).\nQed.\n"
        lemmas.append((f"bs {side} S={S} K={K} T={T} sigma={sigma!r} r={r} d={d}", text))
    return lemmas


def _sum_cases(res, rng, n_cases):
    """COSPricer._pricing_formula on a pricer with few terms against the hand model cos_sum: the numbers
    A_k = Re(cf(u_k) e^{-i u_k log_spot} e^{i u_k (x-a)}) are fed as data, the coefficients are the generated cos_u_put / cos_digital_vk"""
    import numpy as np
    from rpylib.model import utils as U_
    from rpylib.model.levymodel.levymodel import ModelType
    from rpylib.numerical.cosmethod import COSPricer
    lemmas = []
    for i in range(n_cases):
        name = ["HEM", "MERTON", "VG", "CGMY", "BLACKSCHOLES"][i % 5]
        S, r, d, T = rng.choice([50.0, 100.0]), rng.choice([0.0, 0.02]), rng.choice([0.0, 0.01]), rng.choice([0.25, 1.0])
        model = U_.helper_model(ModelType[name])(spot=S, r=r, d=d, **_sample(rng, name))
        n = rng.choice([3, 4, 5])
        cos = COSPricer(model, n=n)
        a, b = (float(v) for v in cos._interval_a_b(t=T))
        K = S * rng.choice([0.9, 1.0, 1.1])
        x = np.array([np.log(S / K)])
        k = np.arange(n)
        which = "u_put" if i % 2 == 0 else "vk"
        vk = COSPricer.u_put(k, a, b) if which == "u_put" else 2 / (b - a) * COSPricer.psi(k, a, b, 0.0, b)
        val = float(cos._pricing_formula(x, T, a, b, vk)[0])
        cst = k * np.pi / (b - a)
        A = (cos.cf(t=T, x=cst) * np.exp(-1j * cst * model.x0_value()) * np.exp(1j * (x[0] - a) * cst)).real
        df = float(model.df(t=T))
        fun = "cos_u_put" if which == "u_put" else "cos_digital_vk"
        unfold = "unfold cos_u_put" if which == "u_put" else "unfold cos_digital_vk"
        alist = "; ".join(rlit(float(v)) for v in A)
        tol = 1e-12 * (1 + math.exp(b))
        text = (f"Lemma case_p{i} : Rabs ({rlit(df)} * cos_sum {n - 1} (fun k => nth k [{alist}] 0) (fun k => {fun} 12345 (INR k) {rlit(a)} {rlit(b)}) "
                f"- {rlit(val)}) <= {rlit(tol)}.\nProof.\n  unfold cos_sum, cos_weight; simpl sum_f_R0; simpl nth; simpl INR; {unfold}; replace (0 / 1) with 0 by field.\n"
                f"  rewrite cos_psi_zero; repeat (rewrite cos_psi_nonzero by lra); unfold psi_prim, cos_xi; cbv zeta beta.\n  interval with (i_prec 100).\nQed.")
        res.count(("sum", name, n, which, S, K, T), kind="interval case pricing sum")
        lemmas.append((f"pricing sum {name} n={n} {which}", text))
    return lemmas


def _density_cases(res, rng, n_cases):
    """COSPricer.density on a pricer with few terms against cos_density_impl (Model/CosSum.v, mirrors cosmethod.py:72-82);
    B_k = Re(cf(u_k) e^{-i a' u_k}) on the window shifted by log_spot are fed as data"""
    import numpy as np
    from rpylib.model import utils as U_
    from rpylib.model.levymodel.levymodel import ModelType
    from rpylib.numerical.cosmethod import COSPricer
    lemmas = []
    for i in range(n_cases):
        name = ["BLACKSCHOLES", "HEM", "VG", "MERTON", "CGMY"][i % 5]
        S, r, d, T = rng.choice([50.0, 100.0]), rng.choice([0.0, 0.02]), rng.choice([0.0, 0.01]), rng.choice([0.25, 1.0])
        model = U_.helper_model(ModelType[name])(spot=S, r=r, d=d, **_sample(rng, name))
        n = rng.choice([3, 4, 5])
        cos = COSPricer(model, n=n)
        a, b = (float(v) for v in cos._interval_a_b(t=T))
        x0 = float(model.x0_value())
        s_val = S * rng.choice([0.9, 1.0, 1.1])
        val = float(cos.density(time=T, s=np.array([s_val]))[0])
        a2, b2 = a + x0, b + x0
        cst = np.arange(n) * np.pi / (b2 - a2)
        B = (cos.cf(t=T, x=cst) * np.exp(-1j * a2 * cst)).real
        blist = "; ".join(rlit(float(v)) for v in B)
        tol = 1e-12 * (1 + abs(val)) + 1e-13 * float(np.sum(np.abs(B))) / (b - a) / s_val * 10
        text = (f"Lemma case_d{i} : Rabs (cos_density_impl {n - 1} (fun k => nth k [{blist}] 0) {rlit(a)} {rlit(b)} {rlit(x0)} {rlit(s_val)} "
                f"- {rlit(val)}) <= {rlit(tol)}.\nProof.\n  unfold cos_density_impl, cos_weight; cbv zeta; simpl sum_f_R0; simpl nth; simpl INR.\n"
                f"  interval with (i_prec 100).\nQed.")
        res.count(("density", name, n, S, s_val, T), kind="interval case density")
        lemmas.append((f"density {name} n={n} s={s_val}", text))
    return lemmas


def _ext_cases(res, rng, n_cases, viol):
    """wave 5: (A) COSPricer._interval_a_b against the generated cos_window / cos_window_delta (cumulants fed as data, the bare except
    re-enacted here), (B) the PUBLIC entry points put / call / digital / cdf of pricers with 3-5 terms against the compositions
    cos_put_price / cos_call_price / cos_digital_price / cos_cdf_value of Model/CosExt.v (generated pieces + cos_sum), (C) COSPricer.butterfly
    and CFBlackScholes.butterfly against the generated return expressions, (D) CFBlackScholes.digital in both branches against bs_digital."""
    import numpy as np
    from scipy.stats import norm
    from rpylib.model import utils as U_
    from rpylib.model.levymodel.levymodel import ModelType
    from rpylib.numerical.cosmethod import COSPricer
    from rpylib.numerical.closedform.cfblackscholes import CFBlackScholes
    lemmas = []
    names = ["BLACKSCHOLES", "HEM", "MERTON", "VG", "CGMY"]
    unfold_all = ("unfold cos_call_price, cos_cdf_value, cos_put_price, cos_digital_price, cos_cdf, cos_call, cos_forward, cos_put, cos_digital, "
                  "cos_pricing_formula, cos_put_coeffs, cos_digital_coeffs, cos_sum, cos_weight; simpl sum_f_R0; simpl nth; simpl INR; "
                  "try unfold cos_u_put; try unfold cos_digital_vk; try replace (0 / 1) with 0 by field; "
                  "rewrite cos_psi_zero; repeat (rewrite cos_psi_nonzero by lra); unfold psi_prim; try unfold cos_xi; cbv zeta beta; interval with (i_prec 100).")
    for i in range(n_cases):
        name = names[i % 5]
        S, r, d, T = rng.choice([50.0, 100.0]), rng.choice([0.0, 0.02, 0.05]), rng.choice([0.0, 0.01]), rng.choice([0.25, 1.0, 2.0])
        model = U_.helper_model(ModelType[name])(spot=S, r=r, d=d, **_sample(rng, name))
        n, l = rng.choice([3, 4, 5]), rng.choice([10, 20])
        cos = COSPricer(model, n=n, l=l)
        a, b = (float(v) for v in cos._interval_a_b(t=T))
        rep = dict(kind="ext", model=name, spot=S, r=r, d=d, maturity=T, n=n, l=l)
        if not (math.isfinite(a) and math.isfinite(b) and a < b):
            viol("COSPricer._interval_a_b does not return a finite window a < b", a=a, b=b, **rep)
            continue
        # (A) the window
        cum = model.cumulant
        c1, c2, c4 = float(cum.cumulant1(T)), float(cum.cumulant2(T)), float(cum.cumulant4(T))
        c6 = 0.0
        try:
            c6 = float(cum.cumulant6(T))
        except Exception:  # noqa  (the code's bare except)
            pass
        res.bump("window_c6", f"{name}: {'cumulant6 available' if c6 != 0.0 else 'c6 = 0 (raises or zero)'}")
        res.bump("window_contains_0", f"{name}: {'yes' if a <= 0 <= b else 'NO'}")
        tolw = 1e-12 * (1 + abs(a) + abs(b))
        win = f"(cos_window {rlit(c1)} (cos_window_delta {rlit(l)} {rlit(c2)} {rlit(c4)} {rlit(c6)}))"
        res.count(("window", name, l, T, c1, c2), kind="interval case truncation window")
        lemmas.append((f"window {name} l={l} T={T}",
                       f"Lemma case_w{i} : Rabs (fst {win} - {rlit(a)}) <= {rlit(tolw)} /\\ Rabs (snd {win} - {rlit(b)}) <= {rlit(tolw)}.\n"
                       f"Proof. unfold cos_window, cos_window_delta; simpl fst; simpl snd; split; interval with (i_prec 100). Qed."))
        # (B) public entry points on a few-term pricer
        K = S * rng.choice([0.85, 1.0, 1.2])
        x = math.log(S / K)
        cst = np.arange(n) * np.pi / (b - a)
        A = (cos.cf(t=T, x=cst) * np.exp(-1j * cst * model.x0_value()) * np.exp(1j * (x - a) * cst)).real
        alist = "; ".join(rlit(float(v)) for v in A)
        df, fwd = float(model.df(t=T)), float(S * model.mean(T))
        ka = np.array([K])
        which = ["put", "call", "digital", "cdf"][i % 4]
        val = float({"put": lambda: cos.put(ka, T), "call": lambda: cos.call(ka, T), "digital": lambda: cos.digital(ka, T),
                     "cdf": lambda: cos.cdf(time=T, x=ka)}[which]()[0])
        Af = f"(fun k => nth k [{alist}] 0)"
        term = {"put": f"cos_put_price 12345 {n - 1} {Af} {rlit(a)} {rlit(b)} {rlit(df)} {rlit(K)}",
                "call": f"cos_call_price 12345 {n - 1} {Af} {rlit(a)} {rlit(b)} {rlit(df)} {rlit(fwd)} {rlit(K)}",
                "digital": f"cos_digital_price 12345 {n - 1} {Af} {rlit(a)} {rlit(b)} {rlit(df)}",
                "cdf": f"cos_cdf_value 12345 {n - 1} {Af} {rlit(a)} {rlit(b)} {rlit(df)}"}[which]
        tol = 1e-11 * (1 + math.exp(b)) * (1 + (K if which in ("put", "call") else 0.0)) * (1 + float(np.sum(np.abs(A))))
        if math.isfinite(val) and tol < 1e-3 * S:
            res.count(("entry", name, n, l, which, S, K, T), kind=f"interval case COSPricer.{which} (public entry, few terms)")
            lemmas.append((f"COSPricer.{which} {name} n={n} l={l}", f"Lemma case_e{i} : Rabs ({term} - {rlit(val)}) <= {rlit(tol)}.\nProof. {unfold_all} Qed."))
        # (C) butterflies
        k3 = [0.9 * K, K, 1.15 * K]
        c = cos.call(np.array(k3), T)
        bf = float(np.squeeze(cos.butterfly(k3[0], k3[1], k3[2], T)))
        res.count(("butterfly", name, n, K, T), kind="interval case butterfly")
        lemmas.append((f"COSPricer.butterfly {name}", f"Lemma case_f{i} : Rabs (cos_butterfly {rlit(float(c[0]))} {rlit(float(c[1]))} {rlit(float(c[2]))} - {rlit(bf)}) "
                       f"<= {rlit(1e-12 * (1 + float(np.sum(np.abs(c)))))}.\nProof. unfold cos_butterfly; interval with (i_prec 100). Qed."))
        if name == "BLACKSCHOLES":
            cf = CFBlackScholes(model)
            cc = [float(cf.call(k, T)) for k in k3]
            bfc = float(cf.butterfly(k3[0], k3[1], k3[2], T))
            lemmas.append(("CFBlackScholes.butterfly", f"Lemma case_fb{i} : Rabs (bs_butterfly {rlit(cc[0])} {rlit(cc[1])} {rlit(cc[2])} - {rlit(bfc)}) "
                           f"<= {rlit(1e-12 * (1 + sum(abs(v) for v in cc)))}.\nProof. unfold bs_butterfly; interval with (i_prec 100). Qed."))
    # (D) CFBlackScholes.digital, regular and degenerate branch
    for i in range(max(2, n_cases // 3)):
        r, d = rng.choice([0.01, 0.02, 0.05]), rng.choice([0.005, 0.01])
        S, T = rng.choice([50.0, 100.0]), rng.choice([0.25, 1.0, 2.0])
        degenerate = i % 2 == 1
        sigma = 0.0 if degenerate else round(rng.uniform(0.1, 0.4), 2)
        K = S * rng.choice([0.8, 1.25])
        cf = CFBlackScholes(U_.helper_model(ModelType.BLACKSCHOLES)(spot=S, r=r, d=d, sigma=sigma))
        v = float(np.squeeze(cf.digital(K, T)))
        A4 = [rlit(x) for x in (r, d, S, sigma)]
        args = " ".join(A4 + [rlit(K), rlit(T)])
        Fx = f"({A4[2]} * exp (({A4[0]} - {A4[1]}) * {rlit(T)}))"
        res.count(("bs-digital", r, d, S, sigma, T, K), kind="interval case closed-form digital")
        if degenerate:
            below = K < S * math.exp((r - d) * T)
            text = (f"Lemma dg_{i} : bs_degenerate {A4[2]} {A4[3]} {rlit(T)} = true.\nProof. unfold bs_degenerate, Rltb. destruct (Rlt_dec 0 (1 / 100000000)); [reflexivity | exfalso; lra]. Qed.\n"
                    f"Lemma case_dg{i} : Rabs (bs_digital PhiR {args} - {rlit(v)}) <= {rlit(1e-12)}.\nProof.\n  rewrite (bs_digital_degenerate PhiR _ _ _ _ _ _ dg_{i}).\n"
                    + (f"  assert (HK : {rlit(K)} < {Fx}) by interval.\n  replace (Rltb {rlit(K)} {Fx}) with true by (symmetry; apply Rltb_true; exact HK).\n" if below else
                       f"  assert (HK : {Fx} <= {rlit(K)}) by interval.\n  replace (Rltb {rlit(K)} {Fx}) with false by (symmetry; apply Rltb_false; exact HK).\n")
                    + "  interval with (i_prec 60).\nQed.")
        else:
            sd = sigma * math.sqrt(T)
            d2 = math.log(S * math.exp((r - d) * T) / K) / sd - 0.5 * sd
            p2 = float(norm.cdf(d2))
            d2e = f"(ln ({A4[2]} * exp (({A4[0]} - {A4[1]}) * {rlit(T)}) / {rlit(K)}) / ({A4[3]} * sqrt {rlit(T)}) - 1 / 2 * ({A4[3]} * sqrt {rlit(T)}))"
            text = (f"Lemma dn_{i} : bs_degenerate {A4[2]} {A4[3]} {rlit(T)} = false.\nProof. nondeg. Qed.\n"
                    f"Lemma case_dg{i} : Rabs (bs_digital PhiR {args} - {rlit(v)}) <= {rlit(1e-9)}.\nProof.\n  rewrite (bs_digital_nondegenerate PhiR _ _ _ _ _ _ dn_{i}). unfold bs_d2.\n"
                    f"  assert (H2 : {rlit(Fraction(p2) - E11)} <= PhiR {d2e} <= {rlit(Fraction(p2) + E11)}) by (unfold PhiR; integral with (i_prec 60, i_relwidth 45)).\n"
                    f"  set (p2 := PhiR {d2e}) in *.\n  interval with (i_prec 60).\nQed.")
        lemmas.append((f"bs digital {'degenerate' if degenerate else 'regular'} S={S} K={K} T={T} sigma={sigma}", text))
    return lemmas


def _run_lemmas(res, name, lemmas, timeout=900):
    """compiles one case file; lemmas before the first failing one count as discharged"""
    if not lemmas:
        return
    res.case_lemmas += len(lemmas)
    lines = CASE_HEADER.count("\n") + 1
    starts, text = [], CASE_HEADER
    for label, t in lemmas:
        starts.append(text.count("\n") + 1)
        text += t + "\n"
    rc, out = coq_eval_file(PROP, name, text, timeout=timeout)
    if rc == 0:
        res.case_ok += len(lemmas)
        return
    m = re.search(r"line (\d+)", out)
    k = 0
    if m:
        ln = int(m.group(1))
        k = max(i for i, s in enumerate(starts) if s <= ln) if ln >= starts[0] else 0
    res.case_ok += k
    res.broke(f"correspondence {name}", f"Interval case lemma #{k} [{lemmas[k][0]}] is not accepted (model and implementation differ, "
                                        f"or coqc timed out rc={rc}):\n{lemmas[k][1][:1200]}\n{out[-800:]}")


# ----------------------------------------------------------------------------- differential tests (implementation only)
def _sample(rng, name):
    out = {}
    for k, v in BOX[name].items():
        if isinstance(v, list):
            out[k] = rng.choice(v)
        elif k in ("eta1", "m") and rng.random() < 0.4:
            out[k] = rng.uniform(v[0], 6.0)       # heavy right tails: E[S^u] infinite beyond u = eta1 resp. m
        else:
            out[k] = rng.uniform(*v)
    return out


def _differential(res, rng, n_sets, n_fft, viol):
    import numpy as np
    from rpylib.model import utils as U_
    from rpylib.model.levymodel.levymodel import ModelType
    from rpylib.numerical.cosmethod import COSPricer
    from rpylib.numerical.fft import FFTPricer
    from rpylib.numerical.closedform.cfblackscholes import CFBlackScholes
    from rpylib.product.payoff import Vanilla, Forward, PayoffType
    from rpylib.product.product import Product
    from rpylib.product.underlying import Spot

    names = ["BLACKSCHOLES", "HEM", "MERTON", "VG", "CGMY"]
    for it in range(n_sets):
        for name in names:
            mt = ModelType[name]
            S, r, d = rng.choice([1.0, 50.0, 100.0]), rng.choice([0.0, 0.02, 0.05]), rng.choice([0.0, 0.01])
            T = rng.choice(MATURITIES)
            kw = _sample(rng, name)
            rep = dict(kind="differential", model=name, spot=S, r=r, d=d, maturity=T, params=kw)
            model = U_.helper_model(mt)(spot=S, r=r, d=d, **kw)
            _one_model(res, rng, model, rep, it < n_fft, viol)
            if name == "VG":  # the same law through the CGMY classes: C = 1/nu, G = lambda_-, M = lambda_+, Y = 0
                p = model.levy_model.parameters
                cg = U_.helper_model(ModelType.CGMY)(spot=S, r=r, d=d, c=p._c, g=p._lambda_m, m=p._lambda_p, y=0.0)
                (a1, b1), (a2, b2) = COSPricer(model)._interval_a_b(t=T), COSPricer(cg)._interval_a_b(t=T)
                lo, hi = float(max(a1, a2)) / 3, float(min(b1, b2)) / 3     # inside both truncation ranges
                ks = S * np.exp(np.linspace(lo, hi, 11))
                rep = dict(rep, log_moneyness=[lo, hi])
                res.count(("vg=cgmy", S, r, d, T, tuple(kw.values())), kind="VG vs CGMY(Y=0)")
                c1, c2 = COSPricer(model).call(ks, T), COSPricer(cg).call(ks, T)
                dev = float(np.max(np.abs(c1 - c2)))
                if not dev <= TOL * S:
                    viol("variance-gamma and its CGMY parametrisation give different COS prices", what2="vg_vs_cgmy", deviation=dev,
                         tol=TOL * S, cgmy=dict(c=float(p._c), g=float(p._lambda_m), m=float(p._lambda_p), y=0.0), **rep)


def _density_checks(res, model, cos, rep, a, b, df, bad):
    """density and cdf on a uniform log grid over the truncation range (in-regime models only)"""
    import numpy as np
    T, name = rep["maturity"], rep["model"]
    x0 = float(model.x0_value())
    # trapezoid on M+1 uniform log-points is exact for the cosine series up to aliasing of the terms k >= 2M: the grid is
    # refined until |cf(u_2M)| <= 1e-7; if 4000 intervals do not resolve the density the two quadrature checks are skipped
    M = next((m for m in (1000, 4000) if abs(model.log_characteristic_function(t=T, x=2 * m * np.pi / (b - a))) <= 1e-7), None)
    res.bump("density_grid", f"{name}: {M or 'unresolved (integral/cdf not asserted)'}")
    resolved = M is not None
    M = M or 1000
    us = np.linspace(x0 + a, x0 + b, M + 1)
    dens = np.concatenate([cos.density_log(time=T, u=us[i:i + 125]) for i in range(0, M + 1, 125)])
    if np.any(dens < -TOL):
        i = int(np.argmin(dens)); bad("implied density negative beyond the tolerance", log_spot=float(us[i]), density=float(dens[i]))
    h = us[1] - us[0]
    total = float(h * (np.sum(dens) - (dens[0] + dens[-1]) / 2))
    if resolved and abs(total - 1.0) > TOL:
        bad("implied density does not integrate to one", integral=total, grid=M)
    # cdf against the cumulative Simpson integral of the density (even nodes); asserted only where Simpson and the
    # cumulative trapezoid agree to 1e-4 (then Simpson's own error is far below the 5e-4 tolerance)
    simpson = np.concatenate([[0.0], np.cumsum(h / 3 * (dens[0:-2:2] + 4 * dens[1:-1:2] + dens[2::2]))])   # at nodes 0,2,4,...
    trapez = np.concatenate([[0.0], np.cumsum((dens[1:] + dens[:-1]) / 2 * h)])[::2]
    nodes = np.arange(M // 10, M - M // 10 + 1, M // 20)
    cdf = cos.cdf(time=T, x=np.exp(us[nodes]))
    if np.any(np.diff(cdf) < -TOL):
        bad("COSPricer.cdf is not monotone")
    if resolved and float(np.max(np.abs(simpson - trapez))) <= 1e-4:
        devc = np.abs(cdf - simpson[nodes // 2])
        if np.any(devc > 5e-4):
            i = int(np.argmax(devc))
            bad("COSPricer.cdf is not the integral of COSPricer.density", x=float(np.exp(us[nodes][i])), cdf=float(cdf[i]),
                integrated_density=float(simpson[nodes // 2][i]), df=df, grid=M)
    else:
        res.bump("density_grid", f"{name}: cdf-vs-density not asserted (quadrature too coarse)")
    # cdf end points (independent of any quadrature): ~0 at the lower end of the range, ~1 at the upper end
    ends = cos.cdf(time=T, x=np.exp(np.array([x0 + 0.9 * a, x0 + 0.9 * b])))
    if abs(float(ends[0])) > 1e-5 or abs(float(ends[1]) - 1.0) > 1e-5:
        bad("COSPricer.cdf does not run from 0 to 1 over the truncation range", cdf_low=float(ends[0]), cdf_high=float(ends[1]), df=df)
    # the wrappers of the model class go through the same pricer (n=2000, l=20 for cdf)
    xs = np.exp(np.array([x0 + 0.3 * a, x0, x0 + 0.3 * b]))
    w = model.cdf(T, xs)
    from rpylib.numerical.cosmethod import COSPricer
    a2, b2 = COSPricer(model, n=2000, l=20)._interval_a_b(t=T)      # the wrapper's own discretisation: asserted in ITS regime only
    wrapper_ok = abs(model.log_characteristic_function(t=T, x=1999 * np.pi / float(b2 - a2))) <= 1e-8
    res.bump("cdf_wrapper", f"{name}: {'asserted' if wrapper_ok else 'n=2000,l=20 does not resolve the law: monotonicity only'}")
    if np.any(np.diff(w) < -1e-3) or (wrapper_ok and (np.any(np.diff(w) < -TOL) or np.any(np.abs(w - cos.cdf(time=T, x=xs)) > 1e-4))):
        bad("ExponentialOfLevyModel.cdf disagrees with COSPricer.cdf", model_cdf=[float(v) for v in w])
    wd = model.density(T)(xs)
    if np.any(np.abs(wd - cos.density(time=T, s=xs)) > 1e-9 * (1 + np.abs(wd))):
        bad("ExponentialOfLevyModel.density disagrees with COSPricer.density")


def _tail_rate(name, model):
    """exponential decay rate M of the right tail of the Levy measure: E[S^u] is finite iff u < M"""
    p = model.levy_model.parameters if name != "BLACKSCHOLES" else None
    return {"HEM": lambda: float(p.eta1), "CGMY": lambda: float(p.m), "VG": lambda: float(p._lambda_p)}.get(name, lambda: float("inf"))()


FFT_Q = 0.95      # FFT regime: the damped transform must be resolved by the grid, |psi(eta)| >= FFT_Q * |psi(0)| ...
FFT_MARGIN = 2.5  # ... and its pole (right-tail rate M) must stay FFT_MARGIN away from the damping line 1 + alpha


_FFT_PREV = {}
_FFT_HIST = {}


def _one_model(res, rng, model, rep, with_fft, viol):
    import numpy as np
    from rpylib.numerical.cosmethod import COSPricer
    from rpylib.numerical.fft import FFTPricer
    from rpylib.numerical.closedform.cfblackscholes import CFBlackScholes
    from rpylib.product.payoff import Vanilla, Forward, PayoffType
    from rpylib.product.product import Product
    from rpylib.product.underlying import Spot
    S, r, d, T, name = rep["spot"], rep["r"], rep["d"], rep["maturity"], rep["model"]
    cos = COSPricer(model)
    a, b = (float(x) for x in cos._interval_a_b(t=T))
    u_last = (cos.n - 1) * np.pi / (b - a)
    decay = float(abs(model.log_characteristic_function(t=T, x=u_last)))
    in_regime = decay <= DECAY
    res.bump("regime", f"{name}: {'in' if in_regime else 'outside (compared with the widened tolerance)'}")
    res.bump("maturity", round(T, 4))
    res.count((name, S, r, d, T, tuple(rep["params"].values())), nontrivial=True, kind=f"model case {name}")
    # outside the regime the series truncation error is not negligible: the same predicates are evaluated with the tolerance widened
    # by the size of the neglected tail (~ n * |cf(u_N)| for a power-law decay); the density quadratures are skipped
    rel = TOL if in_regime else TOL + 2e4 * decay
    tol = rel * S

    def bad(what, **kw):
        viol(what, a=a, b=b, **kw, **rep)

    df = float(model.df(t=T))
    fwd = float(S * model.mean(T))
    if abs(fwd - S * math.exp((r - d) * T)) > 1e-9 * S:
        bad("forward differs from spot*exp((r-d)T)", forward=fwd)

    def ladder(ks, tag):
        """the no-arbitrage predicates on one strike ladder; tag = None: hard failure, otherwise the id of the recorded finding"""
        extra = {} if tag is None else dict(finding=tag, ladder="outer", log_moneyness=[float(np.log(ks[0] / S)), float(np.log(ks[-1] / S))])

        def flag(what, i, **kw):
            x = float(np.log(ks[i] / S))
            bad(what, strike=float(ks[i]), log_moneyness_strike=x, range_fraction=float(x / b if x > 0 else x / a), **kw, **extra)

        call, put, dig, fw = cos.call(ks, T), cos.put(ks, T), cos.digital(ks, T), cos.forward(ks, T)
        if not all(np.all(np.isfinite(x)) for x in (call, put, dig, fw)):
            flag("COS price is not finite", 0)
            return None
        dev = np.abs((call - put) - df * (fwd - ks))
        if np.any(dev > 1e-12 * np.maximum(S, ks)):
            i = int(np.argmax(dev)); viol("put-call parity violated by the COS pricer", a=a, b=b, strike=float(ks[i]), deviation=float(dev[i]), **rep)
        lo_c, lo_p = np.maximum(df * (fwd - ks), 0.0), np.maximum(df * (ks - fwd), 0.0)
        for label, arr, lo, hi in (("call", call, lo_c, df * fwd + 0 * ks), ("put", put, lo_p, df * ks)):
            v = np.maximum(lo - arr, arr - hi)
            if np.any(v > tol):
                i = int(np.argmax(v)); flag(f"{label} outside [intrinsic, bound]", i, price=float(arr[i]), lower=float(lo[i]), upper=float(hi[i]), tol=tol)
        if np.any(np.diff(call) > tol):
            flag("call not decreasing in the strike", int(np.argmax(np.diff(call))), tol=tol)
        if np.any(np.diff(put) < -tol):
            flag("put not increasing in the strike", int(np.argmin(np.diff(put))), tol=tol)
        lam = (ks[2:] - ks[1:-1]) / (ks[2:] - ks[:-2])
        fly = lam * call[:-2] + (1 - lam) * call[2:] - call[1:-1]
        if np.any(fly < -tol):
            i = int(np.argmin(fly)); flag("call not convex in the strike", i + 1, butterfly=float(fly[i]), tol=tol)
        if np.any(dig < -rel) or np.any(dig > df + rel):
            i = int(np.argmax(np.maximum(-dig, dig - df))); flag("digital price outside [0, df]", i, price=float(dig[i]), df=df)
        if np.any(np.diff(dig) > rel):
            flag("digital price not decreasing in the strike", int(np.argmax(np.diff(dig))))
        if name == "BLACKSCHOLES":
            cf = CFBlackScholes(model)
            cfc = np.array([float(cf.call(float(k), T)) for k in ks]); cfp = np.array([float(cf.put(float(k), T)) for k in ks])
            for label, x, y, t in (("call", call, cfc, tol), ("put", put, cfp, tol), ("digital", dig, cf.digital(ks, T), rel)):
                dv = np.abs(x - y)
                if np.any(dv > t):
                    i = int(np.argmax(dv)); flag(f"COS and the Black-Scholes closed form disagree ({label})", i, cos=float(x[i]), closed_form=float(y[i]), tol=t)
            dv = np.abs((cfc - cfp) - np.array([float(cf.forward(float(k), T)) for k in ks]))
            if np.any(dv > 1e-12 * np.maximum(S, ks)):
                bad("closed-form put-call parity violated")
        return call, put, dig, fw

    # inner third of the truncation range: hard.  Outer ring up to 0.9*[a,b]: the window of the COS pricer is NOT shifted by
    # log(S/K), so the accuracy degrades toward its edges -- recorded finding F-C18-5, matched by value in matches_known
    ks = S * np.exp(np.linspace(a / 3, b / 3, 21))
    inner = ladder(ks, None)
    if inner is None:
        return
    call, put, dig, fw = inner
    for side in (np.linspace(0.9 * a, a / 3, 8)[:-1], np.linspace(b / 3, 0.9 * b, 8)[1:]):
        if np.all(np.abs(side) < 600):          # exp() of the strike itself must be representable
            ladder(S * np.exp(side), "F-C18-5")
    # --- a used pricer instance quotes like a fresh one (several quotes on ONE instance above)
    fresh = COSPricer(model)
    if not (np.array_equal(fresh.digital(ks, T), dig) and np.array_equal(COSPricer(model).put(ks, T), put)
            and np.array_equal(cos.call(ks, T), call) and np.array_equal(cos.put(ks, T), put)):
        bad("COS quotes depend on the quotes made before on the same pricer instance")
    # --- scalar strike == vector strike, price(product) dispatch
    j = int(rng.randrange(len(ks)))
    k0 = float(ks[j])
    sc = [float(np.squeeze(f(k0, T))) for f in (cos.call, cos.put, cos.digital, cos.forward)]
    if any(abs(x - float(y[j])) > 1e-12 * max(S, k0) for x, y in zip(sc, (call, put, dig, fw))):
        bad("scalar strike and vector strike give different prices", strike=k0)
    prod = lambda pay: Product(payoff_underlying=Spot(), payoff=pay, maturity=T)  # noqa
    pp = [float(np.squeeze(cos.price(prod(Vanilla(strike=k0, payoff_type=PayoffType.CALL))))),
          float(np.squeeze(cos.price(prod(Vanilla(strike=k0, payoff_type=PayoffType.PUT))))),
          float(np.squeeze(cos.price(prod(Forward(strike=k0)))))]
    if any(abs(x - y) > 1e-12 * max(S, k0) for x, y in zip(pp, (sc[0], sc[1], sc[3]))):
        bad("COSPricer.price(product) differs from call/put/forward", strike=k0)
    if in_regime:
        _density_checks(res, model, cos, rep, a, b, df, bad)
    kf = S * np.exp(np.linspace(max(a / 3, -0.7), min(b / 3, 0.7), 11))
    cosf = cos.call(kf, T)
    # --- butterfly = calls, non-negative on equally spaced strikes
    k1, k3 = float(ks[8]), float(ks[12])
    k3s = [k1, (k1 + k3) / 2, k3]
    bf = float(np.squeeze(cos.butterfly(k3s[0], k3s[1], k3s[2], T)))
    c3 = cos.call(np.array(k3s), T)
    if abs(bf - float(c3[0] - 2 * c3[1] + c3[2])) > 1e-12 * S or bf < -tol:
        bad("COSPricer.butterfly is not call(K1) - 2 call(K2) + call(K3) >= 0", strikes=k3s, butterfly=bf)
    # --- FFT
    if with_fft:
        res.bump("fft", name)
        fft = FFTPricer(model)
        M_tail = _tail_rate(name, model)
        v3 = np.array([0.0, fft.eta])
        psi = fft._psi(t=T, v=v3)
        q = float(abs(psi[1]) / abs(psi[0])) if np.all(np.isfinite(psi)) and abs(psi[0]) > 0 else float("nan")
        out = None
        try:
            fc, fp = fft.call(kf, T), fft.put(kf, T)
        except ValueError as e:
            out = str(e)
        # models FFT-priced earlier in this process at the same maturity: part of the replay (a pricer must not remember them)
        hist = _FFT_HIST.setdefault(T, [])
        h0 = hist[:1] + hist[1:][-2:]
        fft_info = dict(fft_history=h0, tail_rate=M_tail, fft_resolution_q=q)
        hist.append({k: rep[k] for k in ("model", "spot", "r", "d", "params")})
        if M_tail <= 1 + fft.alpha:
            # E[S^(1+alpha)] is infinite: the pricer's own sufficient condition must refuse the model
            res.bump("fft_regime", f"{name}: E[S^2.5] infinite -> {'ValueError' if out else 'PRICE RETURNED'}")
            if out is None:
                dvm = float(np.max(np.abs(fc - cosf)))
                bad("FFT pricer returns prices although E[S^(1+alpha)] is infinite (its sufficient condition does not fire)",
                    fft=[float(v) for v in fc[:3]], cos=[float(v) for v in cosf[:3]], deviation=dvm, **fft_info)
            return
        if out is not None:
            # the guard also refuses very large damped moments (> 1e10): legitimate, nothing to compare
            res.bump("fft_regime", f"{name}: refused by the pricer ({out[:40]})")
            return
        resolved_fft = q >= FFT_Q and M_tail >= 1 + fft.alpha + FFT_MARGIN
        res.bump("fft_regime", f"{name}: {'resolved' if resolved_fft else 'unresolved transform (F-C18-4 regime)'}")
        tag = {} if resolved_fft else dict(finding="F-C18-4")
        bad_fft = lambda what, **kw: bad(what, **kw, **fft_info, **tag)  # noqa
        dv = np.abs(fc - cosf)
        if np.any(dv > tol):
            i = int(np.argmax(dv)); bad_fft("COS and FFT call prices disagree", strike=float(kf[i]), cos=float(cosf[i]), fft=float(fc[i]), tol=tol)
        dv = np.abs((fc - fp) - df * (fwd - kf))
        if np.any(dv > 1e-12 * np.maximum(S, np.maximum(kf, np.abs(fc)))):
            bad("put-call parity violated by the FFT pricer")
        # history independence: the previous model, re-priced at ITS maturity after this one, and this model priced again
        prev = _FFT_PREV.get(T)
        if prev is not None:
            pm, pk, pc, prep = prev
            again = FFTPricer(pm).call(pk, T)
            if not np.array_equal(again, pc):
                viol("FFT prices of a model change after another model was priced at the same maturity", other=dict(model=rep["model"], params=rep["params"]), **prep)
        if not np.array_equal(FFTPricer(model).call(kf, T), fc):
            bad("FFT prices are not reproducible on a fresh pricer instance")
        _FFT_PREV[T] = (model, kf, fc, dict(rep))
        if name == "BLACKSCHOLES":
            cfk = np.array([float(CFBlackScholes(model).call(float(k), T)) for k in kf])
            dv = np.abs(fc - cfk)
            if np.any(dv > tol):
                i = int(np.argmax(dv)); bad_fft("FFT and the Black-Scholes closed form disagree", strike=float(kf[i]), fft=float(fc[i]), closed_form=float(cfk[i]), tol=tol)


# ----------------------------------------------------------------------------- recorded findings: matched by VALUE, never by tag alone
LADDER_WHATS = ("call outside [intrinsic, bound]", "put outside [intrinsic, bound]", "call not decreasing in the strike",
                "put not increasing in the strike", "call not convex in the strike", "digital price outside [0, df]",
                "digital price not decreasing in the strike", "COS price is not finite")


def matches_known(v, known):
    r = v["replay"]
    what = v["what"]
    try:
        if known["id"] == "F-C18-4":
            # FFT: fixed grid eta does not resolve the damped transform; only COS/FFT(/closed form) disagreements in that regime
            q = r.get("fft_resolution_q")
            return (what in ("COS and FFT call prices disagree", "FFT and the Black-Scholes closed form disagree",
                             "FFT prices are not homogeneous of degree one in (spot, strike)")
                    and isinstance(q, float) and q == q and r.get("tail_rate", 0) > 2.5
                    and (q < FFT_Q or r["tail_rate"] < 2.5 + FFT_MARGIN))
        if known["id"] == "F-C18-5":
            # COS: the truncation window is not shifted by log(S/K): only ladder predicates, only on strikes in the outer ring
            # (beyond one third of the range, recomputed here from the recorded strike), never parity / instance / forward failures
            if r.get("ladder") != "outer" or not (what in LADDER_WHATS or what.startswith("COS and the Black-Scholes closed form disagree")):
                return False
            x = math.log(r["strike"] / r["spot"])
            frac = x / r["b"] if x > 0 else x / r["a"]
            lo, hi = r["log_moneyness"]
            return frac > 1 / 3 - 1e-9 and min(abs(lo), abs(hi)) >= min(abs(r["a"]), abs(r["b"])) / 3 - 1e-9
        if known["id"] == "F-C18-6":
            # VG nu < 0 accepted: only that what, only nu < 0, and the constructor + COS pricer are RE-RUN on the replay's own parameters:
            # the model must (still) be accepted and the recorded quote reproduced (both nan, or equal to 1e-9 relative)
            p = r.get("params", {})
            if what != VG_NU_WHAT or r.get("kind") != "vg_nu" or r.get("model") != "VG" or not (isinstance(p.get("nu"), float) and p["nu"] < 0):
                return False
            ok, call, put, exc = _vg_nu_probe(p["sigma"], p["nu"], p["theta"], r["spot"], r["r"], r["d"], r["maturity"], r["strike"])
            same = lambda x, y: (x is None and y is None) or (x is not None and y is not None and  # noqa
                                 ((x != x and y != y) or abs(x - y) <= 1e-9 * max(1.0, abs(x))))
            return bool(ok and same(call, r.get("call")) and same(put, r.get("put")))
        if known["id"] == "F-C18-7":
            # FFT threshold in currency units: only the decision-depends-on-the-unit failure of a Black-Scholes law, RE-RUN at both scales
            # (the decisions must still differ and be the recorded ones), and the two closed-form moments must sit on opposite sides of the
            # code's absolute threshold -- a refusal with any other cause does not match
            if (what != "FFT pricer's accept/refuse decision depends on the currency unit of the spot (same law: refused at one scale, quoted at the other)"
                    or r.get("kind") != "fft_scale" or r.get("model") != "BLACKSCHOLES"):
                return False
            sg, T, sp = r["params"]["sigma"], r["maturity"], r["spot"]
            log_unit = 2.5 * (r["r"] - r["d"]) * T + 1.875 * sg * sg * T
            log_abs = 2.5 * math.log(sp) + log_unit
            _, pb, eb, pu, eu = _fft_scale_probe(sp, r["r"], r["d"], sg, T)
            dec = ("ValueError" if eb else "price", "ValueError" if eu else "price")
            return bool(dec == (r.get("decision_at_spot"), r.get("decision_at_unit_spot")) and dec[0] != dec[1]
                        and (log_abs > math.log(1e10)) != (log_unit > math.log(1e10))
                        and (dec[0] == "ValueError") == (log_abs > math.log(1e10)))
    except Exception:  # noqa
        return False
    return False


def _degenerate_bs(res, viol):
    """degenerate branch of the closed form = discounted intrinsic, for scalar AND vector strikes (implementation oracle)"""
    import numpy as np
    from rpylib.model import utils as U_
    from rpylib.model.levymodel.levymodel import ModelType
    from rpylib.numerical.closedform.cfblackscholes import CFBlackScholes
    for (S, sigma, T) in [(100.0, 1e-9, 1.0), (100.0, 0.2, 1e-9), (100.0, 0.0, 2.0)]:
        cf = CFBlackScholes(U_.helper_model(ModelType.BLACKSCHOLES)(spot=S, r=0.03, d=0.01, sigma=sigma))
        fwd, df = S * math.exp(0.02 * T), math.exp(-0.03 * T)
        ks = np.array([80.0, 100.0, 125.0])
        want = {"call": df * np.maximum(0.0, fwd - ks), "put": df * np.maximum(0.0, ks - fwd), "digital": df * (fwd > ks)}
        for label, fun in (("call", cf.call), ("put", cf.put), ("digital", cf.digital)):
            for shape, arg in (("vector", ks), ("scalar", 80.0)):
                res.count(("bs-degenerate", S, sigma, T, label, shape), kind="closed form degenerate branch")
                rep = dict(kind="bs_degenerate", spot=S, sigma=sigma, maturity=T, quote=label, strike_shape=shape)
                try:
                    got = np.atleast_1d(np.asarray(fun(arg, T), dtype=float))
                except Exception as e:  # noqa
                    viol(f"degenerate Black-Scholes branch raises {type(e).__name__} for a {shape} strike (the regular branch accepts it)",
                         exception=f"{type(e).__name__}: {e}", **rep)
                    continue
                exp = want[label] if shape == "vector" else want[label][:1]
                if got.shape != exp.shape or np.any(np.abs(got - exp) > 1e-12 * S):
                    viol("degenerate Black-Scholes branch is not the discounted intrinsic value", got=got.tolist(), expected=exp.tolist(), **rep)


def _guard_cases(res, rng, viol):
    """ExponentialOfLevyModel.__init__ must refuse parameters with E[exp(L_1)] infinite.  Discharges, on the implementation, the two
    hypotheses of C18_omega_guard: with tail_rate = eta1 (HEM) / M (CGMY) / lambda_+ (VG), z = complex(levy_exponent(-1j)) is finite
    and real when 1 < tail_rate, and not finite or not real otherwise; the constructor raises ValueError exactly in the second case.
    Returns Coq case lemmas running the generated guard on the observed (isfinite z, Re z, Im z)."""
    import numpy as np
    from rpylib.model import utils as U_
    from rpylib.model.levymodel.levymodel import ModelType
    fixed = [("CGMY", dict(c=1.0, g=15.0, m=0.9, y=0.5)), ("CGMY", dict(c=1.0, g=15.0, m=0.5, y=1.5)),
             ("HEM", dict(sigma=0.1, p=0.6, eta1=0.9, eta2=25.0, intensity=3.0)), ("HEM", dict(sigma=0.1, p=0.6, eta1=0.5, eta2=25.0, intensity=3.0)),
             ("VG", dict(sigma=1.2, nu=2.0, theta=0.5)), ("CGMY", dict(c=1.0, g=15.0, m=1.5, y=0.5)), ("CGMY", dict(c=1.0, g=15.0, m=1.0, y=0.5)),
             ("HEM", dict(sigma=0.1, p=0.6, eta1=1.5, eta2=25.0, intensity=3.0)), ("VG", dict(sigma=0.2, nu=0.1, theta=-0.1))]
    u = rng.uniform
    rand = [("HEM", dict(sigma=u(0.03, 0.3), p=u(0.2, 0.8), eta1=u(0.3, 2.0), eta2=u(3, 40), intensity=u(0.5, 6))) for _ in range(6)] + \
           [("CGMY", dict(c=u(0.3, 3), g=u(2, 30), m=u(0.3, 2.0), y=rng.choice([0.2, 0.5, 1.2, 1.5]))) for _ in range(6)] + \
           [("VG", dict(sigma=u(0.3, 1.5), nu=u(0.5, 3.0), theta=u(-0.5, 0.8))) for _ in range(6)]
    lemmas = []
    for name, kw in fixed + rand:
        levy = U_.helper_model(ModelType[name], False)(**kw)
        tail = {"HEM": lambda: kw["eta1"], "CGMY": lambda: kw["m"], "VG": lambda: float(levy.parameters._lambda_p)}[name]()
        if abs(tail - 1) < 1e-6 and not (name == "CGMY" and kw["m"] == 1):
            continue
        inside = tail > 1 or (name == "CGMY" and kw["m"] == 1 and kw["y"] > 0)
        with np.errstate(all="ignore"):
            try:
                z = complex(levy.levy_exponent(x=-1j))
            except ZeroDivisionError:
                z = complex(float("inf"), 0.0)
        finite = bool(np.isfinite(z))
        real = finite and abs(z.imag) <= 1e-12 * max(1.0, abs(z.real))
        res.count(("guard", name, tuple(kw.values())), kind="constructor guard E[exp(L_1)] finite")
        res.bump("omega_guard", f"{name}: {'inside' if inside else 'outside'} the strip -> {'finite real' if real else ('complex' if finite else 'not finite')}")
        rep = dict(kind="guard", model=name, params=kw, tail_rate=tail, z=[z.real, z.imag] if finite else str(z))
        if name == "HEM":
            # the HEM closed form is finite and real beyond its pole: only the first hypothesis is expected, the class's own guard does the rest
            if inside and not real:
                viol("hypothesis of C18_omega_guard_hem fails: levy_exponent(-1j) is not finite/real although 1 < eta1", **rep)
        elif inside != real:
            viol("hypothesis of C18_omega_guard fails: levy_exponent(-1j) is " + ("not finite/real inside" if inside else "finite and real outside") +
                 " the strip 1 < tail rate", **rep)
        try:
            m = U_.helper_model(ModelType[name])(spot=100.0, r=0.02, d=0.0, **kw)
            got = None
        except ValueError:
            got = "ValueError"
        except Exception as e:  # noqa
            got = type(e).__name__
        if (not inside) and got != "ValueError":
            viol(f"exponential model with E[exp(L_1)] infinite: expected ValueError, got {got or 'a model'}", **rep)
        if inside and got is not None:
            viol(f"exponential model with finite E[exp(L_1)] refused: {got}", **rep)
        if got is None and (abs(float(m.mean(1.0)) - math.exp(0.02)) > 1e-9 or abs(m.omega + z.real) > 1e-12 * max(1, abs(z.real))):
            viol("constructed exponential model: omega <> -Re z or forward not a martingale", omega=float(m.omega), mean=float(m.mean(1.0)), **rep)
        # the generated guard on the observed data
        n = len(lemmas)
        if not finite:
            lemmas.append((f"guard {name} not finite", f"Lemma case_g{n} : exp_omega_checked false 0 0 = None.\nProof. rewrite exp_omega_checked_spec. reflexivity. Qed."))
        elif real:
            lemmas.append((f"guard {name} real", f"Lemma case_g{n} : exp_omega_checked true {rlit(z.real)} {rlit(z.imag)} = Some (- {rlit(z.real)}).\n"
                           f"Proof. apply exp_omega_checked_some. interval. Qed."))
        else:
            lemmas.append((f"guard {name} complex", f"Lemma case_g{n} : exp_omega_checked true {rlit(z.real)} {rlit(z.imag)} = None.\n"
                           f"Proof. apply exp_omega_checked_none. interval. Qed."))
        class_guard = (name == "HEM" and kw["eta1"] <= 1) or (name == "CGMY" and (kw["m"] < 1 or (kw["m"] == 1 and kw["y"] <= 0)))
        if (got is None) != (finite and real and not class_guard):
            viol("constructor and its generated guard disagree on the observed exponent", **rep)
    return lemmas


def _fft_guard_cases(res, viol):
    """FFTPricer needs E[S^(1+alpha)] finite (alpha = 1.5): with a right-tail rate M <= 2.5 its sufficient condition must raise"""
    import numpy as np
    from rpylib.model import utils as U_
    from rpylib.model.levymodel.levymodel import ModelType
    from rpylib.numerical.cosmethod import COSPricer
    from rpylib.numerical.fft import FFTPricer
    cases = [("HEM", dict(sigma=0.05, p=0.6, eta1=2.0, eta2=25.0, intensity=3.0)), ("HEM", dict(sigma=0.05, p=0.6, eta1=1.7, eta2=25.0, intensity=3.0)),
             ("HEM", dict(sigma=0.2, p=0.3, eta1=2.4, eta2=10.0, intensity=1.0)), ("CGMY", dict(c=1.0, g=15.0, m=2.0, y=0.5)),
             ("CGMY", dict(c=0.5, g=8.0, m=1.4, y=1.5)), ("CGMY", dict(c=2.0, g=20.0, m=2.45, y=0.2))]
    for name, kw in cases:
        for T in (0.25, 1.0):
            model = U_.helper_model(ModelType[name])(spot=100.0, r=0.02, d=0.0, **kw)
            res.count(("fft-guard", name, tuple(kw.values()), T), kind="FFT sufficient condition")
            try:
                v = float(np.squeeze(FFTPricer(model).call(100.0, T)))
            except ValueError:
                continue
            viol("FFT pricer returns prices although E[S^(1+alpha)] is infinite (its sufficient condition does not fire)",
                 kind="fft_guard", model=name, params=kw, maturity=T, tail_rate=_tail_rate(name, model), fft=v,
                 cos=float(COSPricer(model).call(np.array([100.0]), T)[0]))


def _fft_decision(model, ks, T):
    """(prices | None, error text | None) of the public FFTPricer.call on a fresh pricer"""
    from rpylib.numerical.fft import FFTPricer
    try:
        return FFTPricer(model).call(ks, T), None
    except ValueError as e:
        return None, str(e)


def _fft_scale_probe(spot, r, d, sigma, T):
    """the same Black-Scholes law quoted in two currency units: (decision at `spot`, decision at spot 1, prices / spot, prices at spot 1)"""
    import numpy as np
    from rpylib.model import utils as U_
    from rpylib.model.levymodel.levymodel import ModelType
    kf = np.array([0.8, 1.0, 1.25])
    big = U_.helper_model(ModelType.BLACKSCHOLES)(spot=spot, r=r, d=d, sigma=sigma)
    unit = U_.helper_model(ModelType.BLACKSCHOLES)(spot=1.0, r=r, d=d, sigma=sigma)
    (pb, eb), (pu, eu) = _fft_decision(big, spot * kf, T), _fft_decision(unit, kf, T)
    return big, pb, eb, pu, eu


def _fft_branch_cases(res, rng, viol, n_random):
    """The remaining branches of FFTPricer._sufficient_condition, driven through the public FFTPricer.call.  Wave 8b (audit5b A5 / D7): the
    oracle no longer copies the code's threshold.  (a) `moments[-1].real > 1e10` on Black-Scholes models: SCALE-FREE oracle -- prices are
    homogeneous of degree one in (spot, strike), so the SAME law quoted at `spot` and at spot 1 must get the same accept/refuse decision and,
    when quoted, call(spot; k spot) / spot = call(1; k) (TOL); inside the documented box the pricer must quote at unit spot; a returned price
    is compared with CFBlackScholes (resolved regime hard, otherwise the recorded finding F-C18-4).  A decision that depends on the currency
    unit is the recorded finding F-C18-7 (the threshold is absolute: spot >= 1e4 is refused for every model), matched by re-running both
    pricers.  E[S_T^2.5] = spot^2.5 exp(2.5 (r-d) T + 1.875 sigma^2 T) is recorded in the replay as information only.
    (b) `except ZeroDivisionError`: HEM with eta1 exactly on the guard's grid u in {0, .25, ..., 2.5} -- the characteristic function,
    evaluated through the public model.log_characteristic_function at x = -1j*u, divides by eta1 - u = 0 (Python complex arithmetic);
    E[S^2.5] is infinite there (eta1 <= 2.5), so the pricer must raise ValueError and must not leak the ZeroDivisionError; that the
    characteristic function DOES raise there is required (otherwise these cases no longer reach the branch: broken obligation)."""
    import numpy as np
    from rpylib.model import utils as U_
    from rpylib.model.levymodel.levymodel import ModelType
    from rpylib.numerical.fft import FFTPricer
    from rpylib.numerical.closedform.cfblackscholes import CFBlackScholes
    fixed = [(100.0, 0.02, 0.0, 1.5, 3.0), (20000.0, 0.02, 0.0, 0.2, 1.0), (10000.0, 0.0, 0.0, 0.2, 1.0), (5000.0, 0.02, 0.0, 0.2, 1.0),
             (100.0, 0.05, 0.0, 0.9, 1.0), (5000.0, 0.0, 0.01, 0.5, 3.0), (9000.0, 0.0, 0.0, 0.2, 1.0), (1e6, 0.0, 0.0, 0.2, 1.0)]
    rand = [(rng.choice([100.0, 1000.0, 5000.0, 20000.0]), rng.choice([0.0, 0.02, 0.05]), rng.choice([0.0, 0.01]), rng.uniform(0.1, 1.6),
             rng.choice([0.5, 1.0, 2.0, 3.0])) for _ in range(n_random)]
    kf = np.array([0.8, 1.0, 1.25])
    lo_s, hi_s = BOX["BLACKSCHOLES"]["sigma"]
    for spot, r, d, sigma, T in fixed + rand:
        log_unit = 2.5 * (r - d) * T + 1.875 * sigma * sigma * T          # log E[(S_T / S_0)^2.5], closed form: information only
        model, got, out, got1, out1 = _fft_scale_probe(spot, r, d, sigma, T)
        ks = spot * kf
        rep = dict(kind="fft_scale", model="BLACKSCHOLES", spot=spot, r=r, d=d, params=dict(sigma=sigma), maturity=T,
                   moment_2p5=math.exp(2.5 * math.log(spot) + log_unit), unit_moment_2p5=math.exp(log_unit),
                   decision_at_spot="ValueError" if out else "price", decision_at_unit_spot="ValueError" if out1 else "price")
        res.count(("fft-branch", spot, r, d, sigma, T), kind="FFT sufficient condition: decision and price homogeneous in the currency unit")
        res.bump("fft_branch", f"BS spot {spot:g}: {'refused' if out else 'price'} / the same law at spot 1: {'refused' if out1 else 'price'}")
        if lo_s <= sigma <= hi_s and T <= max(MATURITIES) and out1 is not None:
            viol("FFT pricer refuses a Black-Scholes model of the documented box at unit spot", error=out1, **rep)
        if (out is None) != (out1 is None):
            viol("FFT pricer's accept/refuse decision depends on the currency unit of the spot (same law: refused at one scale, quoted at the other)",
                 error=out or out1, finding="F-C18-7", **rep)
        with np.errstate(all="ignore"):
            psi = FFTPricer(model)._psi(t=T, v=np.array([0.0, 0.25]))
        q = float(abs(psi[1]) / abs(psi[0])) if np.all(np.isfinite(psi)) and abs(psi[0]) > 0 else float("nan")
        tag = {} if q >= FFT_Q else dict(finding="F-C18-4")
        if out is None and out1 is None:
            dv = np.abs(got / spot - got1)
            if np.any(dv > TOL):
                i = int(np.argmax(dv))
                viol("FFT prices are not homogeneous of degree one in (spot, strike)", kind2="homogeneity", strike=float(ks[i]), fft=float(got[i]),
                     fft_unit_spot=float(got1[i]), tol=TOL, fft_resolution_q=q, tail_rate=float("inf"), **rep, **tag)
        if out is None:
            cf = CFBlackScholes(model)
            ref = np.array([float(cf.call(float(k), T)) for k in ks])
            dv = np.abs(got - ref)
            if np.any(dv > TOL * spot):
                i = int(np.argmax(dv))
                viol("FFT and the Black-Scholes closed form disagree", strike=float(ks[i]), fft=float(got[i]), closed_form=float(ref[i]),
                     tol=TOL * spot, fft_resolution_q=q, tail_rate=float("inf"), **dict(rep, kind="fft_branch"), **tag)
    us = [0.25 * i for i in range(11)]
    for eta1 in (1.25, 1.5, 1.75, 2.0, 2.25, 2.5):
        for T in (0.25, 1.0):
            kw = dict(sigma=0.05, p=0.6, eta1=eta1, eta2=25.0, intensity=3.0)
            model = U_.helper_model(ModelType.HEM)(spot=100.0, r=0.02, d=0.0, **kw)
            zde = False
            for u in us:          # the observation: the public characteristic function divides by zero at u = eta1
                try:
                    with np.errstate(all="ignore"):
                        complex(model.log_characteristic_function(t=T, x=-1j * np.float64(u)))
                except ZeroDivisionError:
                    zde = True
            res.count(("fft-branch-zde", eta1, T), kind="FFT sufficient condition: ZeroDivisionError branch")
            rep = dict(kind="fft_branch", model="HEM", spot=100.0, r=0.02, d=0.0, params=kw, maturity=T, tail_rate=eta1)
            try:
                v, out = FFTPricer(model).call(100.0, T), "price"
            except ValueError:
                v, out = None, "ValueError"
            except ZeroDivisionError:
                v, out = None, "ZeroDivisionError"
            res.bump("fft_branch", f"HEM pole eta1={eta1} on the guard's grid: cf raises ZeroDivisionError={zde} -> {out}")
            if not zde:
                res.broke("correspondence fft_branch", f"HEM eta1={eta1} T={T}: model.log_characteristic_function(x=-1j*u) no longer raises ZeroDivisionError on "
                          "the guard's grid, so the `except ZeroDivisionError` branch of FFTPricer._sufficient_condition is not reached by these cases")
            if out == "price":
                viol("FFT pricer returns prices although E[S^(1+alpha)] is infinite (its sufficient condition does not fire)",
                     fft=float(np.squeeze(v)), **rep)
            elif out == "ZeroDivisionError":
                viol("FFT pricer leaks ZeroDivisionError from the characteristic function at a pole instead of refusing the model (ValueError)", **rep)


VG_NU_WHAT = "variance-gamma model with nu < 0 (negative Levy density C = 1/nu) is accepted and quoted by the COS pricer"


def _vg_nu_probe(sigma, nu, theta, spot, r, d, T, K):
    """(accepted?, call, put, exception name) of the public constructors + COSPricer on the real code"""
    import numpy as np
    from rpylib.model import utils as U_
    from rpylib.model.levymodel.levymodel import ModelType
    from rpylib.numerical.cosmethod import COSPricer
    with warnings.catch_warnings(), np.errstate(all="ignore"):
        warnings.simplefilter("ignore")
        try:
            model = U_.helper_model(ModelType.VG)(spot=spot, r=r, d=d, sigma=sigma, nu=nu, theta=theta)
        except Exception as e:  # noqa
            return False, None, None, type(e).__name__
        try:
            cos = COSPricer(model)
            return True, float(cos.call(np.array([K]), T)[0]), float(cos.put(np.array([K]), T)[0]), None
        except Exception as e:  # noqa
            return True, None, None, type(e).__name__


def _vg_nu_cases(res, rng, viol, n_random):
    """audit5b D8 -> finding F-C18-6.  A variance-gamma law needs nu > 0 (variance rate of the gamma clock; the Levy density is
    C e^{-lambda|x|}/|x| with C = 1/nu).  Oracle on the implementation, independent of the pricers' formulas: for nu <= 0 the public
    constructor must refuse the parameters (any exception).  If it accepts, the COS quotes at the money are recorded with the no-arbitrage
    bounds [df (F-K)^+, df F] they should respect.  nu > 0 controls: the model is accepted and the quote lies inside the bounds."""
    fixed = [(0.1, -1.0, 0.1), (0.1, -0.5, 0.1), (0.1, -0.06, 0.1), (0.2, -0.25, -0.1), (0.1, 0.0, 0.1), (0.1, 0.2, 0.1), (0.2, 0.1, -0.1)]
    rand = [(round(rng.uniform(0.08, 0.4), 3), -round(rng.uniform(0.03, 2.0), 3), round(rng.uniform(-0.3, 0.2), 3)) for _ in range(n_random)]
    spot, r, d, T, K = 100.0, 0.02, 0.0, 1.0, 100.0
    df, fwd = math.exp(-r * T), spot * math.exp((r - d) * T)
    lo, hi = df * max(fwd - K, 0.0), df * fwd
    for sigma, nu, theta in fixed + rand:
        ok, call, put, exc = _vg_nu_probe(sigma, nu, theta, spot, r, d, T, K)
        res.count(("vg-nu", sigma, nu, theta), kind="VG parameter nu: sign guard")
        inside = call is not None and math.isfinite(call) and lo - TOL * spot <= call <= hi + TOL * spot
        res.bump("vg_nu", f"nu {'> 0' if nu > 0 else ('= 0' if nu == 0 else '< 0')}: " + (f"refused ({exc})" if not ok else
                 ("quoted inside the bounds" if inside else "QUOTED OUTSIDE the no-arbitrage bounds (or nan)")))
        rep = dict(kind="vg_nu", model="VG", spot=spot, r=r, d=d, maturity=T, strike=K, params=dict(sigma=sigma, nu=nu, theta=theta),
                   call=call, put=put, lower=lo, upper=hi, levy_density_constant=(1 / nu if nu else None), exception=exc)
        if nu > 0:
            if not ok or not inside:
                viol("variance-gamma model with nu > 0: refused, or COS call outside [intrinsic, discounted forward]", **rep)
        elif ok:
            viol(VG_NU_WHAT, finding="F-C18-6", **rep)


def _bs_shape_checks(res, rng, viol, n_cases):
    """Differential tests of the wave-6 closed-form theorems ON THE IMPLEMENTATION (CFBlackScholes with scipy's norm.cdf, floats):
    C18_bs_strike_derivative: the central difference of call in the strike is -digital (h = 1e-4 K; truncation O(h^2), rounding ~1e-12/h);
    C18_bs_sigma_monotone across the code's threshold: call/put at sigma just below 1e-8 (intrinsic) <= at 1e-8 and 2e-8 (regular branch)."""
    from rpylib.model import utils as U_
    from rpylib.model.levymodel.levymodel import ModelType
    from rpylib.numerical.closedform.cfblackscholes import CFBlackScholes
    for _ in range(n_cases):
        spot = rng.choice([1.0, 50.0, 100.0]); r = rng.choice([0.0, 0.02, 0.05]); d = rng.choice([0.0, 0.01])
        sigma = rng.uniform(*BOX["BLACKSCHOLES"]["sigma"]); T = rng.choice(MATURITIES)
        K = spot * math.exp(rng.uniform(-0.5, 0.5))
        cf = CFBlackScholes(U_.helper_model(ModelType.BLACKSCHOLES)(spot=spot, r=r, d=d, sigma=sigma))
        h = 1e-4 * K
        slope = (float(cf.call(K + h, T)) - float(cf.call(K - h, T))) / (2 * h)
        dig = float(cf.digital(K, T))
        res.count(("bs-shape", spot, r, d, sigma, T, K), kind="closed form: dCall/dK = -digital")
        if abs(slope + dig) > 1e-6:
            viol("closed-form digital is not minus the strike derivative of the closed-form call", kind="bs_shape", spot=spot, r=r, d=d,
                 sigma=sigma, maturity=T, strike=K, slope=slope, digital=dig)
        lo = CFBlackScholes(U_.helper_model(ModelType.BLACKSCHOLES)(spot=spot, r=r, d=d, sigma=0.99e-8))
        for s2 in (1e-8, 2e-8, sigma):
            hi = CFBlackScholes(U_.helper_model(ModelType.BLACKSCHOLES)(spot=spot, r=r, d=d, sigma=s2))
            for quote in ("call", "put"):
                a, b = float(getattr(lo, quote)(K, T)), float(getattr(hi, quote)(K, T))
                if a > b + 1e-12 * max(spot, K):
                    viol(f"closed-form {quote} decreases when sigma crosses the degenerate threshold 1e-8 upwards", kind="bs_shape", spot=spot, r=r, d=d,
                         sigma=s2, maturity=T, strike=K, below=a, above=b)


def _rate_sweep(res, rng, viol):
    """A pricer must not remember a model that no longer exists, nor an earlier state of a live one: (1) sweep over the rate building a
    FRESH model per value with identical Levy parameters inside a function (the previous model is garbage: del + gc.collect(); CPython
    hands its address to the next one), (2) model.r / model.d changed in place between quotes on one pricer and across pricers.
    Every COS quote is compared with the closed form (Black-Scholes) or the FFT pricer, and with the quote of an independently built model."""
    import gc
    import numpy as np
    from rpylib.model import utils as U_
    from rpylib.model.levymodel.levymodel import ModelType
    from rpylib.numerical.cosmethod import COSPricer
    from rpylib.numerical.fft import FFTPricer
    from rpylib.numerical.closedform.cfblackscholes import CFBlackScholes
    S, T = 100.0, 1.0
    ks = np.array([80.0, 100.0, 120.0])
    families = [("BLACKSCHOLES", dict(sigma=0.2)), ("HEM", dict(sigma=0.1, p=0.5, eta1=12.0, eta2=12.0, intensity=2.0)),
                ("VG", dict(sigma=0.2, nu=0.1, theta=-0.1))]
    tol = TOL * S

    def reference(name, model):
        if name == "BLACKSCHOLES":
            cf = CFBlackScholes(model)
            return np.array([float(cf.call(float(k), T)) for k in ks])
        return FFTPricer(model).call(ks, T)

    def one(name, kw, r, d, n):
        model = U_.helper_model(ModelType[name])(spot=S, r=r, d=d, **kw)
        cos = COSPricer(model, n=n)
        got = cos.call(ks, T)
        dev = float(np.max(np.abs(got - reference(name, model))))
        addr = id(model)
        del cos, model
        return got, dev, addr

    for name, kw in families:
        seen, reused = {}, 0
        n = rng.choice([2 ** 10, 10_000])
        rates = [0.0025 * i for i in range(24)]
        rng.shuffle(rates)
        for r in rates:
            gc.collect()
            got, dev, addr = one(name, kw, r, 0.0, n)
            reused += addr in seen
            res.count(("rate-sweep", name, r, n), kind="fresh model per rate (garbage-collected predecessor)")
            if dev > tol:
                viol("COS quote of a FRESH model depends on a model priced before (same Levy parameters, other rate, released)",
                     kind="rate_sweep", model=name, params=kw, rate=r, n=n, deviation=dev, tol=tol,
                     previous_rate_at_this_address=seen.get(addr), cos=[float(v) for v in got])
                break
            seen[addr] = r
        res.bump("rate_sweep_address_reuse", f"{name}: {reused} of {len(rates)} models allocated at a released address")
        # in-place change of the live model's rate / dividend between quotes: one pricer, then a second pricer
        model = U_.helper_model(ModelType[name])(spot=S, r=0.01, d=0.0, **kw)
        cos = COSPricer(model, n=n)
        first = cos.call(ks, T)
        for attr, val in (("r", 0.08), ("d", 0.03), ("r", 0.0)):
            setattr(model, attr, val)
            fresh = U_.helper_model(ModelType[name])(spot=S, r=model.r, d=model.d, **kw)
            want = COSPricer(fresh, n=n).call(ks, T)
            for label, pricer in (("the same pricer", cos), ("a new pricer on the same model", COSPricer(model, n=n))):
                got = pricer.call(ks, T)
                res.count(("in-place", name, attr, val, label), kind="model.r / model.d changed in place")
                dev = float(max(np.max(np.abs(got - want)), np.max(np.abs(got - reference(name, model)))))
                if dev > tol:
                    viol(f"COS quote ignores an in-place change of model.{attr} ({label})", kind="rate_sweep", model=name, params=kw,
                         attribute=attr, value=val, deviation=dev, tol=tol, cos=[float(v) for v in got], fresh_model=[float(v) for v in want])


def correspond(res):
    rng = random.Random(res.seed)
    quick = res.tier == "quick"

    def viol(what, **kw):
        res.violation(what, dict(kw))

    with warnings.catch_warnings():
        warnings.simplefilter("ignore")
        coef = _coefficient_cases(res, rng, 48 if quick else 400)
        simp = _simpson_cases(res, rng)
        bs = _bs_cases(res, rng, 6 if quick else 40)
        thr = _bs_threshold_cases(res, random.Random(res.seed + 81), 4 if quick else 40)
        sums = _sum_cases(res, rng, 4 if quick else 20) + _density_cases(res, rng, 5 if quick else 20)
        ext = _ext_cases(res, random.Random(res.seed + 18), 8 if quick else 40, viol)
        _degenerate_bs(res, viol)
        guard = _guard_cases(res, rng, viol)
        _fft_guard_cases(res, viol)
        _fft_branch_cases(res, random.Random(res.seed + 36), viol, 10 if quick else 60)
        _bs_shape_checks(res, random.Random(res.seed + 37), viol, 60 if quick else 600)
        _vg_nu_cases(res, random.Random(res.seed + 82), viol, 6 if quick else 60)
        _rate_sweep(res, rng, viol)
        _differential(res, rng, 14 if quick else 150, 6 if quick else 60, viol)
    _run_lemmas(res, "cases_coefficients", coef + simp + guard)
    _run_lemmas(res, "cases_bs", bs)
    _run_lemmas(res, "cases_bs_threshold", thr)
    _run_lemmas(res, "cases_sum", sums)
    _run_lemmas(res, "cases_ext", ext)


def search(res):
    rng = random.Random(res.seed + 1)
    with warnings.catch_warnings():
        warnings.simplefilter("ignore")
        _differential(res, rng, 40, 10, lambda what, **kw: res.violation(what, dict(kw)))


def replay(path):
    import numpy as np
    data = json.load(open(path))
    print(json.dumps(data, indent=1)[:3000])
    if data.get("kind") == "bs_degenerate":
        from rpylib.model import utils as U_
        from rpylib.model.levymodel.levymodel import ModelType
        from rpylib.numerical.closedform.cfblackscholes import CFBlackScholes
        cf = CFBlackScholes(U_.helper_model(ModelType.BLACKSCHOLES)(spot=data["spot"], r=0.03, d=0.01, sigma=data["sigma"]))
        arg = np.array([80.0, 100.0, 125.0]) if data["strike_shape"] == "vector" else 80.0
        try:
            print(data["quote"], "->", getattr(cf, data["quote"])(arg, data["maturity"]))
            return 0
        except Exception as e:  # noqa
            print(f"raises {type(e).__name__}: {e}")
            return 1
    if data.get("kind") == "rate_sweep":
        from common import Result
        res = Result(PROP, "quick", 0)
        found = []
        _rate_sweep(res, random.Random(0), lambda what, **kw: found.append(what))
        for w in found:
            print("VIOLATED:", w)
        return 1 if found else 0
    if data.get("kind") == "fft_guard":
        from rpylib.model import utils as U_
        from rpylib.model.levymodel.levymodel import ModelType
        from rpylib.numerical.fft import FFTPricer
        model = U_.helper_model(ModelType[data["model"]])(spot=100.0, r=0.02, d=0.0, **data["params"])
        try:
            print("FFT call(100) =", float(np.squeeze(FFTPricer(model).call(100.0, data["maturity"]))), "with right-tail rate", data["tail_rate"], "<= 2.5; COS:", data["cos"])
            return 1
        except ValueError as e:
            print("raises ValueError:", e)
            return 0
    if data.get("kind") == "bs_shape":
        from rpylib.model import utils as U_
        from rpylib.model.levymodel.levymodel import ModelType
        from rpylib.numerical.closedform.cfblackscholes import CFBlackScholes
        mk = lambda sg: CFBlackScholes(U_.helper_model(ModelType.BLACKSCHOLES)(spot=data["spot"], r=data["r"], d=data["d"], sigma=sg))  # noqa
        K, T = data["strike"], data["maturity"]
        if "slope" in data:
            cf, h = mk(data["sigma"]), 1e-4 * K
            slope, dig = (float(cf.call(K + h, T)) - float(cf.call(K - h, T))) / (2 * h), float(cf.digital(K, T))
            print("central strike difference of call", slope, " -digital", -dig)
            return 1 if abs(slope + dig) > 1e-6 else 0
        bad = 0
        for quote in ("call", "put"):
            a, b = float(getattr(mk(0.99e-8), quote)(K, T)), float(getattr(mk(data["sigma"]), quote)(K, T))
            print(quote, "at sigma 0.99e-8:", a, " at sigma", data["sigma"], ":", b)
            bad |= a > b + 1e-12 * max(data["spot"], K)
        return 1 if bad else 0
    if data.get("kind") == "vg_nu":
        p = data["params"]
        ok, call, put, exc = _vg_nu_probe(p["sigma"], p["nu"], p["theta"], data["spot"], data["r"], data["d"], data["maturity"], data["strike"])
        print(f"VG sigma={p['sigma']} nu={p['nu']} theta={p['theta']}: " + (f"refused ({exc})" if not ok else f"ACCEPTED; COS call = {call}, put = {put}; "
              f"no-arbitrage bounds for the call [{data['lower']}, {data['upper']}] ({exc or 'no exception'})"))
        if p["nu"] > 0:
            return 0 if ok and call is not None and data["lower"] - TOL * data["spot"] <= call <= data["upper"] + TOL * data["spot"] else 1
        return 1 if ok else 0
    if data.get("kind") == "fft_scale":
        _, pb, eb, pu, eu = _fft_scale_probe(data["spot"], data["r"], data["d"], data["params"]["sigma"], data["maturity"])
        print(f"same Black-Scholes law: at spot {data['spot']:g} ->", "ValueError: " + eb if eb else [float(v) / data["spot"] for v in pb], "(price / spot)")
        print("                          at spot 1 ->", "ValueError: " + eu if eu else [float(v) for v in pu])
        if (eb is None) != (eu is None):
            return 1
        if eb is None and max(abs(float(a) / data["spot"] - float(b)) for a, b in zip(pb, pu)) > TOL:
            return 1
        return 0
    if data.get("kind") == "fft_branch":
        from rpylib.model import utils as U_
        from rpylib.model.levymodel.levymodel import ModelType
        from rpylib.numerical.fft import FFTPricer
        model = U_.helper_model(ModelType[data["model"]])(spot=data["spot"], r=data["r"], d=data["d"], **data["params"])
        ks = data["spot"] * np.array([0.8, 1.0, 1.25])
        try:
            got = FFTPricer(model).call(ks, data["maturity"])
        except (ValueError, ZeroDivisionError) as e:
            print(f"raises {type(e).__name__}: {e}")
            refused_ok = isinstance(e, ValueError) and (data.get("tail_rate", 99) <= 2.5 or data.get("moment_2p5", 0) > 1e10)
            return 0 if refused_ok else 1
        print("FFT call(0.8 S, S, 1.25 S) =", [float(v) for v in got])
        if data.get("tail_rate", 99) <= 2.5 or data.get("moment_2p5", 0) > 1e10:
            return 1
        if data["model"] == "BLACKSCHOLES":
            from rpylib.numerical.closedform.cfblackscholes import CFBlackScholes
            cf = CFBlackScholes(model)
            ref = np.array([float(cf.call(float(k), data["maturity"])) for k in ks])
            print("closed form:", [float(v) for v in ref])
            return 1 if np.any(np.abs(got - ref) > TOL * data["spot"]) else 0
        return 0
    if data.get("kind") != "differential":
        print("replay: re-run ./check C18 to re-evaluate this class of input")
        return 1
    from common import Result
    from rpylib.model import utils as U_
    from rpylib.model.levymodel.levymodel import ModelType
    res = Result(PROP, "quick", 0)
    found = []
    with warnings.catch_warnings():
        warnings.simplefilter("ignore")
        model = U_.helper_model(ModelType[data["model"]])(spot=data["spot"], r=data["r"], d=data["d"], **data["params"])
        rep = {k: data[k] for k in ("kind", "model", "spot", "r", "d", "maturity", "params")}
        from rpylib.numerical.fft import FFTPricer
        for h in data.get("fft_history", []):     # re-create the process history: earlier FFT quotes at the same maturity
            hm = U_.helper_model(ModelType[h["model"]])(spot=h["spot"], r=h["r"], d=h["d"], **h["params"])
            FFTPricer(hm).call(np.array([h["spot"]]), data["maturity"])
        _one_model(res, random.Random(0), model, rep, True, lambda what, **kw: found.append((what, kw)))
        if data.get("what2") == "vg_vs_cgmy":
            from rpylib.numerical.cosmethod import COSPricer
            cg = U_.helper_model(ModelType.CGMY)(spot=data["spot"], r=data["r"], d=data["d"], **data["cgmy"])
            ks = data["spot"] * np.exp(np.linspace(data["log_moneyness"][0], data["log_moneyness"][1], 11))
            dev = float(np.max(np.abs(COSPricer(model).call(ks, data["maturity"]) - COSPricer(cg).call(ks, data["maturity"]))))
            print("VG vs CGMY deviation", dev)
            if dev > TOL * data["spot"]:
                found.append(("variance-gamma and its CGMY parametrisation give different COS prices", {}))
    for what, kw in found:
        print("VIOLATED:", what, {k: v for k, v in kw.items() if k not in rep})
    return 1 if found else 0


LEVEL_TEXT = ("Proof, PARTIAL: Coq theorems (over R with Coquelicot; standard real-number and classical axioms only) about the py2coq "
              "translation of the current source state that (1) the forward of every exponential model is S e^{(r-d)T} (omega = -kappa(1)) "
              "and hence the parity legs of COS / FFT / closed form equal S e^{-dT} - K e^{-rT} -- for COS and FFT the option leg is computed BY "
              "parity in the code, so only the forward leg carries content; (2) COSPricer.xi and psi are the exact integrals of e^y cos(k pi "
              "(y-a)/(b-a)) and cos(...) for every real k incl. k=0, so the put and digital coefficients are the exact cosine coefficients of "
              "the payoffs, independently of the uninitialised cells of np.divide, (3) the FFT weights are eta/3*(1,4,2,4,...), (4) the VG map "
              "C=1/nu, G=lambda_-, M=lambda_+, Y=0 gives raw exponents differing by theta*u and identical exponential models (real argument), "
              "(5) closed-form upper bounds and degenerate branch over an abstract Phi_like Phi, and Phi_like is PROVED for the Gaussian integral PhiR "
              "(symmetric, monotone, [0,1]-valued via (int_0^x e^{-t^2/2})^2 <= pi/2), so they hold at PhiR, (6) cdf = 1 - digital/df, (7) the COS pricing sum is the integral of the payoff against the cosine series "
              "built from the same numbers (COSPricer.density only at K = S); put, digital >= 0 IF that series is >= 0 (never discharged); "
              "(8) for every N: COSPricer.cdf = (1 - A_0) + the mass of the truncated series below the strike, digital = df (1 - cdf), and the call the "
              "code builds by parity differs from the direct COS call by exactly the error of the same series on the forward (sum-level parity, "
              "coefficients additive over the range); (9) butterfly = difference of two call spreads = put butterfly - df (K1 - 2 K2 + K3), COS and closed "
              "form; (10) the truncation window [c1 - delta, c1 + delta] (generated) is non-degenerate for l, c2 > 0 and contains 0 iff |c1| <= delta; "
              "(11) CFBlackScholes.digital (generated) is a discounted probability, non-increasing in the strike in both branches, call = df F Phi(d1) - K "
              "digital; the non-binding legs of the intrinsic bounds (the binding ones provably do NOT follow from an abstract Phi); the degenerate "
              "branch is the sigma -> 0+ limit of the regular one for strikes off the forward (Phi -> 1 at +oo assumed); "
              "(12) AT the Gaussian integral PhiR, with no abstract Phi left: 1 - e^{-x^2/2}/2 <= PhiR x (so PhiR -> 1), the sigma -> 0+ limit for every "
              "strike incl. K = F, F phi(d1) = K phi(d2), dCall/dK = -digital (generated bs_digital), and the FULL static shape of the generated "
              "closed form in both branches: df (F-K)^+ <= call <= df F, df (K-F)^+ <= put <= df K, call non-increasing / put non-decreasing / both "
              "convex in the strike, both non-decreasing in sigma across the 1e-8 threshold (call / put tied to CFBlackScholes by Coq cases in the regular branch, "
              "in the degenerate branch and at sigma = 1e-8 / its float neighbours / 2e-8 since wave 8b; 0 < K needed); "
              "(13) findings recorded as known: F-C18-6 VG nu < 0 accepted (C = 1/nu < 0 proved on the generated constructor, COS call(100,1) = -1.69 observed), "
              "F-C18-7 FFTPricer's moment threshold 1e10 is in currency units (decision differs between spot S and spot 1 for the same law; implementation "
              "oracle only, _sufficient_condition is not modelled). "
              "Model and implementation are tied by ~130 Interval/integral case lemmas per run (incl. the window, the public entry points "
              "put / call / digital / cdf of few-term pricers, butterflies, the closed-form call / put / digital in both branches). NOT proved and reported only as differential "
              "TESTS over a documented box: every COS / FFT price bound, monotonicity/convexity in the strike (proved for the closed form at PhiR only), COS digital bounds/monotonicity, density "
              "non-negative and integrating to one, truncation error, COS/FFT/closed-form and VG/CGMY price agreement.")
LEVEL_NOTE = ("Trusted: Coq kernel, Coquelicot, Interval (reflexive interval arithmetic inside vm_compute); stdlib real/classical axioms; "
              "py2coq incl. its pointwise reading of numpy code and the substitution 1j*x -> u; the differential tests are tests.")
TECHNIQUE = "Coq proof over R (Coquelicot is_RInt_derive/auto_derive, field) on py2coq-generated formulas + Interval case lemmas + differential tests"

"""C20 -- calibration reprices its target; derived parameters stay in sync with updates.

correspondence : random assignment histories (valid, invalid, writes to the cached fields) on real HEMParameters /
                 MertonParameters / VGParameters / CGMYParameters objects, followed by initialisation(), against the record
                 model of coq/Model/Params.v (primary fields and accepted/rejected flags exactly; derived fields exactly on
                 dyadic cases, within a stated rounding tolerance otherwise; Gamma/pow fed as data, sqrt by a 2^-100 rational root)
                 the GENERATED heap program of model/utils.py (Gen/GenC20Calib.v: bodies of calibrate_model_parameter / calibration_fun /
                 run_default_calibration + the default_calibration table) run by vm_compute on the trial values the real brentq used
                 (spied) with the objective values it saw: returns / raises like the implementation -- RAISING calls included (setter,
                 re-initialisation, model constructor, brentq's equal-sign ValueError) --, input object and returned parameters equal
oracle         : implementation only -- (history + initialisation) == direct construction with the final values, field by field
                 and price by price; a rejected assignment raises ValueError and leaves __dict__ unchanged; the calibration
                 monitors (value in interval, |COS price - target| <= tol, input untouched, same type).
"""
import copy
import json
import math
import random
import warnings
from fractions import Fraction

from common import qlit, zlit, lst, blit, natlit, coq_bad_indices, CoqError

PROP = "C20"
PROPERTY_FILE = "Properties/C20.v"
GEN_DEPS = ["GenC20Params", "GenC20Calib"]
CAL_TOL = 5e-10  # |COS price - target| <= CAL_TOL * max(1, spot/100)   (brentq: xtol=2e-12, rtol=8.9e-16 on the parameter; observed <= 1e-11)
BRENT_DELTA = 1e-10   # width of the sign-changing sub-bracket among the spied trial values that must contain the returned root
RULE = ("histories: 5 classes (HEM, Merton, VG, CGMY, BlackScholes) x N random constructor arguments x 0-12 assignments drawn from {valid value, "
        "boundary value (0, eta1=1, nu=0: where Python divides by zero), violating value, write to a cached field}; 1/3 of the cases use "
        "few-bit dyadic values for which every float operation of the derived-field formula is exact (compared with tolerance 0); the FULL "
        "__dict__ of the objects is compared; every history also prices the two models (COS, 256 terms); non-trivial = history with >= 2 assignments of "
        "which at least one is rejected or hits a cached field. calibration monitors: run_default_calibration / "
        "calibrate_model_parameter[_to_atm_call] for HEM, Merton, VG, CGMY over spot in {50,100,200}, r in {0,.02,.05}, d in {0,.01}, "
        "T in {1/12..2}, Black-Scholes vol in [0.12,0.35], start parameters perturbed around the library defaults; the sign of the "
        "objective at both ends of the interval is computed independently: sign change => must return (value in the interval, reprices "
        "within 5e-10*max(1,spot/100), BrentSpec verified on the spied trial values, input untouched, same type, new parameter object), equal strict signs => must raise ValueError; "
        "1/6 of the cases are forced no-root cases, 1/7 of the generic ones use an interval reaching into refused values; the run is "
        "broken if fewer than 40 (quick) bracketed cases were calibrated. generated heap program: every monitored calibration call, RETURNING OR RAISING, that ended in a way the program can produce -- "
        "returned; the objective raised in the setter / the re-initialisation / the exponential model's constructor (decided by replaying "
        "the steps on a fresh copy); brentq's own ValueError 'f(a) and f(b) must have different signs' -- becomes a vm_compute case (a raise "
        "of the pricer or of brentq's iteration is outside the heap model: skipped and counted; none occurs in the quick tier). The case "
        "carries the interval, the trial values brentq used after the two ends, the objective value the implementation computed at each "
        "(exact rational of the float) and, per value, whether the model constructor accepts the parameters (computed by the harness on a "
        "fresh copy, outside the calibration). gen_calibrate_model_parameter must be None exactly when the implementation raised, else "
        "leave the input object as the implementation left it and the working copy holding the last evaluated value; "
        "gen_run_default_calibration with the GENERATED table's field and interval (the interval the implementation used must be the "
        "table's up to one ulp) must be None exactly when run_default_calibration raised, else return a new object equal (full __dict__, "
        "same tolerances as the histories) to the parameters of the implementation's returned model, all values inside the table's "
        "interval up to one ulp. The two calls audit 4 found raising on /repo (default HEM model with the default bs_sigma = 0.10; "
        "VG(nu=1.5, theta=0.3) with bs_sigma = 0.2) are fixed cases of the default stream; ~1/5 of the default cases raise. "
        "Wave 8b: in the HEM and CGMY cases the Coq side applies the GENERATED class guard (hem_model_ok / cgmy_model_ok) and is fed only the "
        "verdict of the generic guard (ExponentialOfLevyModel.__init__ called directly); intervals for eta1 starting at 0.5 (class guard) and "
        "at 1.0 (division by zero; also through calibrate_model_parameter_to_atm_call, where the exception must be the raw ZeroDivisionError "
        "or the wrapped ValueError) are fixed cases; one deterministic oracle constructs / assigns VG nu = -1.0 (finding F-C20-4)")
MODELLED = ["Parameters objects as records over Q (floats are exact rationals; rounding of / * sqrt in the derived-field formulas is "
            "covered by the stated tolerance of the correspondence, not by the theorems)",
            "np.sqrt, scipy.special.gamma, np.power: opaque functions (theorems hold for every interpretation); correspondence feeds "
            "the implementation's Gamma/pow values as data and uses floor(sqrt(q*4^100))/2^100 for sqrt",
            "property setters of tools/parameter.py: `set` = store iff predicate holds else ValueError (predicates, class-level "
            "declarations and the list of stored attributes are generated / checked by py2coq)",
            "Python float division by zero in the derived-field formulas (HEM eta1=1; VG nu=0 or sigma=0) = RaisesZeroDivisionError in "
            "__init__ and initialisation alike; numpy-typed operands (inf instead of an exception) and underflow of sigma**2 are outside "
            "the model and skipped by the correspondence (counted)",
            "objects live in a heap (list of records); copy.deepcopy = append a copy; the calibration is modelled for EVERY list of trial "
            "values; scipy.optimize.brentq is specified (BrentSpec: returned point inside a sign-changing sub-bracket of width delta; "
            "raises when the end values have the same strict sign), never proved; the COS price is an abstract function of the record",
            "rpylib/model/utils.py: the default_calibration table and the BODIES of calibrate_model_parameter (+ inner calibration_fun), "
            "calibrate_model_parameter_to_atm_call and run_default_calibration are translated statement by statement on every run "
            "(harness/py2coq_c20.py, fail-closed on any statement outside the listed patterns) into a program over the heap operations of "
            "Model/ParamsHeap.v (deepcopy / setattr / initialisation / op_model = the exponential model's constructor on an ADDRESS, which "
            "raises when the class component model_ok refuses the record / price of that model / op_brentq_ab = f(a), f(b), return at a zero "
            "end, ValueError when both end values are non-zero with the same sign (scipy 1.18 Zeros/brentq.c order), then any trial list); "
            "a model object is identified with the address of its Parameters object; op_price st m is the price of a model CONSTRUCTED on "
            "the record at m at that moment (every price of utils.py follows a fresh construction) -- it does NOT describe pricing an older "
            "model object after a later assignment: HEMModel caches sigma/drift in its triplet, ExponentialOfLevyModel caches omega (audit 5b "
            "B14; after `parameters.sigma = 0.3; initialisation()` an existing model still prices at the old sigma); ValueError and "
            "ZeroDivisionError are ONE outcome of the heap program (None); spot/r/d, the "
            "product and the Black-Scholes target are checked to be passed through unchanged and abstracted as an arbitrary market price",
            "the exponential models' constructor test is the class component model_ok : Rec -> bool of the generated program; the generic "
            "theorems hold for every test. Wave 8b: for HEM and CGMY it is INSTANTIATED (Proofs/C20_Guards.v: hem_model_ok / cgmy_model_ok) "
            "with the class guards translated on every run from the `if ...: raise ValueError` line of ExponentialOfHEMModel.__init__ "
            "(eta1 <= 1) / ExponentialOfCGMYModel.__init__ (m < 1 or (m == 1 and y <= 0)) into GenC20Params.hem_exp_raises_q / "
            "cgmy_exp_raises_q (same source lines as GenC18Cos.hem_exp_raises / cgmy_exp_raises, over Q), conjoined with `generic` = the "
            "guard of ExponentialOfLevyModel.__init__ (finite, real levy_exponent(-1j): complex float arithmetic, outside the record model, "
            "any interpretation). The correspondence applies the generated class guard on the Coq side and feeds only the generic verdict "
            "(obtained by calling ExponentialOfLevyModel.__init__ directly, without the class guard); Merton and VG have no class guard: "
            "their model_ok is the fed verdict of the whole constructor"]
ASSUMPTIONS = ["floats are modelled as rationals: NaN/inf values are outside the model (NaN is rejected by every predicate, inf is "
               "accepted by the non-strict/strict positivity predicates in the code)",
               "C20_calibration_spec_partial clause (4) assumes BrentSpec (brentq keeps its documented bracket promise) and an L-Lipschitz "
               "price on [a,b]; neither is proved; the repricing |COS price - target| <= 1e-8 is monitored on the implementation",
               "existence of a sign change over the default intervals is not proved; the monitors compute it per case",
               "C20_default_calibration_returns_if_nothing_raises assumes, as explicit hypotheses, the absence of every raise the generated "
               "program can produce: trial/returned values in the generated table's interval (brentq's documented behaviour; monitored on "
               "every spied run up to one ulp -- the table's bounds are the exact decimal literals of the source, Python uses the nearest "
               "doubles, e.g. float(1e-12) < 10^-12), a constructed input object, model_ok on the parameters constructed with each evaluated "
               "value, and end values of the objective not of the same strict sign. None of them is discharged for /repo's models: on the "
               "default HEM model with the default bs_sigma the last one is false and run_default_calibration raises",
               "exception TYPES are not part of the heap model: None = 'raises'. utils.py re-wraps ValueError only, so the ZeroDivisionError of "
               "a re-initialisation (interval end at HEM eta1 = 1, VG sigma = 0 or nu = 0) leaves calibrate_model_parameter* RAW: "
               "calibrate_model_parameter_to_atm_call(default HEM, 'eta1', (1.0, 30.0), 1.0, 0.2) -> ZeroDivisionError, (0.5, 30.0) -> "
               "ValueError('...cannot be calibrated...'). Decided NOT a finding: C20 says 'or raises' without a type and "
               "HEMParameters(eta1=1.0) raises the same ZeroDivisionError (C20_construct_iff); the monitor requires exactly one of the two there",
               "VGParameters.nu has no declared constraint (finding F-C20-4, C20_vg_nu_unconstrained_refuted): the harness's `pred` table "
               "mirrors the DECLARED constraints, so random histories do not flag nu < 0; a dedicated deterministic oracle does",
               "exceptions raised by the COS pricer inside calibration_fun, brentq's RuntimeError (no convergence in 100 iterations) and "
               "NaN objective values are outside the heap model (the price is a total rational function of the record); the monitors require "
               "ValueError there; in the Q model 'same strict sign' is 0 < f(a)*f(b) exactly, brentq.c compares sign bits of floats"]
THEOREM_NOTES = {
    "C20_calibration_spec_partial": "partial: heap facts (input untouched thanks to the deep copy, refused value => error, returned object = "
                                    "initialisation(input with f := x)) are proved for every list of trial values; repricing within L*delta is "
                                    "proved only UNDER BrentSpec + Lipschitz; existence of a root, brentq, the Lipschitz constant and the COS "
                                    "price are not proved. Its 'must return when every value is assignable' clause is about the model of "
                                    "Model/Params.v, whose brentq and model constructor cannot raise; the generated program has both raises and "
                                    "refines this model whenever it returns (C20_generated_program, clauses 4-5)",
    "C20_construct_iff": "must-succeed direction: Built <-> valid && defined (ValueError / ZeroDivisionError characterised likewise); closes the "
                         "gap that the sync theorem is an implication from Built",
    "C20_generated_program": "ties the hand-written heap models to the source: the statement-by-statement translation of the current bodies of "
                             "calibrate_model_parameter / calibration_fun / run_default_calibration equals calibration_fun_g (on allocated "
                             "addresses) / calibrate_model_parameter_g / run_default_calibration_g of Model/ParamsHeap.v (with the model "
                             "constructor's raise and brentq's sign test) for every class description, heap, interval, trial list; and whenever "
                             "the program returns, the unguarded model of Model/Params.v returns the same heap on the evaluated trial list "
                             "([a;b] or a::b::xs), which carries C20_calibration_spec_partial over to the generated program; "
                             "proved by store/load algebra and induction over the trial list (not reflexivity); "
                             "a source without the deep copy, with setattr/initialisation swapped or dropped yields a program for which the "
                             "proof fails; one that swallows the setter's exception, builds the model on another object or stops forwarding "
                             "bs_sigma is refused by the translator",
    "C20_default_calibration_returns_if_nothing_raises": "audit 4 B3: replaces C20_default_calibration_must_succeed, which was true only of a program "
                                            "whose brentq and model constructor could not raise. On the GENERATED table (field, [lo, hi]) and the "
                                            "GENERATED program for HEM, Merton, VG, CGMY: constructed input + trial/returned values in [lo, hi] + "
                                            "the model constructor accepts the parameters constructed with every evaluated value + the objective's "
                                            "end values are not of the same strict sign => returns, input untouched, returned parameters = "
                                            "constructor applied to the final values and accepted by the model constructor. Each hypothesis is the "
                                            "absence of one modelled raise; it is a conditional, NOT a claim that /repo's default calibration "
                                            "succeeds (it raises for the default HEM model with bs_sigma = 0.10). A table entry whose interval "
                                            "reaches refused or dividing-by-zero values (e.g. VG sigma from 0.0, HEM sigma from -0.5), or naming "
                                            "a field whose guard the interval violates, breaks the proof. Black-Scholes has no table entry "
                                            "(F-C20-3); NOT proved: that brentq's trial values stay in the interval (monitored); pricer raises, "
                                            "non-convergence and NaN are outside the model",
    "C20_default_calibration_must_raise": "the converse, per class on the generated table/program for a constructed input: (1) objective of the same "
                                          "strict sign at both ends of the table's interval => raises (brentq's ValueError; /repo: default HEM, "
                                          "bs_sigma 0.10); (2) model constructor refusing the parameters constructed at an end or at the returned "
                                          "value => raises (/repo: VG nu=1.5 theta=0.3 at sigma=1.0); (3) any interval: an end or the returned "
                                          "value below the field's domain (HEM sigma < 0, Merton mu_j < 0, VG sigma <= 0 incl. the division by "
                                          "zero at 0, CGMY c <= 0) => raises. Together with the theorem above every hypothesis of 'returns' has "
                                          "its raising counterpart except 'values in the interval' for interior trial values (a refused interior "
                                          "trial is only reached when the end signs differ)",
    "C20_exp_model_guards": "audit 5b top-10 #10: model_ok instantiated with the GENERATED class guards (hem_model_ok / cgmy_model_ok). Clauses "
                            "1-2 characterise the instantiated test by the fields (1 < eta1; 1 < m or m = 1 and 0 < y, each AND generic): the "
                            "seeded edit `eta1 <= 1` -> `eta1 < 1` changes the generated definition and breaks this proof. Clauses 3-4: the "
                            "default calibration of a constructed HEM object with eta1 <= 1 / CGMY object with m < 1 or (m = 1, y <= 0) raises "
                            "for every price, market, generic test, trial list (uses must_raise clause 2 at the lower end of the table's "
                            "interval + the constructors keep eta1 / m, y). Clause 5: eta1 over any (a, b) with a <= 1 raises (setter / division "
                            "by zero / class guard, one outcome). `generic` stays an arbitrary test: nothing is proved about levy_exponent(-1j)",
    "C20_default_calibration_returns_real_guards": "a COROLLARY of C20_default_calibration_returns_if_nothing_raises at model_ok := hem_model_ok generic "
                            "/ cgmy_model_ok generic, with the class-guard half of the constructor hypothesis discharged from 1 < eta1 (resp. the "
                            "CGMY condition) on the input; the generic half, the interval and the sign hypotheses remain; Merton / VG: no class "
                            "guard exists, the general theorem is already about their real test up to `generic`",
    "C20_vg_nu_unconstrained_refuted": "FINDING F-C20-4 (known): exists nu < 0 accepted by vg_construct and by set + initialisation on every "
                            "constructed object; on /repo VGParameters(sigma=0.1, nu=-1.0, theta=0.1) has _lambda_p = _lambda_m = nan and the COS "
                            "ATM call is -1.68993732. Counted under C20 ('parameter constraints are enforced on every assignment'): nu is the only "
                            "parameter of the four classes with a mathematical domain and no declared constraint, and the fields it corrupts are "
                            "the cached derived parameters of C20's anchor. The sync clause is NOT violated (construction and assignment agree)",
    "C20_calibration_classes": "objective independent of earlier trial values; returned parameters = direct construction (sync with one assignment)",
    "C20_init_eq_reinit": "about the two py2coq translations (from __init__ and from initialisation) of the current source; reflexivity because "
                          "the two source expressions are currently identical -- an edit of one of them breaks the proof",
    "C20_sync_after_any_history": "about the hand-written record model (set/initialisation/construct) tied to the classes by the generated "
                                  "guards/field lists/derived expressions and by the vm_compute correspondence on full __dict__s; 'behaves "
                                  "identically' is record equality in the theorem, price equality only as a test",
}

CLASSES = {}


def _classes():
    if CLASSES:
        return CLASSES
    from rpylib.model.levymodel.mixed.hem import HEMParameters, ExponentialOfHEMModel
    from rpylib.model.levymodel.mixed.merton import MertonParameters, ExponentialOfMertonModel
    from rpylib.model.levymodel.purejump.variancegamma import VGParameters, ExponentialOfVarianceGammaModel
    from rpylib.model.levymodel.purejump.cgmy import CGMYParameters, ExponentialOfCGMYModel
    from rpylib.model.levymodel.mixed.blackscholes import BlackScholesParameters, BlackScholesModel
    # documented constraints (what the property calls "parameter constraints"): name -> predicate on a float
    pos, spos = (lambda x: x >= 0), (lambda x: x > 0)
    CLASSES.update({
        "hem": dict(cls=HEMParameters, model=ExponentialOfHEMModel, prim=["sigma", "p", "eta1", "eta2", "intensity"], der=["_xi"],
                    pred=dict(sigma=pos, p=(lambda x: 0 <= x <= 1), eta1=spos, eta2=spos, intensity=pos),
                    ctor=["HSigma", "HP", "HEta1", "HEta2", "HIntensity", "HXi"]),
        "merton": dict(cls=MertonParameters, model=ExponentialOfMertonModel, prim=["sigma", "mu_j", "sigma_j", "intensity"], der=[],
                       pred=dict(sigma=pos, mu_j=pos, sigma_j=spos, intensity=pos),
                       ctor=["MSigma", "MMuJ", "MSigmaJ", "MIntensity"]),
        "vg": dict(cls=VGParameters, model=ExponentialOfVarianceGammaModel, prim=["sigma", "nu", "theta"],
                   der=["_c", "_lambda_p", "_lambda_m"], pred=dict(sigma=pos),
                   ctor=["VSigma", "VNu", "VTheta", "VC", "VLambdaP", "VLambdaM"]),
        "cgmy": dict(cls=CGMYParameters, model=ExponentialOfCGMYModel, prim=["c", "g", "m", "y"],
                     der=["_CGammamY", "_MpowerY", "_GpowerY"], pred=dict(c=spos, g=pos, m=pos, y=lambda x: x < 2.0),
                     ctor=["CC", "CG", "CM", "CY", "CCGammamY", "CMpowerY", "CGpowerY"]),
        "bs": dict(cls=BlackScholesParameters, model=BlackScholesModel, prim=["sigma"], der=["variance"], pred=dict(sigma=pos),
                   ctor=["BSigma", "BVariance"]),
    })
    return CLASSES


# ----------------------------------------------------------------------------- value generators
def _dy(rng, lo, hi, bits=6):
    """few-bit dyadic in [lo, hi]"""
    k = rng.randrange(0, bits + 1)
    n = rng.randrange(int(lo * 2 ** k), int(hi * 2 ** k) + 1)
    return n / 2 ** k


def _valid(rng, name, f, exact):
    if exact:
        if name == "hem":
            return {"sigma": _dy(rng, 0, 1), "p": _dy(rng, 0.125, 1, 4) or 0.5, "eta1": float(1 + 2 ** rng.randrange(0, 6)),
                    "eta2": float(2 ** rng.randrange(0, 6) - 1) or 3.0, "intensity": _dy(rng, 0, 8)}[f]
        if name == "vg":   # theta^2 + 2 sigma^2/nu is the square of a dyadic: theta = 3*2^j t, sigma = 2^-a, nu = 2^(1-2b)
            return {"sigma": 2.0 ** -rng.randrange(1, 4), "nu": 2.0 ** (1 - 2 * rng.randrange(1, 4)), "theta": 0.0}[f]
        if name == "cgmy":
            return {"c": 2.0 ** rng.randrange(-3, 4), "g": _dy(rng, 1, 30, 2), "m": _dy(rng, 1, 30, 2), "y": _dy(rng, -1, 1.9, 3)}[f]
        if name == "bs":
            return _dy(rng, 0, 1)
        return {"sigma": _dy(rng, 0, 1), "mu_j": _dy(rng, 0, 1), "sigma_j": _dy(rng, 0.125, 1, 4) or 0.25, "intensity": _dy(rng, 0, 8)}[f]
    table = {
        "hem": {"sigma": (0.0, 0.8), "p": (0.0, 1.0), "eta1": (1.05, 60.0), "eta2": (0.05, 60.0), "intensity": (0.0, 10.0)},
        "merton": {"sigma": (0.0, 0.8), "mu_j": (0.0, 0.5), "sigma_j": (0.01, 0.5), "intensity": (0.0, 10.0)},
        "vg": {"sigma": (0.02, 0.8), "nu": (0.01, 2.0), "theta": (-0.5, 0.5)},
        "cgmy": {"c": (0.01, 10.0), "g": (0.5, 40.0), "m": (0.5, 40.0), "y": (-1.5, 1.95)},
        "bs": {"sigma": (0.0, 0.8)},
    }
    lo, hi = table[name][f]
    return rng.uniform(lo, hi)


def _invalid(rng, name, f):
    """a value violating the documented constraint of the field, or None if the field is unconstrained"""
    pred = _classes()[name]["pred"].get(f)
    if pred is None:
        return None
    if name == "cgmy" and f == "y":
        return rng.choice([2.0, 2.5, 2.0 + 2 ** -40, 17.0])
    if name == "hem" and f == "p":          # between(0, 1), end points included
        return rng.choice([-0.25, -2 ** -30, 1.0 + 2 ** -40, 1.5, rng.uniform(1.001, 5.0)])
    strict = not pred(0.0)
    return rng.choice(([0.0] if strict else []) + [-1.0, -2 ** -30, -0.25, -rng.uniform(0.001, 5.0)])


class UnmodelledAttribute(Exception):
    pass


def _fields_of(obj, info):
    """the FULL __dict__ of the object, in the model's field order; an attribute the model does not know (or a missing one)
    is a broken correspondence, never silently ignored"""
    want = info["prim"] + info["der"]
    if sorted(obj.__dict__) != sorted(want):
        raise UnmodelledAttribute(f"{type(obj).__name__}.__dict__ has {sorted(obj.__dict__)}, the record model has {sorted(want)}")
    return [obj.__dict__[k] for k in want]


def _same(a, b):
    a, b = float(a), float(b)
    return a == b or (a != a and b != b)


def _finite(xs):
    return all(isinstance(x, (int, float)) or hasattr(x, "dtype") for x in xs) and all(math.isfinite(float(x)) for x in xs)


# ----------------------------------------------------------------------------- tolerances of the derived fields
U = 2.0 ** -53


def _der_tols(name, prim):
    """absolute tolerance per derived field for non-dyadic cases: 8 ulp of the sum of the magnitudes of the terms of the formula
    (float rounding of each operation; the Q model is exact)"""
    if name == "hem":
        s, p, e1, e2, i = prim
        return [8 * U * (abs(p * e1 / (e1 - 1)) + abs((1 - p) * e2 / (e2 + 1)) + 1)]
    if name == "vg":
        s, nu, th = prim
        s2 = s * s
        root = math.sqrt(th * th + 2 * s2 / nu) / s2
        return [4 * U * abs(1 / nu), 8 * U * (root + abs(th / s2)), 8 * U * (root + 3 * abs(th / s2))]
    if name == "cgmy":
        import scipy.special
        c, g, m, y = prim
        return [4 * U * abs(c * scipy.special.gamma(-y)), 0.0, 0.0]
    if name == "bs":
        return [2 * U * prim[0] * prim[0]]
    return []


def _zero_div(name, prim):
    """where Python float division by zero occurs in the derived-field formulas (the model: <cls>_defined = false)"""
    if name == "hem":
        return prim[2] - 1 == 0 or prim[3] + 1 == 0
    if name == "vg":
        return prim[1] == 0 or prim[0] ** 2 == 0
    return False


def _coq_safe(name, prim):
    """final primary fields for which the Q model is meaningful: sqrt of a non-negative number, finite Gamma/pow; no float underflow
    of sigma**2 (division by zero itself IS modelled: RaisesZeroDivisionError)"""
    if name == "vg":
        s, nu, th = prim
        if _zero_div(name, prim):
            return s == 0 or nu == 0        # genuine zeros only (not sigma**2 underflowing to 0.0)
        return (th * th + 2 * s * s / nu) >= 0
    if name == "cgmy":
        import numpy as np
        import scipy.special
        c, g, m, y = prim
        with warnings.catch_warnings():
            warnings.simplefilter("ignore")
            return _finite([scipy.special.gamma(-y), np.power(m, y), np.power(g, y)])
    return True


def _tables(prims):
    """Gamma / pow values of the implementation's own functions at the exact arguments the model will ask for"""
    import numpy as np
    import scipy.special
    g1, p2 = {}, {}
    for (c, g, m, y) in prims:
        g1[Fraction(-y)] = Fraction(float(scipy.special.gamma(-y)))
        p2[(Fraction(m), Fraction(y))] = Fraction(float(np.power(m, y)))
        p2[(Fraction(g), Fraction(y))] = Fraction(float(np.power(g, y)))
    return (lst([f"({qlit(k)}, {qlit(v)})" for k, v in g1.items()]),
            lst([f"({qlit(k[0])}, {qlit(k[1])}, {qlit(v)})" for k, v in p2.items()]))


# ----------------------------------------------------------------------------- histories
TAG = {None: 0, "ValueError": 1, "ZeroDivisionError": 2}


def _price_like(info, params, T=0.5):
    """COS prices of the exponential model built on a Parameters object (or the exception type) -- 'behaves identically'"""
    import numpy as np
    from rpylib.numerical.cosmethod import COSPricer
    try:
        model = info["model"](spot=100.0, r=0.02, d=0.0, parameters=params)
        return [float(x) for x in COSPricer(model, n=256).call(np.array([90.0, 100.0, 110.0]), T)]
    except Exception as e:  # noqa
        return type(e).__name__


def _history_cases(res, rng, n_per_class, viol):
    info_all = _classes()
    coq_cases = {k: [] for k in info_all}
    ctor_cases = {k: [] for k in info_all}
    for name, info in info_all.items():
        cls, prim, der = info["cls"], info["prim"], info["der"]
        allf = prim + der
        for it in range(n_per_class):
            exact = it % 3 == 0
            args = {f: _valid(rng, name, f, exact) for f in prim}
            with warnings.catch_warnings():
                warnings.simplefilter("ignore")
                try:
                    obj = cls(**args)
                except Exception as e:  # noqa
                    viol(f"{cls.__name__}(valid arguments) raises {type(e).__name__}", kind="ctor", cls=name, args=args)
                    continue
            nops = rng.choice([0, 1, 2, 3, 5, 8, 12])
            ops, flags = [], []
            n_rej = n_der = 0
            for k_op in range(nops):
                mode = rng.choice(["valid", "valid", "valid", "invalid", "derived", "boundary"])
                f = rng.choice(prim)
                if mode == "derived" and der:
                    f, v = rng.choice(der), (_dy(rng, -4, 4) if exact else rng.uniform(-5, 5))
                elif mode == "invalid" and _invalid(rng, name, f) is not None:
                    v = _invalid(rng, name, f)
                elif mode == "boundary":
                    v = 0.0 if not (name == "cgmy" and f == "y") else rng.choice([2.0 - 2 ** -40, 1.9999, -3.0])
                    if name == "vg" and f in ("nu",):
                        v = rng.choice([0.0, -0.5])
                    if name == "hem" and f == "eta1":
                        v = 1.0
                    if name == "hem" and f == "p":
                        v = rng.choice([0.0, 1.0])
                else:
                    v = _valid(rng, name, f, exact)
                before = dict(obj.__dict__)
                try:
                    setattr(obj, f, v)
                    ok = True
                except ValueError:
                    ok = False
                except Exception as e:  # noqa
                    viol(f"assignment raises {type(e).__name__} (expected ValueError or success)", kind="set", cls=name, args=args,
                         ops=ops + [[f, v]])
                    ok = False
                expect_ok = info["pred"].get(f, lambda x: True)(v)
                res.bump("assignment", f"{name}:{'accepted' if ok else 'rejected'}")
                if ok != expect_ok:
                    viol("constraint not enforced on assignment" if ok else "valid assignment rejected", kind="set", cls=name, args=args,
                         ops=ops + [[f, v]], field=f, value=v)
                if not ok and obj.__dict__ != before:
                    viol("rejected assignment modified the object", kind="set", cls=name, args=args, ops=ops + [[f, v]])
                if ok and not _same(obj.__dict__[f], v):
                    viol("accepted assignment did not store the value", kind="set", cls=name, args=args, ops=ops + [[f, v]])
                if ok and any(not _same(obj.__dict__[k], before[k]) for k in before if k != f):
                    viol("assignment changed another field", kind="set", cls=name, args=args, ops=ops + [[f, v]])
                ops.append((f, v))
                flags.append(ok)
                n_rej += (not ok)
                n_der += f in der
            before_init = _fields_of(obj, info)
            final_prim = [obj.__dict__[k] for k in prim]
            with warnings.catch_warnings():
                warnings.simplefilter("ignore")
                try:
                    obj.initialisation()
                    after, err_hist = _fields_of(obj, info), None
                except UnmodelledAttribute:
                    raise
                except Exception as e:  # noqa
                    after, err_hist = None, type(e).__name__
                try:
                    direct = cls(**dict(zip(prim, final_prim)))
                    want, err_direct = _fields_of(direct, info), None
                except UnmodelledAttribute:
                    raise
                except Exception as e:  # noqa
                    want, err_direct = None, type(e).__name__
            res.count((name, tuple(args.values()), tuple(ops)), nontrivial=len(ops) >= 2 and (n_rej > 0 or n_der > 0), kind=f"history {name}")
            res.bump("history_length", len(ops))
            res.bump("final_state", "raises " + str(err_hist) if err_hist else "ok")
            if err_hist != err_direct:
                viol("initialisation() after a history and direct construction do not raise alike", kind="history", cls=name, args=args,
                     ops=[list(o) for o in ops], history_raises=err_hist, direct_raises=err_direct)
                continue
            if err_hist not in (None, "ZeroDivisionError"):
                viol(f"initialisation() raises {err_hist}", kind="history", cls=name, args=args, ops=[list(o) for o in ops])
                continue
            if err_hist is None and any(not _same(a, b) for a, b in zip(after, want)):
                viol("stale derived parameter: history + initialisation() differs from direct construction with the final values",
                     kind="history", cls=name, args=args, ops=[list(o) for o in ops], fields=allf,
                     after_history=[float(x) for x in after], direct=[float(x) for x in want])
                continue
            # 'behaves identically': the models built on the two objects price alike (every history)
            if err_hist is None:
                with warnings.catch_warnings():
                    warnings.simplefilter("ignore")
                    p1, p2 = _price_like(info, obj), _price_like(info, direct)
                res.bump("priced", name)
                same = (p1 == p2) if isinstance(p1, str) or isinstance(p2, str) else all(_same(u, v) for u, v in zip(p1, p2))
                if not same:
                    viol("model built after a history + initialisation() prices differently from the directly constructed one",
                         kind="history", cls=name, args=args, ops=[list(o) for o in ops], after_history=p1, direct=p2)
            # ---- Coq case
            zd = _zero_div(name, final_prim)
            if zd != (err_hist == "ZeroDivisionError"):
                # e.g. sigma**2 underflow or numpy-typed operands: outside the model's notion of division by zero
                res.bump("coq_case", "skipped (float-specific division by zero)")
                continue
            if not (_finite(before_init) and (after is None or _finite(after)) and _coq_safe(name, final_prim) and _coq_safe(name, list(args.values()))):
                res.bump("coq_case", "skipped (non-finite value)")
                continue
            res.bump("coq_case", "ZeroDivisionError" if zd else ("exact" if exact else "tolerance"))
            t0 = [0.0] * len(der) if exact else _der_tols(name, list(args.values()))
            t1 = [0.0] * len(der) if (exact or zd) else _der_tols(name, final_prim)
            written = {f for (f, v), ok in zip(ops, flags) if ok}
            t0 = [0.0 if d in written else t for d, t in zip(der, t0)]
            z = [0.0] * len(prim)
            lit = "(" + ", ".join([
                lst([qlit(args[f]) for f in prim]),
                lst([f"({info['ctor'][allf.index(f)]}, {qlit(v)})" for f, v in ops]),
                lst([blit(b) for b in flags]),
                lst([qlit(float(x)) for x in before_init]), lst([qlit(t) for t in z + t0]),
                zlit(TAG[err_hist]),
                lst([qlit(float(x)) for x in (after or [])]), lst([qlit(t) for t in (z + t1 if after else [])])]) + ")"
            if name == "cgmy":
                g1, p2 = _tables([tuple(args.values()), tuple(final_prim)])
                lit = f"({g1}, {p2}, {lit})"
            coq_cases[name].append(lit)
        # constructor error values: ValueError <-> RaisesValueError, ZeroDivisionError <-> RaisesZeroDivisionError
        for it in range(max(6, n_per_class // 8)):
            args = {f: _valid(rng, name, f, it % 2 == 0) for f in prim}
            zero_div = it % 3 == 2 and name in ("hem", "vg")
            if zero_div:
                f = "eta1" if name == "hem" else rng.choice(["nu", "sigma"])
                args[f] = 1.0 if name == "hem" else 0.0
                expect = "ZeroDivisionError"
            else:
                f = rng.choice([f for f in prim if f in info["pred"]])
                args[f] = _invalid(rng, name, f)
                expect = "ValueError"
            with warnings.catch_warnings():
                warnings.simplefilter("ignore")
                try:
                    cls(**args)
                    got = None
                except Exception as e:  # noqa
                    got = type(e).__name__
            if got != expect:
                viol(f"constructor: expected {expect}, got {got or 'an object'}", kind="ctor", cls=name, args=args, field=f, expect=expect)
            res.count((name, "ctor-error", tuple(args.values())), kind=f"constructor error {name}")
            res.bump("ctor_error", f"{name}:{expect}")
            ctor_cases[name].append(f"({lst([qlit(args[k]) for k in prim])}, {zlit(TAG[expect])})")
    return coq_cases, ctor_cases


COQ_HEADER = r"""
From Coq Require Import ZArith QArith Qabs Bool List.
From RV Require Import Base.QB Base.Corr Gen.GenC20Params Model.Params.
Import ListNotations.
Open Scope Q_scope.
Definition qclose (t : Q * Q * Q) : bool := match t with (a, b, tol) => Qle_bool (Qabs (a - b)) tol end.
Fixpoint zip3 (a b c : list Q) : list (Q * Q * Q) :=
  match a, b, c with x :: a', y :: b', z :: c' => (x, y, z) :: zip3 a' b' c' | _, _, _ => [] end.
Definition closelist (a b tol : list Q) : bool :=
  Nat.eqb (length a) (length b) && Nat.eqb (length a) (length tol) && forallb qclose (zip3 a b tol).
Definition trace {Rec Field : Type} (set : Rec -> Field -> Q -> Rec * bool) (ops : list (Field * Q)) (r : Rec) : list bool * Rec :=
  fold_left (fun st op => let '(fl, r) := st in let '(r', ok) := set r (fst op) (snd op) in (fl ++ [ok], r')) ops ([], r).
Definition tag_of {A} (o : outcome A) : Z := match o with Built _ => 0 | RaisesValueError => 1 | RaisesZeroDivisionError => 2 end%Z.
(* tag = 0: initialisation() succeeded on the implementation with fields `after`; tag = 2: it raised ZeroDivisionError *)
Definition hist_check {Rec Field : Type} (set : Rec -> Field -> Q -> Rec * bool) (run : list (Field * Q) -> Rec -> Rec)
   (init : Rec -> outcome Rec) (fields : Rec -> list Q) (rebuild : Rec -> outcome Rec) (r0 : outcome Rec)
   (c : list (Field * Q) * list bool * list Q * list Q * Z * list Q * list Q) : bool :=
  match c, r0 with
  | (ops, flags, before, tb, tag, after, ta), Built r0 =>
      let '(fl, r) := trace set ops r0 in
      list_eqb Bool.eqb fl flags && closelist (fields r) before tb && closelist (fields (run ops r0)) before tb
      && match init r, rebuild r with
         | Built r1, Built r2 => Z.eqb tag 0 && closelist (fields r1) after ta && closelist (fields r2) after ta
         | RaisesZeroDivisionError, RaisesZeroDivisionError => Z.eqb tag 2
         | _, _ => false
         end
  | _, _ => false
  end.
Definition hem_ctor (a : list Q) := match a with [s; p; e1; e2; i] => hem_construct s p e1 e2 i | _ => RaisesValueError end.
Definition merton_ctor (a : list Q) := match a with [s; mu; sj; i] => merton_construct s mu sj i | _ => RaisesValueError end.
Definition vg_ctor (a : list Q) := match a with [s; nu; th] => vg_construct qsqrt_hi s nu th | _ => RaisesValueError end.
Definition cgmy_ctor fg fp (a : list Q) := match a with [c; g; m; y] => cgmy_construct fg fp c g m y | _ => RaisesValueError end.
Definition bs_ctor (a : list Q) := match a with [s] => bs_construct s | _ => RaisesValueError end.
Definition hem_case c := match c with (a, ops, fl, b, tb, tag, af, ta) =>
  hist_check hem_set hem_run hem_initialisation_checked hem_fields hem_rebuild (hem_ctor a) (ops, fl, b, tb, tag, af, ta) end.
Definition merton_case c := match c with (a, ops, fl, b, tb, tag, af, ta) =>
  hist_check merton_set merton_run merton_initialisation_checked merton_fields merton_rebuild (merton_ctor a) (ops, fl, b, tb, tag, af, ta) end.
Definition vg_case c := match c with (a, ops, fl, b, tb, tag, af, ta) =>
  hist_check vg_set vg_run (vg_initialisation_checked qsqrt_hi) vg_fields (vg_rebuild qsqrt_hi) (vg_ctor a) (ops, fl, b, tb, tag, af, ta) end.
Definition cgmy_case c := match c with (g1, p2, (a, ops, fl, b, tb, tag, af, ta)) =>
  let fg := qlookup1 g1 in let fp := qlookup2 p2 in
  hist_check cgmy_set cgmy_run (cgmy_initialisation_checked fg fp) cgmy_fields (cgmy_rebuild fg fp) (cgmy_ctor fg fp a) (ops, fl, b, tb, tag, af, ta) end.
Definition bs_case c := match c with (a, ops, fl, b, tb, tag, af, ta) =>
  hist_check bs_set bs_run bs_initialisation_checked bs_fields bs_rebuild (bs_ctor a) (ops, fl, b, tb, tag, af, ta) end.
"""

# the GENERATED heap program of model/utils.py (Gen/GenC20Calib.v) run on the trial values the real brentq used
COQ_HEADER_CALIB = COQ_HEADER.replace("Model.Params.", "Model.Params Model.ParamsHeap Gen.GenC20Calib Proofs.C20_Guards.") + r"""
(* class components fed as DATA: the objective value the implementation computed at each trial value (price - market, market := 0) and
   whether the exponential model's constructor accepted the parameters built with that value (computed by the harness on a fresh copy,
   outside the calibration); both keyed by the value of the calibrated field (position k of `fields`).
   Wave 8b: for HEM and CGMY the fed verdict is the one of the GENERIC guard only (ExponentialOfLevyModel.__init__ called directly on
   HEMModel / CGMYModel(parameters), i.e. WITHOUT the class guard); the class guard is the GENERATED hem_exp_raises_q / cgmy_exp_raises_q,
   combined by `wrap` := hem_model_ok / cgmy_model_ok of Proofs/C20_Guards.v (Merton, VG: no class guard, wrap = identity) *)
Definition ptab_price {Rec : Type} (fields : Rec -> list Q) (k : nat) (pt : list (Q * Q)) (r : Rec) : Q := qlookup1 pt (nth k (fields r) 0).
Definition gtab_ok {Rec : Type} (fields : Rec -> list Q) (k : nat) (gt : list (Q * Q)) (r : Rec) : bool := Qeq_bool (qlookup1 gt (nth k (fields r) 0)) 1.
(* calibrate_model_parameter on the heap [input] with the interval ab and the trial values xs brentq used AFTER the two ends: None exactly
   when the implementation raised (setter / re-initialisation / model constructor inside the objective, or brentq's own ValueError on equal
   strict end signs); otherwise the input object (address 0) is as the implementation left it and the working copy (address 1) holds the
   last evaluated value *)
Definition trials_check {Rec Field : Type} (set : Rec -> Field -> Q -> Rec * bool) (init : Rec -> outcome Rec) (fields : Rec -> list Q)
   (wrap : (Rec -> bool) -> Rec -> bool)
   (r0 : outcome Rec) (c : Field * nat * (Q * Q) * list Q * list (Q * Q) * list (Q * Q) * bool * list Q * list Q) : bool :=
  match c, r0 with
  | (f, k, ab, xs, pt, gt, raised, before, tb), Built r0 =>
      match gen_calibrate_model_parameter Rec Field set init (ptab_price fields k pt) r0 (wrap (gtab_ok fields k gt)) [r0] 0%nat f ab 0 xs with
      | Some h' => negb raised && closelist (fields (load Rec r0 h' 0%nat)) before tb
                   && match rev (fst ab :: snd ab :: xs) with [] => true | y :: _ => Qeq_bool (nth k (fields (load Rec r0 h' 1%nat)) 0) y end
      | None => raised
      end
  | _, _ => false
  end.
(* one-ulp slack: the table's bounds are the exact decimal literals of the source, the implementation uses the nearest doubles *)
Definition in_interval (lo hi : Q) (xs : list Q) : bool :=
  forallb (fun y => Qle_bool (lo - Qabs lo * (1 # 2 ^ 52)) y && Qle_bool y (hi + Qabs hi * (1 # 2 ^ 52))) xs.
Definition near (lo a : Q) : bool := Qle_bool (Qabs (a - lo)) (Qabs lo * (1 # 2 ^ 52)).
(* run_default_calibration with the field AND the interval of the GENERATED table (the interval the implementation passed to brentq must
   be the table's, up to one ulp): returns exactly when the implementation returned -- then the input is as the implementation left it,
   the returned model's parameters (a new address) are the implementation's returned parameters and every evaluated value lies in the
   table's interval; None exactly when the implementation raised (RAISING calls are cases too) *)
Definition default_check {Rec Field : Type} (set : Rec -> Field -> Q -> Rec * bool) (init : Rec -> outcome Rec) (fields : Rec -> list Q)
   (wrap : (Rec -> bool) -> Rec -> bool)
   (f : Field) (lo hi : Q) (r0 : outcome Rec) (c : nat * (Q * Q) * list Q * Q * list (Q * Q) * list (Q * Q) * bool * list Q * list Q * list Q * list Q) : bool :=
  match c, r0 with
  | (k, ab, xs, x, pt, gt, returned, before, tb, after, ta), Built r0 =>
      near lo (fst ab) && near hi (snd ab) &&
      match gen_run_default_calibration Rec Field set init (ptab_price fields k pt) r0 (wrap (gtab_ok fields k gt)) [r0] 0%nat f ab 0 xs x with
      | Some (h', q) => returned && Nat.eqb q 2 && in_interval lo hi (x :: xs)
                        && closelist (fields (load Rec r0 h' 0%nat)) before tb && closelist (fields (load Rec r0 h' q)) after ta
      | None => negb returned
      end
  | _, _ => false
  end.
Definition hem_trials c := match c with (a, f, k, ab, xs, pt, gt, rs, b, tb) => trials_check hem_set hem_initialisation_checked hem_fields hem_model_ok (hem_ctor a) (f, k, ab, xs, pt, gt, rs, b, tb) end.
Definition merton_trials c := match c with (a, f, k, ab, xs, pt, gt, rs, b, tb) => trials_check merton_set merton_initialisation_checked merton_fields (fun g => g) (merton_ctor a) (f, k, ab, xs, pt, gt, rs, b, tb) end.
Definition vg_trials c := match c with (a, f, k, ab, xs, pt, gt, rs, b, tb) => trials_check vg_set (vg_initialisation_checked qsqrt_hi) vg_fields (fun g => g) (vg_ctor a) (f, k, ab, xs, pt, gt, rs, b, tb) end.
Definition cgmy_trials c := match c with (g1, p2, (a, f, k, ab, xs, pt, gt, rs, b, tb)) =>
  let fg := qlookup1 g1 in let fp := qlookup2 p2 in
  trials_check cgmy_set (cgmy_initialisation_checked fg fp) cgmy_fields cgmy_model_ok (cgmy_ctor fg fp a) (f, k, ab, xs, pt, gt, rs, b, tb) end.
Definition hem_default c := match c with (a, k, ab, xs, x, pt, gt, rt, b, tb, af, ta) =>
  default_check hem_set hem_initialisation_checked hem_fields hem_model_ok dc_hem_field dc_hem_lo dc_hem_hi (hem_ctor a) (k, ab, xs, x, pt, gt, rt, b, tb, af, ta) end.
Definition merton_default c := match c with (a, k, ab, xs, x, pt, gt, rt, b, tb, af, ta) =>
  default_check merton_set merton_initialisation_checked merton_fields (fun g => g) dc_merton_field dc_merton_lo dc_merton_hi (merton_ctor a) (k, ab, xs, x, pt, gt, rt, b, tb, af, ta) end.
Definition vg_default c := match c with (a, k, ab, xs, x, pt, gt, rt, b, tb, af, ta) =>
  default_check vg_set (vg_initialisation_checked qsqrt_hi) vg_fields (fun g => g) dc_vg_field dc_vg_lo dc_vg_hi (vg_ctor a) (k, ab, xs, x, pt, gt, rt, b, tb, af, ta) end.
Definition cgmy_default c := match c with (g1, p2, (a, k, ab, xs, x, pt, gt, rt, b, tb, af, ta)) =>
  let fg := qlookup1 g1 in let fp := qlookup2 p2 in
  default_check cgmy_set (cgmy_initialisation_checked fg fp) cgmy_fields cgmy_model_ok dc_cgmy_field dc_cgmy_lo dc_cgmy_hi (cgmy_ctor fg fp a) (k, ab, xs, x, pt, gt, rt, b, tb, af, ta) end.
"""
TRIALS_TY = "list Q * {F} * nat * (Q * Q) * list Q * list (Q * Q) * list (Q * Q) * bool * list Q * list Q"
DEFAULT_TY = "list Q * nat * (Q * Q) * list Q * Q * list (Q * Q) * list (Q * Q) * bool * list Q * list Q * list Q * list Q"


def _coq_side_calib(res, coq):
    groups = []
    for name, fld in (("hem", "HemField"), ("merton", "MertonField"), ("vg", "VgField"), ("cgmy", "CgmyField")):
        for kind, ty in (("trials", TRIALS_TY.format(F=fld)), ("default", DEFAULT_TY)):
            if name == "cgmy":
                ty = f"list (Q * Q) * list (Q * Q * Q) * ({ty})"
            groups.append((f"calib_{kind}_{name}", ty, f"{name}_{kind}", coq[kind][name]))
    for g, ty, chk, cases in groups:
        if not cases:
            res.broke(f"correspondence {g}", "no case generated (empty group)")
    groups = [g for g in groups if g[3]]
    res.case_lemmas += len(groups)
    bad = coq_bad_indices(PROP, "calib", COQ_HEADER_CALIB, groups, timeout=900)
    for g, ty, chk, cases in groups:
        if bad[g]:
            res.broke(f"correspondence {g}", f"generated heap program and implementation differ on {len(bad[g])} of {len(cases)} case(s), first: {cases[bad[g][0]][:1500]}")
        else:
            res.case_ok += 1

CASE_TY = "list Q * list ({F} * Q) * list bool * list Q * list Q * Z * list Q * list Q"


def _coq_side(res, coq_cases, ctor_cases):
    groups = []
    for name, fld in (("hem", "HemField"), ("merton", "MertonField"), ("vg", "VgField"), ("cgmy", "CgmyField"), ("bs", "BsField")):
        ty = CASE_TY.format(F=fld)
        if name == "cgmy":
            ty = f"list (Q * Q) * list (Q * Q * Q) * ({ty})"
        groups.append((f"hist_{name}", ty, f"{name}_case", coq_cases[name]))
    ctor = {"hem": "hem_ctor", "merton": "merton_ctor", "vg": "vg_ctor", "cgmy": "cgmy_ctor (fun _ => 1) (fun _ _ => 1)", "bs": "bs_ctor"}
    for name, cases in ctor_cases.items():
        groups.append((f"ctor_{name}", "list Q * Z", f"fun c => Z.eqb (tag_of ({ctor[name]} (fst c))) (snd c)", cases))
    for g, ty, chk, cases in groups:
        if not cases:
            res.broke(f"correspondence {g}", "no case generated (empty group)")
    groups = [g for g in groups if g[3]]
    res.case_lemmas += len(groups)
    bad = coq_bad_indices(PROP, "cases", COQ_HEADER, groups, timeout=900)
    for g, ty, chk, cases in groups:
        if bad[g]:
            res.broke(f"correspondence {g}", f"model and implementation differ on {len(bad[g])} of {len(cases)} case(s), first: {cases[bad[g][0]][:1500]}")
        else:
            res.case_ok += 1


# ----------------------------------------------------------------------------- calibration monitors (implementation only)
def _calibration_monitors(res, rng, n_default, n_generic, viol):
    """implementation-only monitors.  The sign of the objective at both ends of the interval is computed INDEPENDENTLY (models
    constructed directly with the end values, priced by COS): a strict sign change obliges the calibration to return, equal strict
    signs oblige it to raise ValueError.  Returns the number of successfully calibrated cases."""
    import numpy as np
    from rpylib.model import utils as U_
    from rpylib.model.levymodel.levymodel import ModelType
    from rpylib.numerical.cosmethod import COSPricer
    from rpylib.numerical.closedform.cfblackscholes import CFBlackScholes
    from rpylib.product.payoff import Vanilla, PayoffType
    from rpylib.product.product import Product
    from rpylib.product.underlying import Spot

    def make(mt):
        spot, r, d = rng.choice([50.0, 100.0, 200.0]), rng.choice([0.0, 0.02, 0.05]), rng.choice([0.0, 0.01])
        j = lambda x, w=0.2: x * (1 + rng.uniform(-w, w))  # noqa
        kw = {ModelType.HEM: dict(sigma=j(0.05), p=min(0.95, j(0.6)), eta1=j(20.0), eta2=j(25.0), intensity=j(3.0)),
              ModelType.MERTON: dict(sigma=j(0.05), sigma_j=j(0.05), mu_j=j(0.03), intensity=j(3.0)),
              ModelType.CGMY: dict(c=j(1.0), g=j(15.0), m=j(20.0), y=rng.choice([0.2, 0.5, 0.8, 1.2, 1.5])),
              ModelType.VG: dict(sigma=j(0.1), nu=j(0.06), theta=j(0.1, 1.0) * rng.choice([-1, 1]))}[mt]
        return U_.helper_model(mt)(spot=spot, r=r, d=d, **kw), dict(spot=spot, r=r, d=d, **kw)

    def snapshot(model):
        return (copy.deepcopy(model.levy_model.parameters.__dict__), model.spot, model.r, model.d)

    def call_product(strike, T, ptype=PayoffType.CALL):
        return Product(payoff_underlying=Spot(), payoff=Vanilla(strike=strike, payoff_type=ptype), maturity=T)

    def bs_price(model, strike, T, vol, ptype=PayoffType.CALL):
        bs = CFBlackScholes(U_.create_exponential_of_levy_model(ModelType.BLACKSCHOLES)(spot=model.spot, r=model.r, d=model.d, sigma=vol))
        return float(bs.call(strike, T) if ptype == PayoffType.CALL else bs.put(strike, T))

    def objective(mt, kw, par, val, product, market):
        """price(model constructed DIRECTLY with par := val) - market; None if the construction or the pricing fails"""
        try:
            m = U_.helper_model(mt)(**dict(kw, **{par: val}))
            v = float(np.squeeze(COSPricer(m).price(product=product))) - market
            return v if math.isfinite(v) else None
        except Exception:  # noqa
            return None

    def classify(fa, fb):
        if fa is None or fb is None:
            return "undetermined"
        if fa * fb < 0:
            return "sign change"
        if fa * fb > 0:
            return "no sign change"
        return "zero at an end"

    stats = {"calibrated": 0, "sign change": 0}

    def judge(outcome, cls_, what, rep):
        """outcome: ('value', x) | ('ValueError', msg) | ('other', exc)"""
        res.bump("calibration_outcome", f"{rep['model']}: {cls_} -> {outcome[0]}")
        if cls_ == "sign change":
            stats["sign change"] += 1
        if outcome[0] == "other":
            viol(f"{what} raises {outcome[1]} instead of returning a value or ValueError('...cannot be calibrated...')", **rep)
            return False
        if outcome[0] == "ValueError":
            if "cannot be calibrated" not in outcome[1]:
                viol(f"{what} raises ValueError({outcome[1]})", **rep)
            elif cls_ == "sign change":
                viol(f"{what} raises although the objective changes sign over the interval (a root exists)", **rep)
            return False
        if cls_ == "no sign change":
            viol(f"{what} returns a value although the objective has the same strict sign at both ends (brentq must raise)", **rep)
            return False
        stats["calibrated"] += 1
        return True

    import scipy.optimize
    real_brentq = scipy.optimize.brentq
    spied = {}

    def spy_brentq(f, a, b, *args, **kw):
        """observation only: records the trial values and objective values, then calls the real brentq"""
        trials, calls = [], []

        def g(x, *aa):
            try:
                v = f(x, *aa)
            except BaseException:
                calls.append((float(x), True))       # the objective raised on this trial value (the exception propagates)
                raise
            calls.append((float(x), False))
            trials.append((float(x), float(np.squeeze(v))))
            return v
        spied["trials"] = trials
        spied["calls"] = calls
        spied["root"] = None
        root = real_brentq(g, a, b, *args, **kw)
        spied["root"] = float(root)
        return root

    def brent_spec_holds(x):
        """BrentSpec on the spied run: trial values x1 <= x <= x2 with x2 - x1 <= BRENT_DELTA*(1+|x|) and f(x1)*f(x2) <= 0"""
        tr = spied.get("trials") or []
        width = BRENT_DELTA * (1 + abs(x))
        near = [(t, v) for t, v in tr if abs(t - x) <= width]
        pairs = [(t1, t2, v1, v2) for t1, v1 in near for t2, v2 in near if t1 <= x <= t2 and v1 * v2 <= 0]
        return (bool(pairs), [list(pairs[0]) if pairs else None, len(near), len(tr)])

    def attempt(fun):
        spied.clear()
        scipy.optimize.brentq = spy_brentq
        try:
            return ("value", fun())
        except ValueError as e:
            spied["cause"] = str(e.__cause__) if e.__cause__ is not None else ""
            return ("ValueError", str(e))
        except Exception as e:  # noqa
            spied["cause"] = "other"
            return ("other", f"{type(e).__name__}: {e}")
        finally:
            scipy.optimize.brentq = real_brentq

    # ---- cases for the Coq side: the GENERATED heap program (Gen/GenC20Calib.v) is run on the trial values the real brentq used
    NAME = {ModelType.HEM: "hem", ModelType.MERTON: "merton", ModelType.VG: "vg", ModelType.CGMY: "cgmy"}
    coq = {"default": {n: [] for n in NAME.values()}, "trials": {n: [] for n in NAME.values()}}
    stats["coq"] = coq

    def with_tables(name, prims, lit):
        if name != "cgmy":
            return lit
        g1, p2 = _tables([tuple(p_) for p_ in prims])
        return f"({g1}, {p2}, {lit})"

    def trial_prims(name, info, prim, par, calls):
        """primary fields after each trial assignment that did not raise; None if the Q model is not meaningful for one of them"""
        out = []
        for x, raised in calls:
            if raised:
                continue
            pr = list(prim)
            pr[info["prim"].index(par)] = x
            if not (_finite(pr) and _coq_safe(name, pr)) or (_zero_div(name, pr)):
                return None
            out.append(pr)
        return out

    def ctor_accepts(model, par, x):
        """on a FRESH copy of the input's parameters (outside the calibration): None if the assignment / re-initialisation raises,
        else whether the exponential model's constructor accepts the parameters object (ValueError = refused)"""
        q = copy.deepcopy(model.levy_model.parameters)
        try:
            setattr(q, par, x)
            q.initialisation()
        except (ValueError, ZeroDivisionError):
            return None
        try:
            type(model)(spot=model.spot, r=model.r, d=model.d, parameters=q)
            return True
        except ValueError:
            return False

    def generic_accepts(model, par, x):
        """wave 8b: the verdict of the GENERIC guard of ExponentialOfLevyModel.__init__ alone (finite, real levy_exponent(-1j)), obtained by
        calling that constructor directly on the Levy model built on a fresh copy of the parameters -- the class guards of
        ExponentialOfHEMModel / ExponentialOfCGMYModel are NOT executed (the Coq side applies their generated translation)"""
        from rpylib.model.levymodel.exponentialoflevymodel import ExponentialOfLevyModel
        q = copy.deepcopy(model.levy_model.parameters)
        try:
            setattr(q, par, x)
            q.initialisation()
        except (ValueError, ZeroDivisionError):
            return None
        try:
            ExponentialOfLevyModel(spot=model.spot, r=model.r, d=model.d, levy_model=type(model.levy_model)(parameters=q))
            return True
        except ValueError:
            return False
        except Exception as e:  # noqa
            res.bump("generic_guard_other_exception", type(e).__name__)
            return False

    def raise_in_model(model, par, calls, out):
        """is the way this calibration call ended one the generated heap program can produce?  returned; the objective raised in the
        setter / the re-initialisation / the model constructor; brentq's own ValueError on equal strict end signs.  Anything else (the
        pricer raised, no convergence, ...) is outside the model: skipped and counted."""
        if out[0] == "value":
            return not any(r for _, r in calls)
        if calls and calls[-1][1]:
            return ctor_accepts(model, par, calls[-1][0]) is not True
        return len(calls) == 2 and "different signs" in (spied.get("cause") or "")

    def data_tables(model, par, calls, extra=()):
        """objective values the implementation computed (exact rationals of the floats), constructor verdicts computed independently"""
        pt = lst([f"({qlit(x)}, {qlit(v)})" for x, v in (spied.get("trials") or [])])
        seen, gt = set(), []
        for x in [c[0] for c in calls] + list(extra):
            if x in seen:
                continue
            seen.add(x)
            full = ctor_accepts(model, par, x)
            acc = full
            if full is not None and type(model).__name__ in ("ExponentialOfHEMModel", "ExponentialOfCGMYModel"):
                acc = generic_accepts(model, par, x)     # class guard: generated, applied on the Coq side
                res.bump("constructor_verdict", f"{type(model).__name__}: real constructor {'accepts' if full else 'refuses'}, generic guard alone {'accepts' if acc else 'refuses'}")
                if full and not acc:
                    res.broke("calibration monitors", f"{type(model).__name__} accepts {par} = {x} but ExponentialOfLevyModel.__init__ called directly refuses it")
            if acc is not None:
                gt.append(f"({qlit(x)}, {qlit(1.0 if acc else 0.0)})")
        return pt, lst(gt)

    def ends_first(calls, ab):
        """brentq evaluates f(a) then f(b) before anything else (the generated program does the same)"""
        want = [float(ab[0]), float(ab[1])]
        return [c[0] for c in calls[:2]] == want[:len(calls[:2])] and len(calls) >= 1

    def collect_trials(mt, kw, par, model, ab, out):
        """calibrate_model_parameter: the generated program must be None exactly when the implementation raised"""
        name = NAME[mt]
        info = _classes()[name]
        calls = list(spied.get("calls") or [])
        if not calls:
            res.bump("coq_calibration_case", "skipped (brentq not reached)")
            return
        if any(r for _, r in calls[:-1]):
            res.broke("calibration monitors", "harness: brentq went on after the objective raised")
            return
        if not ends_first(calls, ab):
            res.broke("calibration monitors", f"brentq did not evaluate the ends of {ab} first: {[c[0] for c in calls[:2]]}")
            return
        if not raise_in_model(model, par, calls, out):
            res.bump("coq_calibration_case", "skipped (raised by the pricer / the root finder's iteration: outside the heap model)")
            return
        prim = [float(kw[f]) for f in info["prim"]]
        tp = trial_prims(name, info, prim, par, calls)
        if tp is None or not (_finite(prim) and _coq_safe(name, prim)) or _zero_div(name, prim):
            res.bump("coq_calibration_case", "skipped (non-finite / float-specific value)")
            return
        before = _fields_of(model.levy_model.parameters, info)
        tb = [0.0] * len(info["prim"]) + _der_tols(name, prim)
        k = info["prim"].index(par)
        pt, gt = data_tables(model, par, calls)
        raised = out[0] != "value"
        lit = "(" + ", ".join([lst([qlit(v) for v in prim]), info["ctor"][k], natlit(k), f"({qlit(float(ab[0]))}, {qlit(float(ab[1]))})",
                               lst([qlit(x) for x, _ in calls[2:]]), pt, gt, blit(raised),
                               lst([qlit(float(v)) for v in before]), lst([qlit(t) for t in tb])]) + ")"
        coq["trials"][name].append(with_tables(name, [prim] + tp, lit))
        why = "returned" if not raised else ("objective raised" if calls[-1][1] else "brentq: equal strict signs at the ends")
        res.bump("coq_calibration_case", f"trials {name}.{par}: {why}")

    def collect_default(mt, kw, model, out):
        """run_default_calibration, RETURNING OR RAISING: the generated program run with the generated table's field and interval on the spied
        trial values (and the returned value) returns the implementation's object / is None exactly when the implementation raised"""
        name = NAME[mt]
        info = _classes()[name]
        cfg = U_.default_calibration[mt]
        par, ab = cfg.parameter, cfg.parameter_interval
        calls = list(spied.get("calls") or [])
        returned = out[0] == "value"
        if not calls or any(r for _, r in calls[:-1]) or not ends_first(calls, ab):
            res.broke("calibration monitors", f"run_default_calibration: brentq did not evaluate the ends of the table's interval {ab} first: {calls[:2]}")
            return
        if not raise_in_model(model, par, calls, out):
            res.bump("coq_calibration_case", "skipped (raised by the pricer / the root finder's iteration: outside the heap model)")
            return
        prim = [float(kw[f]) for f in info["prim"]]
        x = float(getattr(out[1].levy_model.parameters, par)) if returned else float(ab[0])
        final = list(prim)
        final[info["prim"].index(par)] = x
        tp = trial_prims(name, info, prim, par, calls)
        if tp is None or not all(_finite(pr) and _coq_safe(name, pr) and not _zero_div(name, pr) for pr in (prim, final)):
            res.bump("coq_calibration_case", "skipped (non-finite / float-specific value)")
            return
        before = _fields_of(model.levy_model.parameters, info)
        after = _fields_of(out[1].levy_model.parameters, info) if returned else []
        z = [0.0] * len(info["prim"])
        pt, gt = data_tables(model, par, calls, extra=[x])
        lit = "(" + ", ".join([lst([qlit(v) for v in prim]), natlit(info["prim"].index(par)), f"({qlit(float(ab[0]))}, {qlit(float(ab[1]))})",
                               lst([qlit(v) for v, _ in calls[2:]]), qlit(x), pt, gt, blit(returned),
                               lst([qlit(float(v)) for v in before]), lst([qlit(t) for t in z + _der_tols(name, prim)]),
                               lst([qlit(float(v)) for v in after]), lst([qlit(t) for t in (z + _der_tols(name, final) if returned else [])])]) + ")"
        coq["default"][name].append(with_tables(name, [prim, final] + tp, lit))
        why = "returned" if returned else ("model constructor refused" if calls[-1][1] else "brentq: equal strict signs at the ends")
        res.bump("coq_calibration_case", f"default {name}: {why}")
        res.bump("default_case_outcome", "returned" if returned else "raised")

    mts = [ModelType.HEM, ModelType.MERTON, ModelType.VG, ModelType.CGMY]
    with warnings.catch_warnings():
        warnings.simplefilter("ignore")
        # audit 4, B3: the two calls on which /repo raises -- the library's default HEM model with the default bs_sigma = 0.10 (its jump
        # volatility alone is 0.113: same sign at both ends, brentq's ValueError) and VG(nu = 1.5, theta = 0.3), bs_sigma = 0.2 (the model
        # constructor refuses sigma = 1.0).  They are fed to default_check like every other raising call: the program must be None.
        fixed = [(ModelType.HEM, dict(spot=100.0, r=0.02, d=0.0, sigma=0.05, p=0.6, eta1=20.0, eta2=25.0, intensity=3.0), 1.0, 0.10),
                 (ModelType.VG, dict(spot=100.0, r=0.02, d=0.0, sigma=0.1, nu=1.5, theta=0.3), 1.0, 0.2)]
        for it in range(-len(fixed), n_default):
            if it < 0:
                mt, kw, T, vol = fixed[it]
                kw = dict(kw)
                model = U_.helper_model(mt)(**kw)
            else:
                mt = mts[it % 4]
                model, kw = make(mt)
                T = rng.choice([1 / 12, 0.25, 0.5, 1.0, 2.0])
                vol = round(rng.uniform(0.12, 0.35), 3)
            cfg = U_.default_calibration[mt]
            a, b = cfg.parameter_interval
            target = bs_price(model, model.spot, T, vol)
            must_raise = it >= 0 and it % 6 == 5            # forced no-sign-change case: no admissible value reaches this target
            if must_raise:
                vol = 3.0 if mt != ModelType.MERTON else 0.001
                target = bs_price(model, model.spot, T, vol)
            product = call_product(model.spot, T)
            fa, fb = objective(mt, kw, cfg.parameter, a, product, target), objective(mt, kw, cfg.parameter, b, product, target)
            cls_ = classify(fa, fb)
            rep = dict(kind="default_calibration", model=mt.name, params=kw, maturity=T, bs_sigma=vol, objective_at_ends=[fa, fb], ends=cls_)
            snap = snapshot(model)
            price_before = float(np.squeeze(COSPricer(model).call(np.array([model.spot]), T)))
            res.count(("default", mt.name, tuple(kw.values()), T, vol), kind=f"run_default_calibration {mt.name}")
            out = attempt(lambda: U_.run_default_calibration(model, T, vol))
            if snapshot(model) != snap or float(np.squeeze(COSPricer(model).call(np.array([model.spot]), T))) != price_before:
                viol("run_default_calibration modified its input model", **rep)
            collect_default(mt, kw, model, out)
            if it < 0 and out[0] == "value":
                res.broke("calibration monitors", "harness: a call recorded by audit 4 as raising on /repo returned (fixed case outdated)")
            if not judge(out, cls_, "run_default_calibration", rep):
                continue
            cm = out[1]
            x = getattr(cm.levy_model.parameters, cfg.parameter)
            got = float(np.squeeze(COSPricer(cm).call(np.array([cm.spot]), T)))
            tol = CAL_TOL * max(1.0, model.spot / 100)
            rep.update(calibrated=float(x), interval=[a, b], target=target, cos_price=got, tol=tol)
            okb, br = brent_spec_holds(float(x))
            rep.update(bracket=br)
            if not okb:
                viol("the root finder did not keep its bracket promise (BrentSpec): no sign-changing pair of trial values of width <= 1e-10 around the returned value", **rep)
            if not (a <= x <= b):
                viol("calibrated value outside the admissible interval", **rep)
            if not abs(got - target) <= tol:
                viol("calibrated model does not reprice the ATM call at the Black-Scholes price", **rep)
            if type(cm) is not type(model) or type(cm.levy_model.parameters) is not type(model.levy_model.parameters):
                viol("calibrated model is not of the input model's type", **rep)
            if cm.levy_model.parameters is model.levy_model.parameters:
                viol("run_default_calibration returns the input's parameter object (aliasing)", **rep)
            if (cm.spot, cm.r, cm.d) != (model.spot, model.r, model.d):
                viol("calibrated model has another spot/r/d", **rep)
            # the returned model behaves like one constructed directly with the final values
            p = cm.levy_model.parameters
            info = next(i for i in _classes().values() if i["cls"] is type(p))
            direct = type(cm)(spot=cm.spot, r=cm.r, d=cm.d, parameters=info["cls"](**{k: p.__dict__[k] for k in info["prim"]}))
            ks = np.array([0.8, 1.0, 1.25]) * cm.spot
            if any(not _same(u, v) for u, v in zip(COSPricer(direct).call(ks, T), COSPricer(cm).call(ks, T))) or \
                    any(not _same(u, v) for u, v in zip(_fields_of(direct.levy_model.parameters, info), _fields_of(p, info))):
                viol("calibrated model differs from the model constructed directly with the calibrated values", **rep)

        # calibrate_model_parameter on other parameters / products
        generic = {ModelType.HEM: [("sigma", (0.0, 1.0)), ("intensity", (0.0, 60.0))],
                   ModelType.MERTON: [("sigma", (0.0, 1.0)), ("intensity", (0.0, 80.0)), ("sigma_j", (1e-3, 1.0))],
                   ModelType.VG: [("sigma", (1e-5, 1.0))],
                   ModelType.CGMY: [("c", (1e-12, 20.0))]}
        for it in range(n_generic):
            mt = mts[it % 4]
            model, kw = make(mt)
            par, (a, b) = rng.choice(generic[mt])
            T = rng.choice([0.25, 0.5, 1.0])
            vol = round(rng.uniform(0.12, 0.35), 3)
            strike = model.spot * rng.choice([0.9, 1.0, 1.1])
            ptype = rng.choice([PayoffType.CALL, PayoffType.PUT])
            product = call_product(strike, T, ptype)
            market = bs_price(model, strike, T, vol, ptype)
            mode = it % 7
            if mode == 5:       # forced no-sign-change: a market price no parameter value attains
                market = 3.0 * model.spot
            if mode == 6:       # a trial interval reaching into values the setter refuses: must raise (ValueError), never return
                a = -0.5
            atm = ptype == PayoffType.CALL and strike == model.spot and mode < 5 and it % 2 == 0
            if atm:
                market = bs_price(model, model.spot, T, vol)
            fa = objective(mt, kw, par, a, product, market) if a >= 0 else None
            fb = objective(mt, kw, par, b, product, market)
            cls_ = classify(fa, fb) if mode != 6 else "no sign change"
            rep = dict(kind="calibrate_model_parameter", model=mt.name, params=kw, parameter=par, interval=[a, b], maturity=T,
                       strike=strike, payoff=ptype.name, bs_sigma=vol, market_price=market, objective_at_ends=[fa, fb], ends=cls_, atm_entry=atm)
            snap = snapshot(model)
            res.count(("generic", mt.name, tuple(kw.values()), par, T, vol, strike, ptype.name, mode), kind=f"calibrate_model_parameter {mt.name}.{par}")
            if atm:
                out = attempt(lambda: U_.calibrate_model_parameter_to_atm_call(model, par, (a, b), T, vol))
            else:
                out = attempt(lambda: U_.calibrate_model_parameter(model, par, (a, b), product, market))
            if snapshot(model) != snap:
                viol("calibrate_model_parameter modified its input model", **rep)
            collect_trials(mt, kw, par, model, (a, b), out)
            if not judge(out, cls_, "calibrate_model_parameter", rep):
                continue
            x = out[1]
            params = copy.deepcopy(model.levy_model.parameters)
            setattr(params, par, x)
            params.initialisation()
            got = float(np.squeeze(COSPricer(type(model)(spot=model.spot, r=model.r, d=model.d, parameters=params)).price(product)))
            tol = CAL_TOL * max(1.0, model.spot / 100)
            rep.update(calibrated=float(x), cos_price=got, tol=tol)
            okb, br = brent_spec_holds(float(x))
            rep.update(bracket=br)
            if not okb:
                viol("the root finder did not keep its bracket promise (BrentSpec): no sign-changing pair of trial values of width <= 1e-10 around the returned value", **rep)
            if not (a <= x <= b):
                viol("calibrated value outside the admissible interval", **rep)
            if not abs(got - market) <= tol:
                viol("model with the calibrated value does not reprice the target product", **rep)
        # intervals reaching values the model REFUSES (a parameter constraint, or the E[exp(L_1)] guards of the exponential models), with
        # targets above / below / inside the attainable range.  The model (C20_calibration_spec_partial, second clause: a refused trial
        # value makes the calibration an error; brentq evaluates both ends first) says: the calibration raises.  The implementation must
        # raise ValueError -- never return the edge of the domain as a "root".
        refused = [(ModelType.CGMY, "m", (0.5, 20.0), dict(c=1.0, g=15.0, m=20.0, y=0.5)),
                   (ModelType.CGMY, "c", (-1.0, 5.0), dict(c=1.0, g=15.0, m=20.0, y=0.5)),
                   (ModelType.CGMY, "y", (0.5, 2.5), dict(c=1.0, g=15.0, m=20.0, y=0.5)),
                   (ModelType.HEM, "eta1", (0.5, 30.0), dict(sigma=0.05, p=0.6, eta1=20.0, eta2=25.0, intensity=3.0)),
                   (ModelType.HEM, "p", (0.2, 1.5), dict(sigma=0.05, p=0.6, eta1=20.0, eta2=25.0, intensity=3.0)),
                   (ModelType.HEM, "intensity", (-1.0, 10.0), dict(sigma=0.05, p=0.6, eta1=20.0, eta2=25.0, intensity=3.0)),
                   (ModelType.MERTON, "mu_j", (-0.5, 1.0), dict(sigma=0.05, sigma_j=0.05, mu_j=0.03, intensity=3.0)),
                   (ModelType.MERTON, "sigma_j", (-0.2, 1.0), dict(sigma=0.05, sigma_j=0.05, mu_j=0.03, intensity=3.0)),
                   (ModelType.VG, "sigma", (-0.5, 1.0), dict(sigma=0.1, nu=0.06, theta=0.1))]
        for mt, par, (a, b), kw in refused:
            for target in (70.0, 1.0, None):          # above every attainable price / below / attainable inside the domain
                T = rng.choice([0.5, 1.0])
                model = U_.helper_model(mt)(spot=100.0, r=0.02, d=0.0, **kw)
                product = call_product(100.0, T)
                market = target if target is not None else bs_price(model, 100.0, T, 0.2)
                ends = []
                for v in (a, b):
                    try:
                        U_.helper_model(mt)(spot=100.0, r=0.02, d=0.0, **dict(kw, **{par: v}))
                        ends.append("accepted")
                    except ValueError:
                        ends.append("refused")
                    except Exception as e:  # noqa
                        ends.append(type(e).__name__)
                rep = dict(kind="calibrate_model_parameter", model=mt.name, params=dict(spot=100.0, r=0.02, d=0.0, **kw), parameter=par,
                           interval=[a, b], maturity=T, strike=100.0, payoff="CALL", bs_sigma=0.2, market_price=market,
                           ends="refused end", end_values=ends)
                res.count(("refused interval", mt.name, par, target), kind="calibrate_model_parameter interval reaching refused values")
                if "refused" not in ends:
                    res.broke("calibration monitors", f"harness: neither end of {par} in [{a},{b}] is refused by {mt.name}")
                    continue
                snap = snapshot(model)
                out = attempt(lambda: U_.calibrate_model_parameter(model, par, (a, b), product, market))
                collect_trials(mt, dict(kw), par, model, (a, b), out)
                res.bump("calibration_outcome", f"{mt.name}.{par}: refused end -> {out[0]}")
                if out[0] == "value":
                    x = float(out[1])
                    try:
                        params = copy.deepcopy(model.levy_model.parameters)
                        setattr(params, par, x)
                        params.initialisation()
                        got = float(np.squeeze(COSPricer(type(model)(spot=100.0, r=0.02, d=0.0, parameters=params)).price(product)))
                    except Exception as e:  # noqa
                        got = f"{type(e).__name__}: {e}"
                    viol("calibration returns a value although an end of the interval is refused by the model (the objective cannot be "
                         "evaluated there: it must raise)", calibrated=x, cos_price=got, **rep)
                elif out[0] == "other" or "cannot be calibrated" not in str(out[1]):
                    viol(f"calibration over an interval reaching refused values raises {str(out[1])[:60]} instead of ValueError('...cannot be calibrated...')", **rep)
                if snapshot(model) != snap:
                    viol("calibrate_model_parameter modified its input model", **rep)
        # intervals whose end is a value where the re-initialisation divides by zero: the calibration must raise (ZeroDivisionError
        # propagates out of brentq; the model: assign_init = None), never return
        # Wave 8b (audit 5b, B14): utils.py re-wraps ValueError only, so the ZeroDivisionError of the re-initialisation leaves the helpers RAW
        # (witness of the audit: calibrate_model_parameter_to_atm_call(HEM, "eta1", (1.0, 30.0), 1.0, 0.2), the `atm` entry below).  C20 says
        # "or raises" without an exception type and HEMParameters(eta1=1.0) raises the same ZeroDivisionError: recorded, not a violation; but
        # the outcome must be exactly a raw ZeroDivisionError or the wrapped ValueError -- anything else is one.
        for mt, par, (a, b), kw, atm in [(ModelType.VG, "sigma", (0.0, 1.0), dict(sigma=0.1, nu=0.06, theta=0.1), False),
                                         (ModelType.VG, "nu", (0.0, 1.0), dict(sigma=0.1, nu=0.06, theta=0.1), False),
                                         (ModelType.HEM, "eta1", (1.0, 30.0), dict(sigma=0.05, p=0.6, eta1=20.0, eta2=25.0, intensity=3.0), False),
                                         (ModelType.HEM, "eta1", (1.0, 30.0), dict(sigma=0.05, p=0.6, eta1=20.0, eta2=25.0, intensity=3.0), True)]:
            model = U_.helper_model(mt)(spot=100.0, r=0.02, d=0.0, **kw)
            product = call_product(100.0, 1.0)
            market = bs_price(model, 100.0, 1.0, 0.2)
            snap = snapshot(model)
            rep = dict(kind="calibrate_model_parameter", model=mt.name, params=dict(spot=100.0, r=0.02, d=0.0, **kw), parameter=par, interval=[a, b],
                       maturity=1.0, strike=100.0, payoff="CALL", bs_sigma=0.2, market_price=market, ends="division by zero at an end")
            res.count(("zero-div interval", mt.name, par, atm), kind="calibrate_model_parameter division-by-zero interval")
            if atm:
                rep["atm_entry"] = True
                out = attempt(lambda: U_.calibrate_model_parameter_to_atm_call(model, par, (a, b), 1.0, 0.2))
            else:
                out = attempt(lambda: U_.calibrate_model_parameter(model, par, (a, b), product, market))
            collect_trials(mt, dict(kw), par, model, (a, b), out)
            res.bump("calibration_outcome", f"{mt.name}.{par}: division by zero at an end -> {out[0]} {str(out[1])[:17] if out[0] != 'value' else ''}")
            if out[0] == "value":
                viol("calibration returns a value although the objective cannot be evaluated at an end of the interval (division by zero)", **rep)
            elif not ((out[0] == "other" and str(out[1]).startswith("ZeroDivisionError"))
                      or (out[0] == "ValueError" and "cannot be calibrated" in str(out[1]))):
                viol(f"calibration over an interval with a division by zero at an end raises {str(out[1])[:60]}: neither the (un-wrapped) "
                     "ZeroDivisionError of the re-initialisation nor ValueError('...cannot be calibrated...')", **rep)
            res.bump("zero_division_exception_type", "raw ZeroDivisionError (not re-wrapped by utils.py)" if out[0] == "other" else out[0])
            if snapshot(model) != snap:
                viol("calibrate_model_parameter modified its input model", **rep)
        # Black-Scholes: the calibration helpers do not support this model type (recorded finding F-C20-3, matched by exception type)
        bsm = U_.create_exponential_of_levy_model(ModelType.BLACKSCHOLES)(spot=100.0, r=0.02, d=0.0, sigma=0.1)
        for label, fun in (("run_default_calibration", lambda: U_.run_default_calibration(bsm, 1.0, 0.2)),
                           ("calibrate_model_parameter_to_atm_call", lambda: U_.calibrate_model_parameter_to_atm_call(bsm, "sigma", (1e-5, 1.0), 1.0, 0.2))):
            res.count(("bs calibration", label), kind="calibration of a Black-Scholes model")
            out = attempt(fun)
            res.bump("calibration_outcome", f"BLACKSCHOLES {label} -> {out[0]} {str(out[1])[:24]}")
            if out[0] == "value":
                x = out[1] if label != "run_default_calibration" else out[1].levy_model.parameters.sigma
                if abs(float(x) - 0.2) > 1e-9:
                    viol(f"{label} on a Black-Scholes model does not recover the Black-Scholes volatility", kind="bs_calibration", entry=label, got=float(x))
            else:
                viol(f"{label} does not support the Black-Scholes model type: raises {str(out[1]).split(':')[0]}", finding="F-C20-3",
                     kind="bs_calibration", entry=label, exception=str(out[1]))
    return stats


VG_NU_WITNESS = dict(sigma=0.1, nu=-1.0, theta=0.1)


def _vg_nu_domain(args):
    """FINDING F-C20-4 on the implementation: is nu < 0 (outside the Variance Gamma model's domain nu > 0) accepted by the constructor and by
    an assignment + initialisation()?  Returns the observation (no Coq model involved)."""
    import numpy as np
    from rpylib.numerical.cosmethod import COSPricer
    info = _classes()["vg"]
    obs = dict(constructor_accepts=False, assignment_accepts=False)
    with warnings.catch_warnings():
        warnings.simplefilter("ignore")
        try:
            obj = info["cls"](**args)
            obs["constructor_accepts"] = True
            obs["derived"] = {k: repr(float(obj.__dict__[k])) for k in info["der"]}
            try:
                m = info["model"](spot=100.0, r=0.02, d=0.0, parameters=obj)
                obs["cos_call_atm_1y"] = repr(float(np.squeeze(COSPricer(m).call(np.array([100.0]), 1.0))))
            except Exception as e:  # noqa
                obs["cos_call_atm_1y"] = f"{type(e).__name__}: {e}"[:80]
        except ValueError:
            pass
        p = info["cls"](sigma=args["sigma"], nu=0.06, theta=args["theta"])
        try:
            p.nu = args["nu"]
            p.initialisation()
            obs["assignment_accepts"] = True
        except ValueError:
            pass
    return obs


def _domain_monitor(res, viol):
    res.count(("vg nu domain", tuple(VG_NU_WITNESS.values())), kind="VGParameters: nu outside the model's domain")
    obs = _vg_nu_domain(VG_NU_WITNESS)
    res.bump("vg_nu_domain", f"nu = {VG_NU_WITNESS['nu']}: constructor {'accepts' if obs['constructor_accepts'] else 'refuses'}, "
                             f"assignment {'accepts' if obs['assignment_accepts'] else 'refuses'}")
    if obs["constructor_accepts"] or obs["assignment_accepts"]:
        viol("VGParameters accepts nu < 0 (the Variance Gamma model needs nu > 0; no constraint is declared for nu): no exception, cached "
             f"derived parameters {obs.get('derived')}, COS at-the-money call {obs.get('cos_call_atm_1y')}",
             finding="F-C20-4", kind="vg_nu_domain", cls="vg", args=dict(VG_NU_WITNESS), assign=["nu", VG_NU_WITNESS["nu"]], **obs)


def _run(res, scale):
    rng = random.Random(res.seed)

    def viol(what, **kw):
        res.violation(what, dict(kw))

    quick = res.tier == "quick"
    try:
        coq_cases, ctor_cases = _history_cases(res, rng, int((120 if quick else 1200) * scale), viol)
    except UnmodelledAttribute as e:
        res.broke("correspondence fields", str(e))
        coq_cases, ctor_cases = None, None
    _domain_monitor(res, viol)
    stats = _calibration_monitors(res, rng, int((48 if quick else 600) * scale), int((35 if quick else 420) * scale), viol)
    # the monitors must not be vacuous: most bracketed cases exist and every one of them must have been calibrated (judge() flags
    # the others individually); an implementation whose root finder always raises cannot pass
    need = int((40 if quick else 500) * scale)
    if stats["sign change"] < need or stats["calibrated"] < need:
        res.broke("calibration monitors", f"only {stats['calibrated']} calibrated cases out of {stats['sign change']} with an independently "
                                          f"verified sign change (need >= {need}): the monitors would be vacuous")
    return coq_cases, ctor_cases, stats["coq"]


def correspond(res):
    coq_cases, ctor_cases, calib = _run(res, 1)
    if coq_cases is not None:
        _coq_side(res, coq_cases, ctor_cases)
    _coq_side_calib(res, calib)


def search(res):
    """a proof obligation or the correspondence broke and the first pass found no failing input: more histories, longer"""
    res.seed += 1
    _run(res, 3)


def matches_known(v, known):
    r = v["replay"]
    if known["id"] == "F-C20-3":
        exc = str(r.get("exception", ""))
        return (r.get("kind") == "bs_calibration"
                and ((r.get("entry") == "run_default_calibration" and exc.startswith("KeyError"))
                     or (r.get("entry") == "calibrate_model_parameter_to_atm_call" and exc.startswith("AttributeError") and "parameters" in exc)))
    if known["id"] == "F-C20-4":
        return (r.get("kind") == "vg_nu_domain" and r.get("cls") == "vg" and float(r.get("args", {}).get("nu", 1.0)) < 0
                and bool(r.get("constructor_accepts") or r.get("assignment_accepts")))
    return False


def replay(path):
    import numpy as np
    data = json.load(open(path))
    print(json.dumps(data, indent=1)[:3000])
    k = data.get("kind")
    info_all = _classes()
    with warnings.catch_warnings():
        warnings.simplefilter("ignore")
        if k in ("history", "set", "ctor") and data.get("cls") in info_all:
            info = info_all[data["cls"]]
            try:
                obj = info["cls"](**data["args"])
            except Exception as e:  # noqa
                print("constructor raises", type(e).__name__, e)
                return 0 if k == "ctor" and type(e).__name__ == data.get("expect", "ValueError") else 1
            if k == "ctor":
                print("constructor accepted", data["args"])
                return 1
            flags = []
            for f, v in data.get("ops", []):
                try:
                    setattr(obj, f, v)
                    flags.append(True)
                except ValueError:
                    flags.append(False)
            print("accepted flags:", flags)
            if k == "set":
                f, v = data["ops"][-1]
                want = info["pred"].get(f, lambda x: True)(v)
                print("last assignment accepted:", flags[-1], "documented constraint holds:", want)
                return 0 if flags[-1] == want else 1
            prim = [obj.__dict__[p] for p in info["prim"]]
            try:
                obj.initialisation()
                a = _fields_of(obj, info)
            except Exception as e:  # noqa
                a = type(e).__name__
            try:
                b = _fields_of(info["cls"](**dict(zip(info["prim"], prim))), info)
            except Exception as e:  # noqa
                b = type(e).__name__
            print("history + initialisation():", a)
            print("direct construction       :", b)
            same = (a == b) if isinstance(a, str) or isinstance(b, str) else all(_same(x, y) for x, y in zip(a, b))
            return 0 if same else 1
        if k == "vg_nu_domain":
            obs = _vg_nu_domain(data["args"])
            print("VGParameters", data["args"], "->", obs)
            return 1 if (obs["constructor_accepts"] or obs["assignment_accepts"]) else 0
        if k == "bs_calibration":
            from rpylib.model import utils as U_
            from rpylib.model.levymodel.levymodel import ModelType
            bsm = U_.create_exponential_of_levy_model(ModelType.BLACKSCHOLES)(spot=100.0, r=0.02, d=0.0, sigma=0.1)
            try:
                out = U_.run_default_calibration(bsm, 1.0, 0.2) if data["entry"] == "run_default_calibration" else \
                    U_.calibrate_model_parameter_to_atm_call(bsm, "sigma", (1e-5, 1.0), 1.0, 0.2)
                print("returns", out)
                return 0
            except Exception as e:  # noqa
                print(f"raises {type(e).__name__}: {e}")
                return 1
        if k in ("default_calibration", "calibrate_model_parameter"):
            from rpylib.model import utils as U_
            from rpylib.model.levymodel.levymodel import ModelType
            from rpylib.numerical.cosmethod import COSPricer
            from rpylib.product.payoff import Vanilla, PayoffType
            from rpylib.product.product import Product
            from rpylib.product.underlying import Spot
            mt = ModelType[data["model"]]
            model = U_.helper_model(mt)(**data["params"])
            T = data["maturity"]
            try:
                if k == "default_calibration":
                    cm = U_.run_default_calibration(model, T, data["bs_sigma"])
                    x = getattr(cm.levy_model.parameters, U_.default_calibration[mt].parameter)
                    got = float(np.squeeze(COSPricer(cm).call(np.array([cm.spot]), T)))
                    print("calibrated value", x, "COS price", got, "target", data.get("target"), "| ends:", data.get("ends"))
                    if data.get("ends") == "no sign change":
                        return 1
                    if data.get("target") is not None and abs(got - data["target"]) > data.get("tol", CAL_TOL):
                        return 1
                    a, b = U_.default_calibration[mt].parameter_interval
                    return 0 if a <= x <= b else 1
                product = Product(payoff_underlying=Spot(), payoff=Vanilla(strike=data["strike"], payoff_type=PayoffType[data["payoff"]]), maturity=T)
                x = U_.calibrate_model_parameter(model, data["parameter"], tuple(data["interval"]), product, data["market_price"])
                params = copy.deepcopy(model.levy_model.parameters)
                setattr(params, data["parameter"], x)
                params.initialisation()
                got = float(np.squeeze(COSPricer(type(model)(spot=model.spot, r=model.r, d=model.d, parameters=params)).price(product)))
                print("calibrated value", x, "COS price", got, "market", data["market_price"], "| ends:", data.get("ends"))
                if data.get("ends") in ("no sign change", "refused end"):
                    return 1
                return 0 if abs(got - data["market_price"]) <= data.get("tol", CAL_TOL) and data["interval"][0] <= x <= data["interval"][1] else 1
            except ValueError as e:
                print("raises ValueError:", e, "| objective at the ends of the interval (computed independently):", data.get("objective_at_ends"), data.get("ends"))
                return 0 if "cannot be calibrated" in str(e) and data.get("ends") != "sign change" else 1
            except Exception as e:  # noqa
                print(f"raises {type(e).__name__}: {e}")
                return 1
    print("replay: re-run ./check C20 to re-evaluate this class of input")
    return 1


LEVEL_TEXT = ("Proof (partial for the calibration clause): Coq theorems, closed under the global context, state for HEMParameters, "
              "MertonParameters, VGParameters, CGMYParameters and BlackScholesParameters that (1) the derived fields computed by "
              "initialisation() are the same functions of the primary fields as those computed by __init__ (both translated from /repo by "
              "py2coq on every run; a class storing any other attribute is refused), (2) for EVERY list of assignments (accepted, rejected, "
              "or overwriting a cached field) on a constructed object, initialisation() has exactly the outcome of constructing from the "
              "final values -- the same object, or ZeroDivisionError on both paths (HEM eta1=1, VG nu=0 or sigma=0), (3) an assignment "
              "violating the field's predicate is rejected and leaves the object unchanged, with the predicate of every field of every "
              "class spelled out, (4) partial: in a heap model of calibrate_model_parameter / run_default_calibration, for every list of trial "
              "values, the input object is untouched (the variant without deepcopy is shown to modify it), a refused value raises, the "
              "returned parameters are a new object equal to direct construction; IF brentq keeps its bracket promise and the price is "
              "L-Lipschitz THEN the value is in [a,b] and the model reprices within L*delta; (5) the bodies of calibrate_model_parameter, its "
              "inner objective and run_default_calibration, translated statement by statement from /repo on every run -- including the raise "
              "of the exponential model's constructor (a test of the parameters: any test in the generic theorems; for HEM and CGMY also instantiated "
              "with the class guards generated from ExponentialOfHEMModel / ExponentialOfCGMYModel.__init__, conjoined with an arbitrary generic "
              "guard -- then a HEM object with eta1 <= 1 / a CGMY object with m < 1 or (m = 1, y <= 0) makes the default calibration raise "
              "whatever the prices, and an interval for eta1 starting at a <= 1 always raises) and brentq's ValueError when the objective has the "
              "same strict sign at both ends --, are proved equal to a guarded heap model that refines the one of (4); on the generated "
              "default_calibration table the default calibration of a constructed HEM / Merton / VG / CGMY object returns (new object = "
              "constructor on the final values, input untouched) IF none of the modelled raises occurs -- all evaluated values inside the "
              "table's interval, the model constructor accepts each of them, the end values are not of the same strict sign -- and raises "
              "when the end values have the same strict sign, when the model constructor refuses an end or the returned value, or when an "
              "end / the returned value is below the field's domain. This does NOT say that the default calibration succeeds on the "
              "library's models: run_default_calibration(default HEM model, default bs_sigma = 0.10) raises ValueError on /repo, and is a "
              "case of the correspondence. ValueError and ZeroDivisionError are one outcome of the program ('raises'); the latter leaves "
              "the helpers un-wrapped on /repo. Known finding F-C20-4 (_refuted theorem + oracle): VGParameters accepts nu < 0. Existence of a root, brentq's iteration, the Lipschitz "
              "constant and the COS price are NOT proved: the calibration functions are monitored on the implementation over a documented box "
              "with independently computed end-point signs (must return / must raise). Model and implementation are compared by vm_compute on "
              "~600 random assignment histories per run (full __dict__), and the generated calibration program is run on the trial values "
              "and objective values spied from the real brentq in ~130 calibration calls per run, raising calls included (returns/raises alike, input "
              "and returned objects equal).")
LEVEL_NOTE = ("Trusted: Coq kernel + vm_compute; py2coq (fail-closed; its output is also run against the implementation); floats modelled "
              "as rationals (rounding covered by the correspondence tolerance: 0 on dyadic cases, <= 8 ulp of the formula's terms otherwise); "
              "np.sqrt/Gamma/np.power opaque; heap operations (deepcopy = append a copy, model object = address of its parameters), brentq's "
              "call order / sign test / bracket specification, the generic guard of ExponentialOfLevyModel.__init__ (verdicts fed as data; the HEM / "
              "CGMY class guards are generated) and the COS price "
              "are specified, not verified; harness/py2coq_c20.py (statement patterns of model/utils.py).")
TECHNIQUE = ("Coq proof (induction over assignment histories and trial lists on py2coq-generated guards, derived-field expressions, default table and "
             "calibration program) + vm_compute correspondence (histories; generated calibration program on spied brentq trials) + calibration monitors")

"""py2coq: fail-closed translator from a straight-line subset of Python (ast) to Gallina.

The model of the functions listed in SPECS is *regenerated from /repo's working tree on every
run*; theorems in coq/Proofs are stated about the generated definitions (module RV.Gen.*).
Anything outside the supported subset raises Unsupported -> the check reports the obligation
as broken (never silently skipped).

Supported
  statements : docstring, Assign (name / tuple target), AugAssign on a local, If/elif/else,
               Return, `pass`-free bodies; an If whose branches do not all return is joined
               through a tuple of the variables it assigns;
               with "assign_target": "<name or self.attr>" the value assigned to that target inside the
               function (e.g. `self._process_drift = ...` in an __init__) is the translated result: earlier local
               assignments become lets, attribute stores and `super().__init__(...)` are skipped (so is a local
               bound to an untranslatable value, e.g. an object construction); reading a skipped attribute or
               local later in the same body is refused; a guard `if cond: raise ...` before the assignment yields "on_raise".
  expressions: int / float literals (floats exact via Fraction(repr)), names, + - * / // % **
               (literal natural exponent), unary -, not, and/or, comparisons (also chained; `x in [..]` /
               `x not in [..]` against a literal list or tuple),
               conditional expressions, tuples, subscripts of tuple-typed *parameters* by a literal,
               max/min/abs/pow/divmod/int/float/floor(a/b), isqrt, calls to other translated functions
               and to declared opaque functions, attribute reads declared in `attrs`.
  extensions : `bexprs` {python source of a boolean expression: Coq bool term} (e.g. an enum test
               `self.payoff_type == PayoffType.CALL` bound to a bool parameter);
               `vectors` {name or attribute text: [component terms]} = fixed-length numpy vectors: an
               assignment `v = <elementwise expr>` whose right-hand side mentions a declared vector
               defines a new vector componentwise (only + - * /, unary -, constants, scalars and the
               elementwise calls np.maximum/np.minimum/np.abs are accepted there); `v[i]` with a
               literal index reads a component; any other use of a vector is refused.
               `int_names` [local/parameter names of Python int type] + `arrays` {name or attribute text: Coq list}
               (dom Q only): `arr[i]` with an integer index expression (int literals, int names, + - *)
               becomes `(qnth arr i)`, comparisons between integer expressions use Z.eqb/Z.ltb/Z.leb, and
               `np.prod([e for k in range(n)])` becomes `(qprod_range (fun k : Z => e) n)` (Base/QArr.v).
  C18/C20 ext : all opt-in per function and fail-closed --
               `attr_tail` "self.x": straight-line method of `self.y = e` / local assignments; every attribute
               assignment becomes a let (later reads of self.y see it) and the definition's value is what the method
               leaves in self.x (used to translate __init__ and initialisation() of the Parameters classes);
               `nested_defs`: inner `def f(x): ...` becomes `let f := fun x => ...` (refused if a captured name is
               re-assigned later); `elementwise` {"arrays", "uninit"}: numpy code read pointwise --
               np.ones(len(arr), dtype=bool) = true, `arr[mask] = v` = if mask then v else arr,
               np.divide(x, y, where=m) = if m then x/y else <uninit>; `subst` {python source text: Coq term};
               `join_live_only`: an if/else without return joins only the variables read afterwards;
               `kind` in {lambda_kw, class_guards, assign_rhs, return_rhs}: see harness/py2coq_fourier.py.
  domains    : "Z" (Python int), "Q" (exact rationals standing for floats), "R" (reals).
  source guards (wave 8, see find_function): the def that is read must be the def Python runs -- a name bound twice in its
               scope, an undeclared decorator ("decorators", "class_decorators"), a singledispatch(method) whose variant the spec
               does not name ("dispatch": {"variant", "registered"}), a parameter default the spec does not declare ("defaults"),
               *args / **kwargs are refused; what was read is recorded in the header comment of the generated module.
               generate_all: any exception (e.g. a plug-in that cannot be imported) is the failure of that module only.
"""
from __future__ import annotations

import ast
from fractions import Fraction
from pathlib import Path


class Unsupported(Exception):
    pass


DOM = {
    "Z": dict(add="Z.add", sub="Z.sub", mul="Z.mul", neg="Z.opp", lt="Z.ltb", le="Z.leb", eq="Z.eqb",
              max="Z.max", min="Z.min", abs="Z.abs", ty="Z"),
    "Q": dict(add="Qplus", sub="Qminus", mul="Qmult", div="Qdiv", neg="Qopp", lt="Qltb", le="Qle_bool", eq="Qeq_bool",
              max="Qmaxb", min="Qminb", abs="Qabs", ty="Q"),
    "R": dict(add="Rplus", sub="Rminus", mul="Rmult", div="Rdiv", neg="Ropp", lt="Rltb", le="Rleb", eq="Reqb",
              max="Rmax", min="Rmin", abs="Rabs", ty="R"),
}


class Ctx:
    def __init__(self, spec, fn):
        self.dom = fn.get("dom", spec.get("dom", "Z"))
        self.d = DOM[self.dom]
        self.attrs = fn.get("attrs", {})          # "self.left" -> coq name
        self.calls = dict(spec.get("calls", {}))  # python callee text -> coq function name
        self.calls.update(fn.get("calls", {}))
        self.consts = dict(spec.get("consts", {}))
        self.consts.update(fn.get("consts", {}))
        self.tuple_params = fn.get("tuple_params", {})  # name -> [component coq names]
        self.int_names = set(fn.get("int_names", []))
        self.rename = fn.get("rename", {})
        self.stored_attrs = set()                 # attributes stored earlier in an "assign_target" body
        self.on_raise_value = fn.get("on_raise")  # assign_target mode: value of a leading `if cond: raise` guard
        # --- opt-in extensions (C18/C20), all fail-closed -------------------------------------
        self.attrs = dict(self.attrs)
        self.attr_assign = bool(fn.get("attr_tail"))     # `self.x = e` becomes `let self_x := e`
        self.subst = fn.get("subst", {})                 # python source text of a sub-expression -> Coq term
        self.elementwise = fn.get("elementwise")         # {"arrays": [...], "uninit": coq name}: numpy code read pointwise
        self.nested_defs = bool(fn.get("nested_defs"))   # inner `def f(x): ...` becomes `let f := fun x => ...`
        self.join_live_only = bool(fn.get("join_live_only"))
        self.bexprs = dict(spec.get("bexprs", {}))  # python source of a boolean expression -> coq bool term
        self.bexprs.update(fn.get("bexprs", {}))
        self.vectors = {k: list(v) for k, v in fn.get("vectors", {}).items()}  # name/attr text -> component terms
        self.vec_index = None                      # component being translated (elementwise mode)
        self.arrays = dict(fn.get("arrays", {}))   # name/attr text -> coq term of type list Q (integer subscripts)
        self.ext = None                            # plug-in (spec["ext"] = module with class Ext): sees every node first, None = not handled


def lit(ctx: Ctx, v) -> str:
    if isinstance(v, bool):
        return "true" if v else "false"
    if isinstance(v, int):
        if ctx.dom == "Z":
            return f"({v})" if v < 0 else f"{v}"
        if ctx.dom == "Q":
            return f"(({v}) # 1)"
        return f"(IZR ({v}))"
    if isinstance(v, float):
        if v in (float("inf"), float("-inf")) or v != v:
            raise Unsupported("non-finite float literal")
        fr = Fraction(repr(v))
        if ctx.dom == "Q":
            return f"(({fr.numerator}) # {fr.denominator})"
        if ctx.dom == "R":
            return f"(IZR ({fr.numerator}) / IZR ({fr.denominator}))"
        raise Unsupported("float literal in Z domain")
    raise Unsupported(f"literal {v!r}")


def src(node) -> str:
    return ast.unparse(node)


def expr(ctx: Ctx, e) -> str:
    d = ctx.d
    if ctx.ext is not None:
        r = ctx.ext.expr(ctx, e)
        if r is not None:
            return r
    if ctx.subst and src(e) in ctx.subst:
        return ctx.subst[src(e)]
    if isinstance(e, ast.Constant):
        return lit(ctx, e.value)
    if isinstance(e, (ast.Name, ast.Attribute)) and src(e) in ctx.vectors:
        if ctx.vec_index is None:
            raise Unsupported(f"vector {src(e)} used where a scalar is expected")
        return ctx.vectors[src(e)][ctx.vec_index]
    if isinstance(e, ast.Name):
        if e.id in ctx.stored_attrs:
            raise Unsupported(f"name {e.id} was bound to an untranslatable value")
        if e.id in ctx.consts:
            return ctx.consts[e.id]
        return ctx.rename.get(e.id, e.id)
    if isinstance(e, ast.Attribute):
        s = src(e)
        if s in ctx.stored_attrs:
            raise Unsupported(f"attribute {s} is stored earlier in the same body")
        if s in ctx.attrs:
            return ctx.attrs[s]
        if s in ctx.consts:
            return ctx.consts[s]
        raise Unsupported(f"attribute {s}")
    if isinstance(e, ast.UnaryOp):
        if isinstance(e.op, ast.USub):
            if isinstance(e.operand, ast.Constant) and isinstance(e.operand.value, (int, float)):
                return lit(ctx, -e.operand.value)
            return f"({d['neg']} {expr(ctx, e.operand)})"
        if isinstance(e.op, ast.UAdd):
            return expr(ctx, e.operand)
        if isinstance(e.op, ast.Not):
            return f"(negb {bexpr(ctx, e.operand)})"
        raise Unsupported(f"unary {src(e)}")
    if isinstance(e, ast.BinOp):
        a, b = e.left, e.right
        if isinstance(e.op, ast.Add):
            return f"({d['add']} {expr(ctx, a)} {expr(ctx, b)})"
        if isinstance(e.op, ast.Sub):
            return f"({d['sub']} {expr(ctx, a)} {expr(ctx, b)})"
        if isinstance(e.op, ast.Mult):
            return f"({d['mul']} {expr(ctx, a)} {expr(ctx, b)})"
        if isinstance(e.op, ast.Div):
            if ctx.dom == "Z":
                raise Unsupported(f"true division in Z domain: {src(e)}")
            return f"({d['div']} {expr(ctx, a)} {expr(ctx, b)})"
        if isinstance(e.op, ast.FloorDiv):
            if ctx.dom != "Z":
                raise Unsupported(f"floor division outside Z: {src(e)}")
            return f"(Z.div {expr(ctx, a)} {expr(ctx, b)})"
        if isinstance(e.op, ast.Mod):
            if ctx.dom != "Z":
                raise Unsupported(f"modulo outside Z: {src(e)}")
            return f"(Z.modulo {expr(ctx, a)} {expr(ctx, b)})"
        if isinstance(e.op, ast.Pow):
            return power(ctx, a, b)
        raise Unsupported(f"binop {src(e)}")
    if isinstance(e, ast.IfExp):
        return f"(if {bexpr(ctx, e.test)} then {expr(ctx, e.body)} else {expr(ctx, e.orelse)})"
    if isinstance(e, ast.Tuple):
        return "(" + ", ".join(expr(ctx, x) for x in e.elts) + ")"
    if isinstance(e, ast.Subscript) and isinstance(e.value, (ast.Name, ast.Attribute)) and src(e.value) in ctx.arrays:
        if ctx.dom != "Q":
            raise Unsupported("array subscripts are only supported in the Q domain")
        return f"(qnth {ctx.arrays[src(e.value)]} {zexpr(ctx, e.slice)})"
    if isinstance(e, ast.Subscript):
        if isinstance(e.value, (ast.Name, ast.Attribute)) and src(e.value) in ctx.vectors:
            comps = ctx.vectors[src(e.value)]
            k = e.slice.value if isinstance(e.slice, ast.Constant) else None
            if isinstance(e.slice, ast.UnaryOp) and isinstance(e.slice.op, ast.USub) and isinstance(e.slice.operand, ast.Constant):
                k = -e.slice.operand.value
            if not isinstance(k, int) or isinstance(k, bool) or not -len(comps) <= k < len(comps):
                raise Unsupported(f"vector subscript {src(e)}")
            return comps[k]
        if isinstance(e.value, ast.Name) and e.value.id in ctx.tuple_params and isinstance(e.slice, ast.Constant):
            comps = ctx.tuple_params[e.value.id]
            return comps[e.slice.value]
        raise Unsupported(f"subscript {src(e)}")
    if isinstance(e, ast.Call):
        return call(ctx, e)
    if isinstance(e, (ast.Compare, ast.BoolOp)):
        return bexpr(ctx, e)
    raise Unsupported(f"expression {type(e).__name__}: {src(e)}")


def is_int_expr(ctx: Ctx, e) -> bool:
    """integer-typed expression made of int literals, declared int names and + - * (at least one int name)"""
    def ok(x):
        if isinstance(x, ast.Constant):
            return isinstance(x.value, int) and not isinstance(x.value, bool)
        if isinstance(x, ast.Name):
            return x.id in ctx.int_names
        if isinstance(x, ast.BinOp) and isinstance(x.op, (ast.Add, ast.Sub, ast.Mult)):
            return ok(x.left) and ok(x.right)
        if isinstance(x, ast.UnaryOp) and isinstance(x.op, ast.USub):
            return ok(x.operand)
        return False
    return ok(e) and any(isinstance(n, ast.Name) and n.id in ctx.int_names for n in ast.walk(e))


def zexpr(ctx: Ctx, e) -> str:
    """integer (index) expression -> Z term, independent of the function's numeric domain"""
    if isinstance(e, ast.Constant) and isinstance(e.value, int) and not isinstance(e.value, bool):
        return f"({e.value})%Z"
    if isinstance(e, ast.Name) and e.id in ctx.int_names:
        return ctx.rename.get(e.id, e.id)
    if isinstance(e, ast.UnaryOp) and isinstance(e.op, ast.USub):
        return f"(Z.opp {zexpr(ctx, e.operand)})"
    if isinstance(e, ast.BinOp) and isinstance(e.op, (ast.Add, ast.Sub, ast.Mult)):
        op = {ast.Add: "Z.add", ast.Sub: "Z.sub", ast.Mult: "Z.mul"}[type(e.op)]
        return f"({op} {zexpr(ctx, e.left)} {zexpr(ctx, e.right)})"
    raise Unsupported(f"integer expression {src(e)}")


def prod_comprehension(ctx: Ctx, lc) -> str:
    """np.prod([elt for k in range(n)]) -> (qprod_range (fun k : Z => elt) n)"""
    if ctx.dom != "Q" or not isinstance(lc, ast.ListComp) or len(lc.generators) != 1:
        raise Unsupported(f"np.prod of {src(lc)}")
    g = lc.generators[0]
    it = g.iter
    if g.ifs or g.is_async or not isinstance(g.target, ast.Name) or not (
            isinstance(it, ast.Call) and src(it.func) == "range" and len(it.args) == 1 and not it.keywords):
        raise Unsupported(f"comprehension {src(lc)}")
    k = g.target.id
    if k in ctx.int_names or k in ctx.vectors or k in ctx.arrays:
        raise Unsupported(f"loop variable {k} shadows a declared name")
    bound = zexpr(ctx, it.args[0])
    ctx.int_names.add(k)
    try:
        body = expr(ctx, lc.elt)
    finally:
        ctx.int_names.discard(k)
    return f"(qprod_range (fun {k} : Z => {body}) {bound})"


def power(ctx: Ctx, a, b) -> str:
    if isinstance(b, ast.Constant) and isinstance(b.value, int) and b.value >= 0:
        if ctx.dom == "Z":
            return f"(Z.pow {expr(ctx, a)} {b.value})"
        if ctx.dom == "Q":
            return f"(Qpower {expr(ctx, a)} {b.value})"
        return f"(pow {expr(ctx, a)} {b.value})"
    if ctx.dom == "Z":
        # integer ** integer-valued expression, non-negative by the function's contract
        return f"(Z.pow {expr(ctx, a)} {expr(ctx, b)})"
    if ctx.dom == "R":
        return f"(Rpower {expr(ctx, a)} {expr(ctx, b)})"
    raise Unsupported(f"power {src(a)} ** {src(b)}")


def call(ctx: Ctx, e: ast.Call) -> str:
    d = ctx.d
    f = src(e.func)
    args = e.args
    if ctx.elementwise:
        arrays = ctx.elementwise.get("arrays", [])
        kw = {k.arg: k.value for k in e.keywords}
        # np.ones(len(arr), dtype=bool): the all-true mask, read pointwise
        if f == "np.ones" and len(args) == 1 and set(kw) == {"dtype"} and src(kw["dtype"]) == "bool" \
                and isinstance(args[0], ast.Call) and src(args[0].func) == "len" and len(args[0].args) == 1 \
                and src(args[0].args[0]) in arrays:
            return "true"
        # np.divide(x, y, where=mask) without `out`: quotient where the mask holds, uninitialised memory elsewhere
        if f == "np.divide" and len(args) == 2 and set(kw) == {"where"}:
            return f"(if {bexpr(ctx, kw['where'])} then ({d['div']} {expr(ctx, args[0])} {expr(ctx, args[1])}) else {ctx.elementwise['uninit']})"
    if e.keywords:
        raise Unsupported(f"keyword arguments in {src(e)}")
    if f == "np.prod" and len(args) == 1 and isinstance(args[0], ast.ListComp):
        return prod_comprehension(ctx, args[0])
    if f in ctx.calls:
        return "(" + " ".join([ctx.calls[f]] + [expr(ctx, a) for a in args]) + ")"
    if f in ("max", "min") and len(args) >= 2:
        t = expr(ctx, args[0])
        for a in args[1:]:
            t = f"({d[f]} {t} {expr(ctx, a)})"
        return t
    if f in ("abs", "np.abs", "np.fabs") and len(args) == 1:
        return f"({d['abs']} {expr(ctx, args[0])})"
    if f == "pow" and len(args) == 2:
        return power(ctx, args[0], args[1])
    if f in ("int", "float") and len(args) == 1:
        if f == "int" and ctx.dom != "Z":
            raise Unsupported("int() outside Z")
        return expr(ctx, args[0])
    if f in ("isqrt", "math.isqrt") and len(args) == 1 and ctx.dom == "Z":
        return f"(Z.sqrt {expr(ctx, args[0])})"
    if f in ("floor", "math.floor") and len(args) == 1 and ctx.dom == "Z":
        a = args[0]
        if isinstance(a, ast.BinOp) and isinstance(a.op, ast.Div):
            return f"(Z.div {expr(ctx, a.left)} {expr(ctx, a.right)})"
        raise Unsupported(f"floor of {src(a)}")
    if ctx.dom == "R":
        rfun = {"np.exp": "exp", "exp": "exp", "math.exp": "exp", "np.sqrt": "sqrt", "sqrt": "sqrt", "math.sqrt": "sqrt",
                "np.log": "ln", "log": "ln", "math.log": "ln", "np.cos": "cos", "np.sin": "sin", "cos": "cos", "sin": "sin"}
        if f in rfun and len(args) == 1:
            return f"({rfun[f]} {expr(ctx, args[0])})"
    raise Unsupported(f"call {src(e)}")


def bexpr(ctx: Ctx, e) -> str:
    d = ctx.d
    if ctx.ext is not None:
        r = ctx.ext.bexpr(ctx, e)
        if r is not None:
            return r
    if src(e) in ctx.bexprs:
        return ctx.bexprs[src(e)]
    if isinstance(e, ast.Compare):
        parts = []
        left = e.left
        for op, right in zip(e.ops, e.comparators):
            if is_int_expr(ctx, left) or is_int_expr(ctx, right):
                za, zb = zexpr(ctx, left), zexpr(ctx, right)   # both sides must be integer expressions
                zop = {ast.Lt: f"(Z.ltb {za} {zb})", ast.LtE: f"(Z.leb {za} {zb})", ast.Gt: f"(Z.ltb {zb} {za})",
                       ast.GtE: f"(Z.leb {zb} {za})", ast.Eq: f"(Z.eqb {za} {zb})", ast.NotEq: f"(negb (Z.eqb {za} {zb}))"}.get(type(op))
                if zop is None:
                    raise Unsupported(f"comparison {src(e)}")
                parts.append(zop)
                left = right
                continue
            a = expr(ctx, left)
            b = None if isinstance(op, (ast.In, ast.NotIn)) else expr(ctx, right)
            if isinstance(op, ast.Lt):
                parts.append(f"({d['lt']} {a} {b})")
            elif isinstance(op, ast.LtE):
                parts.append(f"({d['le']} {a} {b})")
            elif isinstance(op, ast.Gt):
                parts.append(f"({d['lt']} {b} {a})")
            elif isinstance(op, ast.GtE):
                parts.append(f"({d['le']} {b} {a})")
            elif isinstance(op, ast.Eq):
                parts.append(f"({d['eq']} {a} {b})")
            elif isinstance(op, ast.NotEq):
                parts.append(f"(negb ({d['eq']} {a} {b}))")
            elif isinstance(op, (ast.In, ast.NotIn)) and isinstance(right, (ast.List, ast.Tuple)) and right.elts:
                alts = [f"({d['eq']} {a} {expr(ctx, x)})" for x in right.elts]
                t = alts[0]
                for alt in alts[1:]:
                    t = f"(orb {t} {alt})"
                parts.append(t if isinstance(op, ast.In) else f"(negb {t})")
            else:
                raise Unsupported(f"comparison {src(e)}")
            left = right
        t = parts[0]
        for p in parts[1:]:
            t = f"(andb {t} {p})"
        return t
    if isinstance(e, ast.BoolOp):
        op = "andb" if isinstance(e.op, ast.And) else "orb"
        t = bexpr(ctx, e.values[0])
        for v in e.values[1:]:
            t = f"({op} {t} {bexpr(ctx, v)})"
        return t
    if isinstance(e, ast.UnaryOp) and isinstance(e.op, ast.Not):
        return f"(negb {bexpr(ctx, e.operand)})"
    if isinstance(e, ast.Constant) and isinstance(e.value, bool):
        return "true" if e.value else "false"
    if isinstance(e, ast.Name) or isinstance(e, ast.Attribute) or isinstance(e, ast.Call):
        return expr(ctx, e)  # boolean-typed name / call
    raise Unsupported(f"boolean expression {src(e)}")


ELEMENTWISE_CALLS = {"np.maximum", "np.minimum", "np.abs", "np.fabs"}


def mentioned_vectors(ctx: Ctx, e) -> list[str]:
    return [src(n) for n in ast.walk(e) if isinstance(n, (ast.Name, ast.Attribute)) and src(n) in ctx.vectors]


def check_elementwise(ctx: Ctx, e):
    """accept only expressions that numpy evaluates componentwise on a 1-d vector"""
    if isinstance(e, (ast.Constant, ast.Name, ast.Attribute)):
        return
    if isinstance(e, ast.BinOp) and isinstance(e.op, (ast.Add, ast.Sub, ast.Mult, ast.Div)):
        check_elementwise(ctx, e.left)
        check_elementwise(ctx, e.right)
        return
    if isinstance(e, ast.UnaryOp) and isinstance(e.op, (ast.USub, ast.UAdd)):
        check_elementwise(ctx, e.operand)
        return
    if isinstance(e, ast.Call) and src(e.func) in ELEMENTWISE_CALLS and not e.keywords:
        for a in e.args:
            check_elementwise(ctx, a)
        return
    raise Unsupported(f"not an elementwise expression over a declared vector: {src(e)}")


def vector_assign(ctx: Ctx, name: str, value, rest_term) -> str:
    """`name = <elementwise expr over declared vectors>`: one let per component; rest_term() is
    called after `name` has been declared as a vector."""
    lens = {len(ctx.vectors[v]) for v in mentioned_vectors(ctx, value)}
    if len(lens) != 1:
        raise Unsupported(f"vectors of different lengths in {src(value)}")
    n = lens.pop()
    check_elementwise(ctx, value)
    comps, lets = [], []
    for i in range(n):
        ctx.vec_index = i
        try:
            term = expr(ctx, value)
        finally:
            ctx.vec_index = None
        comps.append(f"{ctx.rename.get(name, name)}_{i}")
        lets.append(f"let {comps[-1]} := {term} in\n  ")
    ctx.vectors[name] = comps
    return "".join(lets) + rest_term()


def always_returns(stmts) -> bool:
    for s in stmts:
        if isinstance(s, ast.Return):
            return True
        if isinstance(s, ast.If) and s.orelse and always_returns(s.body) and always_returns(s.orelse):
            return True
        if isinstance(s, ast.Raise):
            return True
    return False


def assigned(stmts) -> list[str]:
    out = []
    for s in stmts:
        if isinstance(s, ast.Assign):
            for t in s.targets:
                if isinstance(t, ast.Name):
                    out.append(t.id)
                elif isinstance(t, ast.Tuple):
                    out.extend(x.id for x in t.elts)
        elif isinstance(s, ast.AugAssign) and isinstance(s.target, ast.Name):
            out.append(s.target.id)
        elif isinstance(s, ast.If):
            out.extend(assigned(s.body))
            out.extend(assigned(s.orelse))
    seen, res = set(), []
    for n in out:
        if n not in seen:
            seen.add(n)
            res.append(n)
    return res


def block(ctx: Ctx, stmts, tail: str | None, on_raise: str | None) -> str:
    """Translate statements; `tail` is the Coq term to produce if the block falls off its end."""
    if not stmts:
        if tail is None:
            raise Unsupported("function body may fall off its end")
        return tail
    s, rest = stmts[0], stmts[1:]
    if isinstance(s, ast.Expr) and isinstance(s.value, ast.Constant) and isinstance(s.value.value, str):
        return block(ctx, rest, tail, on_raise)
    if ctx.ext is not None:
        r = ctx.ext.stmt(ctx, s, rest, tail, on_raise)
        if r is not None:
            return r
    if isinstance(s, ast.Return):
        if s.value is None:
            raise Unsupported("bare return")
        return expr(ctx, s.value)
    if isinstance(s, ast.Raise):
        if on_raise is None:
            raise Unsupported("raise without declared error value")
        return on_raise
    if isinstance(s, ast.Assign):
        if len(s.targets) != 1:
            raise Unsupported("multiple assignment targets")
        t = s.targets[0]
        if isinstance(t, ast.Name) and mentioned_vectors(ctx, s.value) and not isinstance(s.value, ast.Subscript):
            return vector_assign(ctx, t.id, s.value, lambda: block(ctx, rest, tail, on_raise))
        if isinstance(t, ast.Name) and t.id in ctx.vectors:
            raise Unsupported(f"vector {t.id} re-assigned to a scalar")
        if isinstance(t, ast.Name):
            return f"let {ctx.rename.get(t.id, t.id)} := {expr(ctx, s.value)} in\n  {block(ctx, rest, tail, on_raise)}"
        if isinstance(t, ast.Tuple) and all(isinstance(x, ast.Name) for x in t.elts):
            names = ", ".join(ctx.rename.get(x.id, x.id) for x in t.elts)
            v = s.value
            if isinstance(v, ast.Call) and src(v.func) == "divmod" and len(v.args) == 2 and ctx.dom == "Z":
                a, b = expr(ctx, v.args[0]), expr(ctx, v.args[1])
                val = f"(Z.div {a} {b}, Z.modulo {a} {b})"
            else:
                val = expr(ctx, v)
            return f"let '({names}) := {val} in\n  {block(ctx, rest, tail, on_raise)}"
        if isinstance(t, ast.Attribute) and ctx.attr_assign and isinstance(t.value, ast.Name) and t.value.id == "self":
            val = expr(ctx, s.value)          # evaluated before the attribute is rebound
            name = src(t).replace(".", "_")
            ctx.attrs[src(t)] = name          # later reads of self.x see the value just stored
            return f"let {name} := {val} in\n  {block(ctx, rest, tail, on_raise)}"
        if isinstance(t, ast.Subscript) and ctx.elementwise and isinstance(t.value, ast.Name) \
                and isinstance(t.slice, ast.Compare):
            # arr[mask] = value, read pointwise: the element is replaced where the mask holds
            n = ctx.rename.get(t.value.id, t.value.id)
            v = s.value
            val = lit(ctx, v.value) if isinstance(v, ast.Constant) and isinstance(v.value, bool) else expr(ctx, v)
            return f"let {n} := (if {bexpr(ctx, t.slice)} then {val} else {n}) in\n  {block(ctx, rest, tail, on_raise)}"
        raise Unsupported(f"assignment target {src(t)}")
    if isinstance(s, ast.FunctionDef) and ctx.nested_defs:
        a = s.args
        if a.vararg or a.kwarg or a.kwonlyargs or a.defaults or a.posonlyargs or s.decorator_list:
            raise Unsupported(f"nested def {s.name}: unsupported signature")
        loaded = {n.id for n in ast.walk(s) if isinstance(n, ast.Name)}
        if loaded & set(assigned(rest)) or s.name in assigned(rest):
            raise Unsupported(f"nested def {s.name}: a captured name is re-assigned later (late binding)")
        ps = " ".join(f"({x.arg} : {ctx.d['ty']})" for x in a.args)
        body = block(ctx, s.body, None, on_raise)
        ctx.calls[s.name] = s.name
        return f"let {s.name} := (fun {ps} =>\n  {body}) in\n  {block(ctx, rest, tail, on_raise)}"
    if isinstance(s, ast.AugAssign) and isinstance(s.target, ast.Name):
        fake = ast.BinOp(left=ast.Name(id=s.target.id, ctx=ast.Load()), op=s.op, right=s.value)
        n = ctx.rename.get(s.target.id, s.target.id)
        return f"let {n} := {expr(ctx, fake)} in\n  {block(ctx, rest, tail, on_raise)}"
    if isinstance(s, ast.If):
        test = bexpr(ctx, s.test)
        body_ret = always_returns(s.body)
        else_ret = always_returns(s.orelse) if s.orelse else False
        if body_ret and (else_ret or not s.orelse):
            if s.orelse:
                if rest and not else_ret:
                    raise Unsupported("unreachable-statement analysis")
                return f"(if {test}\n   then {block(ctx, s.body, None, on_raise)}\n   else {block(ctx, s.orelse, None, on_raise)})"
            return f"(if {test}\n   then {block(ctx, s.body, None, on_raise)}\n   else {block(ctx, rest, tail, on_raise)})"
        if body_ret and s.orelse and not else_ret:
            return f"(if {test}\n   then {block(ctx, s.body, None, on_raise)}\n   else {block(ctx, list(s.orelse) + list(rest), tail, on_raise)})"
        if not body_ret and else_ret:
            return f"(if {test}\n   then {block(ctx, list(s.body) + list(rest), tail, on_raise)}\n   else {block(ctx, s.orelse, None, on_raise)})"
        # neither branch returns: join the assigned variables through a tuple
        vs = assigned([s])
        if ctx.join_live_only:   # opt-in: join only the variables that are read after the `if` (others may be unbound in a branch)
            live = {n.id for st in rest for n in ast.walk(st) if isinstance(n, ast.Name)} | (set(__import__('re').findall(r"[A-Za-z_][A-Za-z_0-9']*", tail)) if tail else set())
            vs = [v for v in vs if ctx.rename.get(v, v) in live or v in live]
        if not vs:
            raise Unsupported("if without effect")
        names = [ctx.rename.get(v, v) for v in vs]
        join = "(" + ", ".join(names) + ")" if len(names) > 1 else names[0]
        pat = "'" + join if len(names) > 1 else join
        return (f"let {pat} := (if {test}\n   then {block(ctx, s.body, join, on_raise)}\n   else {block(ctx, s.orelse, join, on_raise)}) in\n  "
                f"{block(ctx, rest, tail, on_raise)}")
    raise Unsupported(f"statement {type(s).__name__}: {src(s)[:80]}")


def assign_target_block(ctx: Ctx, stmts, target: str) -> str:
    """value assigned to `target` inside a body made of plain assignments (see module docstring)"""
    if not stmts:
        raise Unsupported(f"assignment to {target} not found")
    s, rest = stmts[0], stmts[1:]
    if isinstance(s, ast.Expr) and isinstance(s.value, ast.Constant) and isinstance(s.value.value, str):
        return assign_target_block(ctx, rest, target)
    if isinstance(s, ast.Expr) and isinstance(s.value, ast.Call) and src(s.value.func) == "super().__init__":
        return assign_target_block(ctx, rest, target)
    if (isinstance(s, ast.If) and not s.orelse and len(s.body) == 1 and isinstance(s.body[0], ast.Raise)
            and ctx.on_raise_value is not None):
        # a validation guard `if cond: raise ...` before the assignment: the declared error value
        return f"(if {bexpr(ctx, s.test)}\n   then {ctx.on_raise_value}\n   else {assign_target_block(ctx, rest, target)})"
    if isinstance(s, ast.Assign) and len(s.targets) == 1:
        t = s.targets[0]
        if src(t) == target:
            return expr(ctx, s.value)
        if isinstance(t, ast.Attribute):
            ctx.stored_attrs.add(src(t))
            return assign_target_block(ctx, rest, target)
        if isinstance(t, ast.Name):
            try:
                v = expr(ctx, s.value)
            except Unsupported:
                # a local that cannot be translated (e.g. an object construction) is skipped; reading it later is refused
                ctx.stored_attrs.add(t.id)
                return assign_target_block(ctx, rest, target)
            return f"let {ctx.rename.get(t.id, t.id)} := {v} in\n  {assign_target_block(ctx, rest, target)}"
        if isinstance(t, ast.Tuple) and all(isinstance(x, ast.Name) for x in t.elts):
            names = ", ".join(ctx.rename.get(x.id, x.id) for x in t.elts)
            return f"let '({names}) := {expr(ctx, s.value)} in\n  {assign_target_block(ctx, rest, target)}"
    raise Unsupported(f"statement before the assignment to {target}: {src(s)[:80]}")


# ---------------------------------------------------------------------------------------------------------------------------
# wave 8 (audit5b X-d, top-10 #3): what the translator reads must be what Python runs.  Every resolution of a qualified name
# (generic path, `kind` emitters, plug-ins -- they all call find_function) now refuses
#   (a) a name bound more than once in its scope (Python binds the LAST def; also `Cls.meth = ...` / setattr at module level),
#   (b) a decorator on the resolved def that is neither semantically transparent for the translated body (allow-list below)
#       nor exactly the list the spec declares ("decorators": [source texts], the key of py2coq_loops.source_guards);
#       a decorated enclosing class must be declared: "class_decorators": {class qualified name: [source texts]} (module
#       level or entry level); a decorated enclosing function is refused,
#   (c) a functools.singledispatch(method) def unless the spec names the variant it reads and pins the registered types:
#       "dispatch": {"variant": "base" | "<type text>", "registered": [type texts of every `@<meth>.register`, source order]};
#       a registration of the dispatcher anywhere else in the file (register(...) called as a function) is refused,
#   (d) parameter defaults other than the ones the spec declares ("defaults": {param: source text}, default none).
# For a def that a plug-in resolves besides fn["py"] the keys are "decorators_of" / "dispatch_of" /
# "defaults_of": {qualified name: value}.  What was found is recorded in the header comment of the generated module.
TRANSPARENT_DECORATORS = {"staticmethod", "classmethod", "property", "cache", "lru_cache", "functools.cache", "functools.lru_cache"}
DISPATCH_DECORATORS = {"singledispatchmethod", "functools.singledispatchmethod", "singledispatch", "functools.singledispatch"}
_CURRENT: list = []      # stack of (spec, fn) being translated: find_function reads the declarations of the top one
_RECORDS: list = []      # stack of lists: one per generate_module in progress, collects "what was resolved" lines for the header


def _declared(fn, key: str, qual: str, default=None):
    if fn is None:
        return default
    if key in fn and fn.get("py", qual) == qual:
        return fn[key]
    return fn.get(key + "_of", {}).get(qual, default)


def _bindings(stmts, name: str) -> list:
    """nodes that bind `name` in the scope whose body is `stmts` (defs / classes / lambdas / comprehensions are not entered)"""
    hits = []

    def visit(n):
        if isinstance(n, (ast.FunctionDef, ast.AsyncFunctionDef, ast.ClassDef)):
            if n.name == name:
                hits.append(n)
            return
        if isinstance(n, (ast.Lambda, ast.ListComp, ast.SetComp, ast.DictComp, ast.GeneratorExp)):
            return
        if isinstance(n, (ast.Import, ast.ImportFrom)) and any((a.asname or a.name.split(".")[0]) == name for a in n.names):
            hits.append(n)
        if isinstance(n, ast.Name) and n.id == name and isinstance(n.ctx, (ast.Store, ast.Del)):
            hits.append(n)
        for c in ast.iter_child_nodes(n):
            visit(c)
    for s in stmts:
        visit(s)
    return hits


def _is_transparent(dec) -> bool:
    s = src(dec.func) if isinstance(dec, ast.Call) else src(dec)
    if isinstance(dec, ast.Call) and s not in ("lru_cache", "functools.lru_cache"):
        return False
    return s in TRANSPARENT_DECORATORS


def _defaults_of(node) -> dict:
    a = node.args
    pos = list(a.posonlyargs) + list(a.args)
    out = {p.arg: src(d) for p, d in zip(pos[len(pos) - len(a.defaults):], a.defaults)}
    out.update({p.arg: src(d) for p, d in zip(a.kwonlyargs, a.kw_defaults) if d is not None})
    return out


def _dispatch_variants(tree, scope, meth: str, qual: str) -> list:
    """[(registered type text, def)] of the singledispatch(method) `meth` defined in `scope`, in source order"""
    out, seen = [], set()
    for n in scope:
        if isinstance(n, (ast.FunctionDef, ast.AsyncFunctionDef)):
            for d in n.decorator_list:
                s = src(d)
                if s == f"{meth}.register":
                    args = [x for x in list(n.args.posonlyargs) + list(n.args.args) if x.arg not in ("self", "cls")]
                    if not args or args[0].annotation is None:
                        raise Unsupported(f"{qual}: variant at line {n.lineno} registered without a type annotation")
                    out.append((src(args[0].annotation), n))
                    seen.add(id(d))
                elif isinstance(d, ast.Call) and src(d.func) == f"{meth}.register" and len(d.args) == 1 and not d.keywords:
                    out.append((src(d.args[0]), n))
                    seen.add(id(d.func))
                elif s == meth or s.startswith(f"{meth}.") or s.startswith(f"{meth}("):
                    raise Unsupported(f"{qual}: decorator {s} at line {n.lineno} uses the dispatcher in an unsupported way")
    for x in ast.walk(tree):        # every other mention of <...>meth.register / .dispatch / .registry in the file: refused
        if isinstance(x, ast.Attribute) and x.attr in ("register", "dispatch", "registry", "_clear_cache") and id(x) not in seen \
                and (src(x.value) == meth or src(x.value).endswith("." + meth)):
            raise Unsupported(f"{qual}: `{src(x)}` at line {x.lineno} is used outside a plain `@{meth}.register` decorator")
    return out


def _comment_safe(s: str) -> str:
    return s.replace("(*", "( *").replace("*)", "* )").replace("\n", " ")


def find_function(tree: ast.Module, qual: str, fn=None) -> ast.FunctionDef:
    """the def that Python binds to `qual`, checked against the declarations of the spec entry `fn` (default: the entry that is
    being translated); refuses (Unsupported) in the cases (a)-(d) above"""
    spec = None
    if fn is None and _CURRENT:
        spec, fn = _CURRENT[-1]
    parts = qual.split(".")
    scope, node, class_decs = tree.body, None, {}
    for i, p in enumerate(parts):
        hits = _bindings(scope, p)
        if not hits:
            raise Unsupported(f"{qual}: not found in source")
        if len(hits) != 1:
            raise Unsupported(f"{qual}: `{p}` is bound {len(hits)} times in its scope (lines "
                              f"{[getattr(h, 'lineno', '?') for h in hits]}); Python runs the last binding")
        node = hits[0]
        if not isinstance(node, (ast.FunctionDef, ast.ClassDef)):
            raise Unsupported(f"{qual}: `{p}` is not a def / class (line {getattr(node, 'lineno', '?')})")
        if isinstance(node, ast.ClassDef) and node.decorator_list:
            class_decs[".".join(parts[:i + 1])] = [src(d) for d in node.decorator_list]
        elif i < len(parts) - 1 and node.decorator_list:
            raise Unsupported(f"{qual}: the enclosing function {p} is decorated: {[src(d) for d in node.decorator_list]}")
        if i < len(parts) - 1:
            scope = node.body
    if not isinstance(node, ast.FunctionDef):
        raise Unsupported(f"{qual}: not a function")
    # (a') re-binding from outside the scope: `A.b = ...`, `del A.b`, setattr(A, "b", ...) anywhere in the file
    if len(parts) > 1:
        owner = ".".join(parts[:-1])
        for x in ast.walk(tree):
            if isinstance(x, ast.Attribute) and isinstance(x.ctx, (ast.Store, ast.Del)) and x.attr == parts[-1] \
                    and (src(x.value) == owner or src(x.value) == parts[-2]):
                raise Unsupported(f"{qual}: re-bound by an assignment to `{src(x)}` at line {x.lineno}")
            if isinstance(x, ast.Call) and src(x.func) in ("setattr", "delattr") and len(x.args) >= 2 \
                    and src(x.args[0]) in (owner, parts[-2]) and not (isinstance(x.args[1], ast.Constant) and x.args[1].value != parts[-1]):
                raise Unsupported(f"{qual}: possibly re-bound by `{src(x)[:60]}` at line {x.lineno}")
    # (b) decorators
    want_cls = dict((spec or {}).get("class_decorators", {}))      # {class qualified name: [decorator texts]}, module or entry level
    want_cls.update((fn or {}).get("class_decorators", {}))
    for c, decs in class_decs.items():
        if decs != list(want_cls.get(c, [])):
            raise Unsupported(f"{qual}: class {c} is decorated {decs}, the spec declares class_decorators {list(want_cls.get(c, []))}")
    got = [src(d) for d in node.decorator_list]
    want = _declared(fn, "decorators", qual)
    if want is not None:
        if got != list(want):
            raise Unsupported(f"{qual}: decorators {got}, the spec declares {list(want)}")
    else:
        bad = [src(d) for d in node.decorator_list if not _is_transparent(d) and src(d) not in DISPATCH_DECORATORS]
        if bad:
            raise Unsupported(f"{qual}: decorator(s) {bad} not declared by the spec (\"decorators\") and not in the transparent allow-list")
    # (c) singledispatch: the spec names the variant and pins the registered types
    note = ""
    if any(g in DISPATCH_DECORATORS for g in got):
        disp = _declared(fn, "dispatch", qual)
        variants = _dispatch_variants(tree, scope, node.name, qual)
        types = [t for t, _ in variants]
        if not isinstance(disp, dict) or "variant" not in disp or "registered" not in disp:
            raise Unsupported(f"{qual}: is a {got} dispatcher with registered types {types}; the spec must name the variant it reads: "
                              f"\"dispatch\": {{\"variant\": \"base\" | <type>, \"registered\": {types}}}")
        if types != list(disp["registered"]):
            raise Unsupported(f"{qual}: registered types {types}, the spec pins {list(disp['registered'])}")
        if len(set(types)) != len(types):
            raise Unsupported(f"{qual}: a type is registered twice: {types}")
        note = f" dispatch-variant={disp['variant']} registered={types}"
        if disp["variant"] != "base":
            sel = [n for t, n in variants if t == disp["variant"]]
            if len(sel) != 1 or not isinstance(sel[0], ast.FunctionDef):
                raise Unsupported(f"{qual}: {len(sel)} variants registered for {disp['variant']}")
            node = sel[0]
            if len(node.decorator_list) != 1:
                raise Unsupported(f"{qual}: the {disp['variant']} variant carries decorators {[src(d) for d in node.decorator_list]}")
    elif _declared(fn, "dispatch", qual) is not None:
        raise Unsupported(f"{qual}: the spec declares a dispatch variant but the def is not a singledispatch(method): {got}")
    # (d) defaults
    dflt, want_d = _defaults_of(node), dict(_declared(fn, "defaults", qual, {}))
    if dflt != want_d:
        raise Unsupported(f"{qual}: parameter defaults {dflt}, the spec declares {want_d}")
    if node.args.vararg is not None or node.args.kwarg is not None:
        if not _declared(fn, "star_args", qual, False):
            raise Unsupported(f"{qual}: *args / **kwargs in the signature (declare \"star_args\": True if the plug-in handles them)")
    if _RECORDS:
        line = (f"(* read {qual}: decorators={got} class_decorators={class_decs}{note} defaults={dflt} *)")
        line = "(* " + _comment_safe(line[3:-3]) + " *)"
        if line not in _RECORDS[-1]:
            _RECORDS[-1].append(line)
    return node


def translate_function(tree, spec, fn) -> str:
    """one spec entry -> one Definition; the entry is on the _CURRENT stack while it is translated, so that every
    find_function of the generic path, the `kind` emitters and the plug-ins is checked against its declarations"""
    _CURRENT.append((spec, fn))
    try:
        return _translate_function(tree, spec, fn)
    finally:
        _CURRENT.pop()


def _translate_function(tree, spec, fn) -> str:
    if "kind" in fn:   # special emitters (lambda conditions, class-level guards, one assignment's rhs): harness/py2coq_fourier.py
        import py2coq_fourier
        return py2coq_fourier.KINDS[fn["kind"]](tree, spec, fn)
    if "emitter" in fn:   # "module:function" -> function(tree, spec, fn) returns the whole Definition (fail-closed like the rest)
        import importlib
        m, f = fn["emitter"].split(":")
        return getattr(importlib.import_module(m), f)(tree, spec, fn)
    node = find_function(tree, fn["py"])
    ctx = Ctx(spec, fn)
    if spec.get("ext"):
        import importlib
        ctx.ext = importlib.import_module(spec["ext"]).Ext(ctx, spec, fn)
    if fn.get("attr_tail"):
        # straight-line method made of `self.x = e` / local assignments only; the definition's value is
        # what the method leaves in the attribute fn["attr_tail"]
        for st in node.body:
            if not (isinstance(st, ast.Assign) or (isinstance(st, ast.Expr) and isinstance(st.value, ast.Constant))):
                raise Unsupported(f"{fn['py']}: attr_tail needs a straight-line body, found {type(st).__name__}")
        params = " ".join(f"({n} : {t})" for n, t in fn["args"])
        pyargs = [a.arg for a in node.args.args if a.arg not in ("self", "cls")]
        if fn.get("pyargs") is not None and fn["pyargs"] != pyargs:
            raise Unsupported(f"{fn['py']}: signature changed: {pyargs} (expected {fn['pyargs']})")
        tail = fn["attr_tail"].replace(".", "_")
        body = block(ctx, node.body, tail, fn.get("on_raise"))
        if ctx.attrs.get(fn["attr_tail"]) != tail:
            raise Unsupported(f"{fn['py']}: {fn['attr_tail']} is never assigned")
        return f"Definition {fn['coq']} {params} : {fn['ret']} :=\n  {body}.\n"
    params = " ".join(f"({n} : {t})" for n, t in fn["args"])
    pyargs = [a.arg for a in node.args.args if a.arg not in ("self", "cls")]
    declared = fn.get("pyargs")
    if declared is not None and declared != pyargs:
        raise Unsupported(f"{fn['py']}: signature changed: {pyargs} (expected {declared})")
    if "assign_target" in fn:
        body = assign_target_block(ctx, node.body, fn["assign_target"])
    else:
        body = block(ctx, node.body, None, fn.get("on_raise"))
    return f"Definition {fn['coq']} {params} : {fn['ret']} :=\n  {body}.\n"


HEADERS = {
    "Z": "From Coq Require Import ZArith Bool List.\nOpen Scope Z_scope.\n",
    "Q": "From Coq Require Import ZArith QArith Qminmax Qabs Bool List.\nFrom RV Require Import Base.QB.\nOpen Scope Q_scope.\n",
    "R": "From Coq Require Import ZArith Reals Bool List.\nFrom RV Require Import Base.RB.\nOpen Scope R_scope.\n",
}


def generate_module(repo: Path, name: str, spec) -> str:
    out = [f"(* GENERATED by harness/py2coq.py from {spec['file']} -- do not edit *)", spec.get("header") or HEADERS[spec.get("dom", "Z")]]
    _RECORDS.append([])
    try:
        tree = ast.parse((repo / spec["file"]).read_text())
        extra_trees = {}
        if spec.get("section"):
            out.append(f"Section {name}.")
            for v, t in spec["section"]:
                out.append(f"Variable {v} : {t}.")
        for fn in spec["funcs"]:
            t = tree
            if "file" in fn:
                if fn["file"] not in extra_trees:
                    extra_trees[fn["file"]] = ast.parse((repo / fn["file"]).read_text())
                t = extra_trees[fn["file"]]
            out.append(translate_function(t, spec, fn))
        if spec.get("section"):
            out.append(f"End {name}.")
        records = _RECORDS[-1]
    finally:
        _RECORDS.pop()
    # header comments: which def was read for each qualified name, with its decorators, dispatch variant and defaults
    out[1:1] = records
    return "\n".join(out) + "\n"


def load_specs():
    """(SPECS, failures): the merged table of harness/specs/*.py.  A spec file that cannot be imported (or repeats a module
    name) is reported under the key `specs/<file>.py` instead of aborting the generation of every other module."""
    import importlib
    import pkgutil
    import specs
    table, failures = {}, {}
    for m in sorted(pkgutil.iter_modules(specs.__path__), key=lambda m: m.name):
        try:
            mod = importlib.import_module(f"specs.{m.name}")
            for k, v in mod.SPECS.items():
                if k in table:
                    raise RuntimeError(f"duplicate Gen module name {k}")
                table[k] = v
        except Exception as e:   # noqa: BLE001 -- reported, never skipped silently
            failures[f"specs/{m.name}.py"] = f"{type(e).__name__}: {e}"
    return table, failures


def generate_all(repo: Path, outdir: Path, only=None):
    """Regenerates every Gen module.  Returns (changed, failures): a module whose source no longer
    fits the supported subset is reported in `failures` (its stale .v is removed so nothing can be
    proved against an out-of-date model).  ANY exception while one module is generated (a plug-in named in the spec that
    cannot be imported, a plug-in bug) is that module's failure only: the other modules are still generated (audit5b X-a).
    A name in `only` that no spec defines is a failure too (it used to be skipped silently)."""
    SPECS, failures = load_specs()
    outdir.mkdir(parents=True, exist_ok=True)
    changed = []
    for name in sorted(set(only or ()) - set(SPECS)):
        failures[name] = "no spec defines this module" + (f" (spec files that failed to load: {sorted(failures)})" if failures else "")
    for name, spec in SPECS.items():
        if only is not None and name not in only:
            continue
        f = outdir / f"{name}.v"
        try:
            text = generate_module(repo, name, spec)
        except Exception as e:   # noqa: BLE001 -- fail closed per module: Unsupported, SyntaxError, OSError, ImportError, plug-in bugs ...
            failures[name] = f"{type(e).__name__}: {e}"
            text = f"(* py2coq FAILED on {spec.get('file', '?')}: see check output *)\nDefinition py2coq_failed : True := I.\n"
        if not f.exists() or f.read_text() != text:
            f.write_text(text)
            changed.append(name)
    return changed, failures


if __name__ == "__main__":
    import sys
    repo = Path(sys.argv[1]) if len(sys.argv) > 1 else Path("/repo")
    out = Path(__file__).resolve().parent.parent / "coq" / "Gen"
    # run the module the plug-ins import (`import py2coq`), not this `__main__` copy of it: the plug-ins' find_function must see the
    # _CURRENT stack that translate_function fills, and their Unsupported must be the class generate_all knows
    sys.path.insert(0, str(Path(__file__).resolve().parent))
    import py2coq as _canonical
    changed, failures = _canonical.generate_all(repo, out)
    print("changed:", (changed, failures))
    # one line per broken obligation (setup.sh prints this); the build goes on: every check whose GEN_DEPS name a failed module
    # reports it as a broken obligation itself (common.regen_and_make), the others are not affected
    for name, why in failures.items():
        print(f"py2coq: BROKEN OBLIGATION {name}: {why}")
    print(f"py2coq: {len(failures)} module(s) / spec file(s) failed" if failures else "py2coq: all modules generated")

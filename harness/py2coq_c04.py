"""py2coq emitter for C04: LevyTriplet.set_representation (rpylib/model/levymodel/levymodel.py), the drift DISPATCH around
the four conversions -- regenerated from the source on every run, fail-closed like the rest of py2coq.

What is read from the source (anything else raises py2coq.Unsupported -> the obligation is reported broken):

  class LevyRepresentation(Enum)   the members and their integer values; must be exactly fn["enum_values"] (the hand
                                   theorems and GenC04Triplet's bexprs code the members by these integers)
  LevyTriplet.__init__             the ONE statement `self._drift_mapping = {LevyRepresentation.X: self.<method>, ...}`
                                   (no other store to _drift_mapping anywhere in the class); every <method> must be one of
                                   fn["methods"] (the py2coq-generated conversions)
  LevyTriplet.set_representation   body = docstring + statements of the forms
                                       if <cmp>: <stores>            (no else; <cmp> is `p == self.representation` / `!=`, either order)
                                       self.a = <value>              <value> ::= self._drift_mapping[p]() | self.a | float literal
                                       self.representation = p       (p = the method's parameter)
                                   translated as a state transformer on (a, rep) IN STATEMENT ORDER: the conversion called
                                   through the mapping sees the (a, representation) current at that point -- so storing the
                                   representation BEFORE the drift (the bug the source comment warns about) yields a different term.

Emitted:  Definition set_representation (target rep : Z) (fv : bool) (a : Q) : Q * Z := ... (new a, new representation)
  self._drift_mapping[p]()  ->  if Z.eqb p k1 then m1 rep fv a else if Z.eqb p k2 then ... else err     (KeyError = `err`)
"""
import ast

import py2coq
from py2coq import Unsupported, src


def _enum_values(tree, name):
    cls = next((n for n in tree.body if isinstance(n, ast.ClassDef) and n.name == name), None)
    if cls is None:
        raise Unsupported(f"enum {name}: not found")
    if [src(b) for b in cls.bases] != ["Enum"]:
        raise Unsupported(f"enum {name}: bases changed: {[src(b) for b in cls.bases]}")
    vals = {}
    for st in cls.body:
        if isinstance(st, ast.Expr) and isinstance(st.value, ast.Constant) and isinstance(st.value.value, str):
            continue
        if (isinstance(st, ast.Assign) and len(st.targets) == 1 and isinstance(st.targets[0], ast.Name)
                and isinstance(st.value, ast.Constant) and isinstance(st.value.value, int) and not isinstance(st.value.value, bool)):
            vals[st.targets[0].id] = st.value.value
            continue
        raise Unsupported(f"enum {name}: unexpected statement {src(st)[:60]}")
    return vals


def _mapping(tree, cls_name, attr, enum, enum_vals, methods):
    cls = next((n for n in tree.body if isinstance(n, ast.ClassDef) and n.name == cls_name), None)
    if cls is None:
        raise Unsupported(f"class {cls_name}: not found")
    stores = []
    for n in ast.walk(cls):
        targets = []
        if isinstance(n, ast.Assign):
            targets = n.targets
        elif isinstance(n, (ast.AugAssign, ast.AnnAssign)):
            targets = [n.target]
        elif isinstance(n, ast.Delete):
            targets = n.targets
        for t in targets:
            for sub in ast.walk(t):
                if isinstance(sub, ast.Attribute) and sub.attr == attr.split(".")[-1]:
                    stores.append(n)
    # any other mention that could mutate the mapping (self._drift_mapping.update(...), [..] = ...) is a Subscript/Call on it
    for n in ast.walk(cls):
        if isinstance(n, ast.Call) and isinstance(n.func, ast.Attribute) and src(n.func.value) == attr:
            raise Unsupported(f"{attr} is used through a method call: {src(n)[:60]}")
    if len(stores) != 1:
        raise Unsupported(f"{attr}: expected exactly one store in class {cls_name}, found {len(stores)}")
    st = stores[0]
    init = py2coq.find_function(tree, f"{cls_name}.__init__")
    if st not in init.body:
        raise Unsupported(f"{attr} is not assigned at the top level of {cls_name}.__init__")
    if not (isinstance(st, ast.Assign) and len(st.targets) == 1 and src(st.targets[0]) == attr and isinstance(st.value, ast.Dict)):
        raise Unsupported(f"{attr}: not a dict display: {src(st)[:80]}")
    table = []
    for k, v in zip(st.value.keys, st.value.values):
        if not (isinstance(k, ast.Attribute) and src(k.value) == enum and k.attr in enum_vals):
            raise Unsupported(f"{attr}: key {src(k) if k is not None else '**'}")
        if src(v) not in methods:
            raise Unsupported(f"{attr}: value {src(v)} is not a generated conversion")
        if enum_vals[k.attr] in [kk for kk, _ in table]:
            raise Unsupported(f"{attr}: duplicate key {src(k)}")
        table.append((enum_vals[k.attr], methods[src(v)]))
    if not table:
        raise Unsupported(f"{attr}: empty mapping")
    return table


def emit_set_representation(tree, spec, fn):
    enum = fn["enum"]
    vals = _enum_values(tree, enum)
    if vals != fn["enum_values"]:
        raise Unsupported(f"enum {enum} changed: {vals} (the theorems code the members as {fn['enum_values']})")
    cls_name, meth = fn["py"].split(".")
    attr = fn["mapping_attr"]
    table = _mapping(tree, cls_name, attr, enum, vals, fn["methods"])
    node = py2coq.find_function(tree, fn["py"])
    a = node.args
    if a.vararg or a.kwarg or a.kwonlyargs or a.defaults or a.posonlyargs or node.decorator_list or [x.arg for x in a.args] != ["self", fn["param"]]:
        raise Unsupported(f"{fn['py']}: signature changed")
    p = fn["param"]
    err = fn["on_raise"]
    counter = [0]

    def dispatch(key, st):
        t = err
        for k, m in reversed(table):
            t = f"(if Z.eqb {key} {k} then {m} {st[1]} fv {st[0]} else {t})"
        return t

    def value(e, st):
        if (isinstance(e, ast.Call) and not e.args and not e.keywords and isinstance(e.func, ast.Subscript)
                and src(e.func.value) == attr and isinstance(e.func.slice, ast.Name) and e.func.slice.id == p):
            return dispatch("target", st)
        if src(e) == "self.a":
            return st[0]
        if isinstance(e, ast.Constant) and isinstance(e.value, (int, float)) and not isinstance(e.value, bool):
            return py2coq.lit(py2coq.Ctx(spec, {"dom": "Q"}), e.value)
        raise Unsupported(f"{fn['py']}: value {src(e)[:60]}")

    def cond(e, st):
        if isinstance(e, ast.Compare) and len(e.ops) == 1 and isinstance(e.ops[0], (ast.Eq, ast.NotEq)):
            sides = {src(e.left), src(e.comparators[0])}
            if sides == {p, "self.representation"}:
                t = f"(Z.eqb target {st[1]})"
                return t if isinstance(e.ops[0], ast.Eq) else f"(negb {t})"
        raise Unsupported(f"{fn['py']}: condition {src(e)[:60]}")

    def stmts(body, st, allow_if):
        """-> Coq term of type Q * Z: the state after `body` started in state st = (a term, rep term)"""
        if not body:
            return f"({st[0]}, {st[1]})"
        s, rest = body[0], body[1:]
        if isinstance(s, ast.Expr) and isinstance(s.value, ast.Constant) and isinstance(s.value.value, str):
            return stmts(rest, st, allow_if)
        if isinstance(s, ast.Assign) and len(s.targets) == 1:
            tgt = src(s.targets[0])
            counter[0] += 1
            if tgt == "self.a":
                n = f"a{counter[0]}"
                return f"let {n} := {value(s.value, st)} in\n  {stmts(rest, (n, st[1]), allow_if)}"
            if tgt == "self.representation" and isinstance(s.value, ast.Name) and s.value.id == p:
                n = f"rep{counter[0]}"
                return f"let {n} := target in\n  {stmts(rest, (st[0], n), allow_if)}"
        if isinstance(s, ast.If) and allow_if and not s.orelse:
            counter[0] += 1
            na, nr = f"a{counter[0]}", f"rep{counter[0]}"
            return (f"let '({na}, {nr}) := (if {cond(s.test, st)}\n   then {stmts(s.body, st, False)}\n   else ({st[0]}, {st[1]})) in\n  "
                    f"{stmts(rest, (na, nr), allow_if)}")
        raise Unsupported(f"{fn['py']}: statement {type(s).__name__}: {src(s)[:80]}")

    body = stmts(node.body, ("a", "rep"), True)
    return f"Definition {fn['coq']} (target rep : Z) (fv : bool) (a : Q) : Q * Z :=\n  {body}.\n"

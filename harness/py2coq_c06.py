"""py2coq emitters for C06: the nested function `log2_regression` of Engine.price (rpylib/montecarlo/multilevel/engine.py)
and the rate / statistics bookkeeping of the adaptive loop.

log2_regression (emitter `log2_regression`)
  mat = np.ones((L, 2)); mat[:, 0] = range(1, L + 1)                      design matrix: rows (level, 1), levels 1..L
  with np.errstate(divide='ignore'):
      x = np.linalg.lstsq(mat, np.log2(regress_to[1:]), rcond=None)[0]     -> match log2_slope_np (tl regress_to) with
                                                                              (hand model Model/Regress.v: Some (minimum-norm least squares
                                                                               slope of log2 of the sliced observations against levels 1..),
                                                                               None when an observation is not positive: numpy's x is nan)
  res = max(max_val, -x[0]); return res                                   -> Some x0: translated by py2coq (x[0] reads x0)
                                                                             None   : Python's max(max_val, nan) = max_val (text pinned)
  These three head statements are pinned TEXTUALLY (fail closed).

loop body (emitter `call_sites`, wave 7 / audit-4 top-10 #9): a SYMBOLIC EXECUTION of the statements of Engine.price in source
order, not a membership test.  Every statement of the prologue that touches a rate and EVERY statement of the `while` body must be
in the statement table below; each table entry says what it does to the tracked variables (alpha, beta, gamma, ml, vl, cl): a
Gallina `let x := ... in` line (the variable is shadowed, as the Python variable is overwritten), a recorded call site, or
nothing (statements that are modelled by hand in Model/Mlmc.v and replayed there).  The definitions emitted for the call sites
(arguments of the two compute_mc_paths calls, of the bias test, and the rates carried into the next pass) are the let-prefix
accumulated up to that statement: an extra statement is refused (Unsupported -> broken obligation), a re-ordering changes the
emitted term (the `_spec` lemmas of Proofs/C06_Tied.v then fail), a different argument changes the term."""
import ast

import py2coq
from py2coq import Unsupported, src

EXPECTED_HEAD = [
    "mat = np.ones((L, 2))",
    "mat[:, 0] = range(1, L + 1)",
    "with np.errstate(divide='ignore'):\n    x = np.linalg.lstsq(mat, np.log2(regress_to[1:]), rcond=None)[0]",
]
EXPECTED_TAIL = ["res = max(max_val, -x[0])", "return res"]      # needed for the nan path only (builtin max keeps max_val)


def _nested(tree):
    price = py2coq.find_function(tree, "Engine.price")
    inner = [n for n in price.body if isinstance(n, ast.FunctionDef) and n.name == "log2_regression"]
    if len(inner) != 1:
        raise Unsupported("Engine.price: nested function log2_regression not found exactly once")
    return price, inner[0]


def log2_regression(tree, spec, fn):
    _, node = _nested(tree)
    a = node.args
    if [x.arg for x in a.args] != ["regress_to", "max_val"] or a.vararg or a.kwarg or a.kwonlyargs or a.posonlyargs:
        raise Unsupported(f"log2_regression: signature changed: {src(a)}")
    if len(a.defaults) != 1 or not isinstance(a.defaults[0], ast.Constant) or not isinstance(a.defaults[0].value, (int, float)):
        raise Unsupported("log2_regression: default of max_val is not a numeric literal")
    body = [s for s in node.body if not (isinstance(s, ast.Expr) and isinstance(s.value, ast.Constant))]
    head, rest = body[:len(EXPECTED_HEAD)], body[len(EXPECTED_HEAD):]
    got = [src(s) for s in head]
    if got != EXPECTED_HEAD:
        raise Unsupported(f"log2_regression: the construction of the least-squares system changed: {got}")
    if not rest:
        raise Unsupported("log2_regression: nothing after the least-squares call")
    if [src(s) for s in rest] != EXPECTED_TAIL:
        raise Unsupported(f"log2_regression: what happens to a nan slope is only known for `{EXPECTED_TAIL}`, found {[src(s) for s in rest]}")
    ctx = py2coq.Ctx(spec, dict(fn, subst={"x[0]": "x0"}))
    tail = py2coq.block(ctx, rest, None, None)
    dflt = py2coq.lit(ctx, a.defaults[0].value)
    return (f"Definition {fn['coq']} (regress_to : list R) (max_val : R) : R :=\n"
            f"  match log2_slope_np (tl regress_to) with\n"
            f"  | Some x0 => {tail}\n"
            f"  | None => max_val\n  end.\n\n"
            f"Definition {fn['coq']}_default_max_val : R := {dflt}.\n")


# ---------------------------------------------------------------------------------------------- the loop body
RATES = (("alpha", "ml"), ("beta", "vl"), ("gamma", "cl"))
TRACKED = {"alpha", "beta", "gamma", "ml", "vl", "cl"}
WATCH = TRACKED | {"alpha_0", "beta_0", "gamma_0", "cr", "log2_regression"}
PARAMS = ("(cfg_alpha cfg_beta cfg_gamma : option R) (alpha beta gamma : R) (ml vl cl : list R)")
CM = "self.configuration.convergence_criteria"

# statements without effect on the tracked variables: hand-modelled in Model/Mlmc.v (Nl, dNl, sum_cost, statistics, processes)
NEUTRAL = {
    "self.statistics.set_mlmc_results(Nl, sum_cost)",
    "dNl = np.maximum(0, Ns - Nl)",
    "if has_converged or L == level_max:\n    self.statistics.set_mlmc_results(Nl=Nl, sum_cost=sum_cost)\n    return self.statistics",
    "Nl = np.append(Nl, 0)",
    "sum_cost = np.append(sum_cost, 0.0)",
    "next_process = copy.deepcopy(ml_processes[-1])",
    "next_process.reset_one_simulation_cost()",
    "next_process.next_level(dNl[-1], self.path_managers, product=product)",
    "ml_processes.append(next_process)",
    "self.statistics.extend(Nl + dNl)",
}
WORKAROUND = ("for level in range(3, L + 1):\n    ml[level] = np.maximum(ml[level], 0.5 * ml[level - 1] / 2 ** alpha)\n"
              "    vl[level] = np.maximum(vl[level], 0.5 * vl[level - 1] / 2 ** beta)")
PROLOGUE = ["cr = self.configuration.convergence_rates", "alpha_0, beta_0, gamma_0 = (cr.alpha, cr.beta, cr.gamma)"]


def _names(node):
    return {n.id for n in ast.walk(node) if isinstance(n, ast.Name)}


def _only_logging(stmts):
    for s in stmts:
        if isinstance(s, ast.If) and not s.orelse:
            if not _only_logging(s.body):
                return False
        elif not (isinstance(s, ast.Expr) and isinstance(s.value, ast.Call) and src(s.value.func).startswith("logging.")):
            return False
    return True


class _Sym:
    """straight-line symbolic execution: `lets` is the accumulated prefix of `let x := e in` lines"""

    def __init__(self):
        self.lets = []
        self.sites = {}          # name -> (prefix of lets, tuple of result expressions)
        self.fresh = False       # ml, vl, cl have been read from the statistics of this pass
        self.level_added = False
        self.alloc_calls = 0

    def let(self, var, expr):
        self.lets.append(f"let {var} := {expr} in")

    def site(self, name, exprs):
        if name in self.sites:
            raise Unsupported(f"Engine.price: call site {name} occurs twice")
        self.sites[name] = (list(self.lets), exprs)

    def stmt(self, s, inner):
        t = src(s)
        if t in NEUTRAL:
            return
        if t == "L += 1":
            self.level_added = True
            return
        for arr in ("ml", "vl", "cl"):
            if t == f"{arr} = self.statistics.mlmc_results.{arr}":
                if self.level_added:
                    raise Unsupported("Engine.price: statistics re-read after the level was added")
                self.let(arr, f"stat_{arr}")
                self.read.add(arr)
                return
        if t == WORKAROUND:
            if self.level_added or self.read != {"ml", "vl", "cl"}:
                raise Unsupported("Engine.price: the work-around does not follow the reading of ml, vl, cl (or L has changed)")
            self.let("ml", "ml_after_workaround alpha ml")
            self.let("vl", "vl_after_workaround beta vl")
            return
        for rate, arr in RATES:
            if t == f"if {rate}_0 is None:\n    {rate} = log2_regression({arr})":
                self.let(rate, f"{rate}_of_pass cfg_{rate} {rate} {arr}")
                return
        if t == f"Ns = {CM}.compute_mc_paths(rmse, vl, cl)":
            self.alloc_calls += 1
            self.site("pass_alloc" if not self.level_added else "new_level_alloc", ("vl", "cl"))
            return
        if isinstance(s, ast.If) and src(s.test) == "Ns[0] > 10000000" and not s.orelse and _only_logging(s.body):
            return
        if t == f"has_converged = {CM}.criteria(alpha, ml, rmse)":
            self.site("pass_bias", ("alpha", "ml"))
            return
        if t == "vl = np.append(vl, vl[-1] / 2 ** beta)":
            if not self.level_added:
                raise Unsupported("Engine.price: vl extended before L += 1")
            self.let("vl", "vl_extended beta vl")
            return
        if t == "cl = np.append(cl, cl[-1] * 2 ** gamma)":
            if not self.level_added:
                raise Unsupported("Engine.price: cl extended before L += 1")
            self.let("cl", "cl_extended gamma cl")
            return
        if isinstance(s, ast.If) and src(s.test) == "np.sum(dNl[dNl > 0.01 * Nl]) == 0" and not s.orelse and not inner:
            for x in s.body:
                self.stmt(x, True)
            return
        raise Unsupported(f"Engine.price: statement of the adaptive loop outside the translated table: `{t[:160]}`")


def call_sites(tree, spec, fn):
    price, nested = _nested(tree)
    body = [s for s in price.body if not (isinstance(s, ast.Expr) and isinstance(s.value, ast.Constant))]
    whiles = [i for i, s in enumerate(body) if isinstance(s, ast.While)]
    if len(whiles) != 1 or src(body[whiles[0]].test) != "np.sum(dNl) > 0" or body[whiles[0]].orelse:
        raise Unsupported("Engine.price: expected exactly one `while np.sum(dNl) > 0:` without else")
    w = body[whiles[0]]
    out = []
    # ---- prologue: the configured rates and the initial values; nothing else may mention a rate / a statistic
    seen = []
    for s in body[:whiles[0]]:
        if s is nested:
            continue
        t = src(s)
        if t in PROLOGUE:
            seen.append(t)
            continue
        hit = False
        for rate, _ in RATES:
            if (isinstance(s, ast.Assign) and len(s.targets) == 1 and src(s.targets[0]) == rate and isinstance(s.value, ast.IfExp)
                    and src(s.value.test) == f"{rate}_0 is None" and isinstance(s.value.body, ast.Constant)
                    and isinstance(s.value.body.value, (int, float)) and src(s.value.orelse) == f"{rate}_0"):
                if seen[:2] != PROLOGUE:
                    raise Unsupported(f"Engine.price: {rate} initialised before the configured rates are read")
                ctx = py2coq.Ctx(spec, fn)
                out.append(f"Definition {rate}_initial (configured : option R) : R :=\n"
                           f"  match configured with None => {py2coq.lit(ctx, s.value.body.value)} | Some r => r end.\n")
                seen.append(rate)
                hit = True
        if not hit and _names(s) & WATCH:
            raise Unsupported(f"Engine.price: statement before the loop touches a rate / statistic outside the table: `{t[:160]}`")
    if seen != PROLOGUE + [r for r, _ in RATES]:
        raise Unsupported(f"Engine.price: prologue of the rates changed: {seen}")
    for s in body[whiles[0] + 1:]:
        if _names(s) & WATCH:
            raise Unsupported(f"Engine.price: statement after the loop touches a rate / statistic: `{src(s)[:160]}`")
    # ---- the statement-level translation units (what ONE recognised statement does)
    for rate, arr in RATES:
        out.append(f"Definition {rate}_of_pass (configured : option R) (previous : R) ({arr} : list R) : R :=\n"
                   f"  match configured with None => log2_regression {arr} log2_regression_default_max_val | Some _ => previous end.\n")
    out.append("Definition ml_after_workaround (alpha : R) (ml : list R) : list R := workaround (Rpower (IZR 2) alpha) ml.\n"
               "Definition vl_after_workaround (beta : R) (vl : list R) : list R := workaround (Rpower (IZR 2) beta) vl.\n")
    out.append("Definition vl_extended (beta : R) (vl : list R) : list R := vl ++ (last vl (IZR 0) / Rpower (IZR 2) beta) :: nil.\n"
               "Definition cl_extended (gamma : R) (cl : list R) : list R := cl ++ (last cl (IZR 0) * Rpower (IZR 2) gamma) :: nil.\n")
    # ---- the while body, in source order
    stmts = list(w.body)
    if not (stmts and isinstance(stmts[0], ast.For) and src(stmts[0].target) == "level" and src(stmts[0].iter) == "range(L + 1)"
            and not stmts[0].orelse):
        raise Unsupported("Engine.price: the loop body does not start with the simulation `for level in range(L + 1):`")
    if _names(stmts[0]) & WATCH:
        raise Unsupported("Engine.price: the simulation loop mentions a rate / statistic")
    sym = _Sym()
    sym.read = set()
    for s in stmts[1:]:
        sym.stmt(s, False)
    want = {"pass_alloc", "pass_bias", "new_level_alloc"}
    if set(sym.sites) != want or sym.alloc_calls != 2:
        raise Unsupported(f"Engine.price: call sites found {sorted(sym.sites)} (compute_mc_paths x{sym.alloc_calls}), expected {sorted(want)}")
    sym.site("pass_next", ("alpha", "beta", "gamma"))
    par = PARAMS.replace("(ml vl cl : list R)", "(stat_ml stat_vl stat_cl : list R)")
    proj = {"pass_alloc": ("V", "C"), "new_level_alloc": ("V", "C"), "pass_bias": ("alpha", "ml"), "pass_next": ("alpha", "beta", "gamma")}
    for name in ("pass_alloc", "pass_bias", "new_level_alloc", "pass_next"):
        lets, exprs = sym.sites[name]
        for tag, e in zip(proj[name], exprs):
            ty = "R" if e in ("alpha", "beta", "gamma") else "list R"
            out.append(f"Definition {name}_{tag} {par} : {ty} :=\n  " + "\n  ".join(lets) + f"\n  {e}.\n")
    return "\n".join(out)

"""py2coq emitters for C06: the nested function `log2_regression` of Engine.price (rpylib/montecarlo/multilevel/engine.py)
and its three call sites.  Fail-closed: every statement that is not translated by the generic py2coq machinery must be
TEXTUALLY the statement this model was written for (ast.unparse), otherwise Unsupported -> broken obligation.

  mat = np.ones((L, 2)); mat[:, 0] = range(1, L + 1)                      design matrix: rows (level, 1), levels 1..L
  with np.errstate(divide='ignore'):
      x = np.linalg.lstsq(mat, np.log2(regress_to[1:]), rcond=None)[0]     -> let x0 := log2_slope (tl regress_to)
                                                                              (hand model Model/Regress.v: minimum-norm least squares
                                                                               of log2 of the sliced observations against levels 1..)
  res = max(max_val, -x[0]); return res                                   -> translated by py2coq (x[0] reads x0)
The default of max_val and the guards/arguments of the call sites (`if alpha_0 is None: alpha = log2_regression(ml)` ...)
are emitted as separate definitions so that a change there is seen as well."""
import ast

import py2coq
from py2coq import Unsupported, src

EXPECTED_HEAD = [
    "mat = np.ones((L, 2))",
    "mat[:, 0] = range(1, L + 1)",
    "with np.errstate(divide='ignore'):\n    x = np.linalg.lstsq(mat, np.log2(regress_to[1:]), rcond=None)[0]",
]


def _nested(tree):
    price = py2coq.find_function(tree, "Engine.price")
    inner = [n for n in price.body if isinstance(n, ast.FunctionDef) and n.name == "log2_regression"]
    if len(inner) != 1:
        raise Unsupported("Engine.price: nested function log2_regression not found exactly once")
    return price, inner[0]


def log2_regression(tree, spec, fn):
    _, node = _nested(tree)
    a = node.args
    if [x.arg for x in a.args] != ["regress_to", "max_val"] or a.vararg or a.kwarg or a.kwonlyargs or a.posonlyargs:
        raise Unsupported(f"log2_regression: signature changed: {src(a)}")
    if len(a.defaults) != 1 or not isinstance(a.defaults[0], ast.Constant) or not isinstance(a.defaults[0].value, (int, float)):
        raise Unsupported("log2_regression: default of max_val is not a numeric literal")
    body = [s for s in node.body if not (isinstance(s, ast.Expr) and isinstance(s.value, ast.Constant))]
    head, rest = body[:len(EXPECTED_HEAD)], body[len(EXPECTED_HEAD):]
    got = [src(s) for s in head]
    if got != EXPECTED_HEAD:
        raise Unsupported(f"log2_regression: the construction of the least-squares system changed: {got}")
    if not rest:
        raise Unsupported("log2_regression: nothing after the least-squares call")
    ctx = py2coq.Ctx(spec, dict(fn, subst={"x[0]": "x0"}))
    tail = py2coq.block(ctx, rest, None, None)
    dflt = py2coq.lit(ctx, a.defaults[0].value)
    return (f"Definition {fn['coq']} (regress_to : list R) (max_val : R) : R :=\n"
            f"  let x0 := (log2_slope (tl regress_to)) in\n  {tail}.\n\n"
            f"Definition {fn['coq']}_default_max_val : R := {dflt}.\n")


def call_sites(tree, spec, fn):
    """the three uses inside the while loop: `if <rate>_0 is None: <rate> = log2_regression(<array>)` with the default max_val,
    and the initial values `<rate> = 0 if <rate>_0 is None else <rate>_0`.  Emits, for each rate, the value the loop variable
    takes in a pass as a function of the configured rate (option R), the previous value and the array."""
    price, _ = _nested(tree)
    text = {src(s) for s in ast.walk(price) if isinstance(s, ast.stmt)}
    out = []
    for rate, arr in (("alpha", "ml"), ("beta", "vl"), ("gamma", "cl")):
        init = f"{rate} = 0 if {rate}_0 is None else {rate}_0"
        use = f"if {rate}_0 is None:\n    {rate} = log2_regression({arr})"
        if init not in text:
            raise Unsupported(f"Engine.price: initial value of {rate} changed (expected `{init}`)")
        if use not in text:
            raise Unsupported(f"Engine.price: use of log2_regression for {rate} changed (expected `{use}`)")
        out.append(f"Definition {rate}_initial (configured : option R) : R :=\n"
                   f"  match configured with None => (IZR 0) | Some r => r end.\n"
                   f"Definition {rate}_of_pass (configured : option R) (previous : R) ({arr} : list R) : R :=\n"
                   f"  match configured with None => log2_regression {arr} log2_regression_default_max_val | Some _ => previous end.\n")
    # the work-around that precedes the regressions, on the arrays the regressions then read
    wa = ("for level in range(3, L + 1):\n    ml[level] = np.maximum(ml[level], 0.5 * ml[level - 1] / 2 ** alpha)\n"
          "    vl[level] = np.maximum(vl[level], 0.5 * vl[level - 1] / 2 ** beta)")
    if wa not in text:
        raise Unsupported("Engine.price: the ml/vl work-around changed")
    out.append("Definition ml_after_workaround (alpha : R) (ml : list R) : list R := workaround (Rpower (IZR 2) alpha) ml.\n"
               "Definition vl_after_workaround (beta : R) (vl : list R) : list R := workaround (Rpower (IZR 2) beta) vl.\n")
    # extrapolated statistics of the level that is added
    for stmt in ("vl = np.append(vl, vl[-1] / 2 ** beta)", "cl = np.append(cl, cl[-1] * 2 ** gamma)"):
        if stmt not in text:
            raise Unsupported(f"Engine.price: extrapolation of the new level changed (expected `{stmt}`)")
    out.append("Definition vl_extended (beta : R) (vl : list R) : list R := vl ++ (last vl (IZR 0) / Rpower (IZR 2) beta) :: nil.\n"
               "Definition cl_extended (gamma : R) (cl : list R) : list R := cl ++ (last cl (IZR 0) * Rpower (IZR 2) gamma) :: nil.\n")
    return "\n".join(out)

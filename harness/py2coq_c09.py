"""py2coq plug-in for rpylib/model/levymodel/purejump/cgmy.py (C09), fail-closed like the rest of py2coq.

  f(alpha=e1, h=e2, u=e3)   -> (F e1 e2 e3)     a call made ONLY of keyword arguments to a callee listed in fn/spec["kwsig"]
                                                ({python callee text: [parameter names in the callee's positional order]}): the
                                                keywords are put in that order.  The set of keywords must be exactly the declared
                                                parameter list (a renamed / added / dropped keyword is refused); the callees are
                                                themselves translated functions whose "pyargs" entry pins the real signature.
  x ** e  (e not a non-negative integer literal)  -> (pypow x e)   [wave 8, audit 5a B1]  Model/PyPow.v: Python's float power on a base
                                                >= 0 (0 ** positive = 0, 0 ** 0 = 1, 0 ** negative raises: pypow_raises); py2coq's own
                                                translation is Rpower, and Rpower 0 e = 1.  np.power(..) is NOT touched (spec "calls").
Nothing else is handled here (every other node falls through to py2coq).
"""
import ast

import py2coq


class Ext:
    def __init__(self, ctx, spec, fn):
        self.kwsig = dict(spec.get("kwsig", {}))
        self.kwsig.update(fn.get("kwsig", {}))

    def expr(self, ctx, e):
        if isinstance(e, ast.Call) and e.keywords and not e.args:
            f = py2coq.src(e.func)
            if f in self.kwsig and f in ctx.calls:
                sig = self.kwsig[f]
                given = [k.arg for k in e.keywords]
                if None in given or sorted(given) != sorted(sig) or len(set(given)) != len(given):
                    raise py2coq.Unsupported(f"keyword call {py2coq.src(e)}: keywords {given} are not the declared parameters {sig}")
                byname = {k.arg: k.value for k in e.keywords}
                return "(" + " ".join([ctx.calls[f]] + [py2coq.expr(ctx, byname[p]) for p in sig]) + ")"
        if isinstance(e, ast.BinOp) and isinstance(e.op, ast.Pow) and ctx.dom == "R":
            b = e.right
            if not (isinstance(b, ast.Constant) and isinstance(b.value, int) and not isinstance(b.value, bool) and b.value >= 0):
                return f"(pypow {py2coq.expr(ctx, e.left)} {py2coq.expr(ctx, b)})"
        return None

    def bexpr(self, ctx, e):
        return None

    def stmt(self, ctx, s, rest, tail, on_raise):
        return None


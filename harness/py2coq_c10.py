"""py2coq plug-in for C10: the jump samplers `jump_increment(self, n)` of the finite-activity models, read POINTWISE
(one jump; numpy draws arrays of n independent copies).  Inert for functions whose spec has no "draws".  Fail-closed.

  fn["draws"] = [("np.random.random", "u"), ("np.random.random", "v")]
      the k-th call of a random generator in SOURCE ORDER (= the order in which the stream is consumed: the body must be
      straight-line) is the k-th entry: the callee must match, the call must have the single keyword `size=<the method's
      parameter n>`, and the value is the Coq argument named there (a uniform on [0,1) / a standard normal).
      `np.random.normal(loc=L, scale=S, size=n)` is `L + S * g` with g the standard-normal argument (numpy's definition of the
      legacy generator: loc + scale * standard_normal; the correspondence replays the same stream through standard_normal).
      A different number of draws than declared is refused at the `return`.
  np.where(c, a, b)  ->  if c then a else b      (elementwise)
"""
import ast

import py2coq
from py2coq import Unsupported, src


class Ext:
    def __init__(self, ctx, spec, fn):
        self.draws = list(fn.get("draws", []))
        self.active = "draws" in fn
        self.used = 0
        self.size_name = fn.get("size_name", "n")

    def _draw(self, e, callee):
        if self.used >= len(self.draws):
            raise Unsupported(f"more random draws than declared: {src(e)}")
        want, name = self.draws[self.used]
        if want != callee:
            raise Unsupported(f"draw #{self.used} is {callee}, expected {want}")
        self.used += 1
        return name

    def expr(self, ctx, e):
        if not self.active or not isinstance(e, ast.Call):
            return None
        f = src(e.func)
        kw = {k.arg: k.value for k in e.keywords}
        if f == "np.random.random":
            if e.args or set(kw) != {"size"} or src(kw["size"]) != self.size_name:
                raise Unsupported(f"unexpected arguments of {src(e)}")
            return self._draw(e, f)
        if f == "np.random.normal":
            if e.args or set(kw) != {"loc", "scale", "size"} or src(kw["size"]) != self.size_name:
                raise Unsupported(f"unexpected arguments of {src(e)}")
            loc, scale = py2coq.expr(ctx, kw["loc"]), py2coq.expr(ctx, kw["scale"])
            g = self._draw(e, f)
            return f"({ctx.d['add']} {loc} ({ctx.d['mul']} {scale} {g}))"
        if f == "np.where":
            if len(e.args) != 3 or e.keywords:
                raise Unsupported(f"np.where with other than 3 positional arguments: {src(e)}")
            return f"(if {py2coq.bexpr(ctx, e.args[0])} then {py2coq.expr(ctx, e.args[1])} else {py2coq.expr(ctx, e.args[2])})"
        if f.startswith("np.random."):
            raise Unsupported(f"random generator {f} is not modelled")
        return None

    def bexpr(self, ctx, e):
        return None

    def stmt(self, ctx, s, rest, tail, on_raise):
        if not self.active:
            return None
        if isinstance(s, (ast.For, ast.While, ast.If, ast.With, ast.Try)):
            raise Unsupported(f"jump sampler: only straight-line bodies are read pointwise, found {type(s).__name__}")
        if isinstance(s, ast.Return) and s.value is not None:
            r = py2coq.expr(ctx, s.value)
            if self.used != len(self.draws):
                raise Unsupported(f"{self.used} random draws in the body, {len(self.draws)} declared")
            return r
        return None

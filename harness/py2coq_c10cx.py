"""py2coq plug-in for C10 (wave 6): straight-line float/complex code translated over the pair domain C = R * R of Coquelicot
(Base/CxPair.v adds Cpow_nat, atan2 and the principal logarithm Cln_code).  Active only for functions whose spec has
"complex": True; inert otherwise.  Fail-closed: every statement / expression kind not listed here is refused.

Typing follows Python's numeric tower: every sub-expression is R (float) or C (complex).  An operation between two R values is
the real operation (float arithmetic, as Python does it BEFORE any promotion); as soon as one operand is C the other is promoted
with RtoC and the complex operation is used (Cplus / Cminus / Cmult / Cdiv / Copp).
  types of names : the Coq type given in fn["args"] ("R", "C", "C -> C"); locals get the type of their right-hand side;
  `1j`, `2.5j`   : Ci, (Cmult (RtoC 2.5) Ci);
  z ** n         : literal natural n: (pow z n) on R, (Cpow_nat z n) on C (CPython's c_powi is repeated multiplication);
  np.log / np.exp: ln / exp on R, Cln_code / Cexp_code on C;
  f(z)           : a callee listed in fn["ccalls"] {python callee text: Coq name}, the Coq name being an argument of function type
                   "C -> C" or "R -> R" (an R argument of a C -> C function is promoted);
  statements     : docstring, `name = e`, `n1, n2 = e1, e2` (same length), `name = <attribute mapped to "tt">` (an object alias),
                   `return e` (promoted to the declared return type).
"""
import ast
from fractions import Fraction

import py2coq
from py2coq import Unsupported, src


def _rl(v):
    fr = Fraction(repr(v)) if isinstance(v, float) else Fraction(v)
    if fr.denominator == 1:
        return f"(IZR ({fr.numerator}))"
    return f"(IZR ({fr.numerator}) / IZR ({fr.denominator}))"


ROPS = {ast.Add: "Rplus", ast.Sub: "Rminus", ast.Mult: "Rmult", ast.Div: "Rdiv"}
COPS = {ast.Add: "Cplus", ast.Sub: "Cminus", ast.Mult: "Cmult", ast.Div: "Cdiv"}


class Ext:
    def __init__(self, ctx, spec, fn):
        self.active = bool(fn.get("complex"))
        self.env = {n: t.replace(" ", "") for n, t in fn.get("args", [])}
        self.ccalls = dict(fn.get("ccalls", {}))
        self.ret = fn.get("ret", "C")

    # ------------------------------------------------------------------ expressions
    @staticmethod
    def lift(t, ty):
        if ty == "C":
            return t
        if ty == "R":
            return f"(RtoC {t})"
        raise Unsupported(f"value of type {ty} used as a number")

    def typed(self, ctx, e):
        if isinstance(e, ast.Constant):
            v = e.value
            if isinstance(v, bool):
                raise Unsupported("boolean used as a number")
            if isinstance(v, (int, float)):
                if v != v or v in (float("inf"), float("-inf")):
                    raise Unsupported("non-finite literal")
                return _rl(v), "R"
            if isinstance(v, complex) and v.real == 0.0:
                return ("Ci" if v.imag == 1.0 else f"(Cmult (RtoC {_rl(v.imag)}) Ci)"), "C"
            raise Unsupported(f"literal {v!r}")
        if isinstance(e, ast.Name):
            n = ctx.rename.get(e.id, e.id)
            if n not in self.env:
                raise Unsupported(f"name {e.id} has no declared type")
            return n, self.env[n]
        if isinstance(e, ast.Attribute):
            s = src(e)
            if s not in ctx.attrs:
                raise Unsupported(f"attribute {s}")
            n = ctx.attrs[s]
            if n == "tt":
                return "tt", "unit"
            if n not in self.env:
                raise Unsupported(f"attribute {s} -> {n} has no declared type")
            return n, self.env[n]
        if isinstance(e, ast.UnaryOp) and isinstance(e.op, ast.USub):
            t, ty = self.typed(ctx, e.operand)
            if ty == "R":
                return f"(Ropp {t})", "R"
            return f"(Copp {self.lift(t, ty)})", "C"
        if isinstance(e, ast.UnaryOp) and isinstance(e.op, ast.UAdd):
            return self.typed(ctx, e.operand)
        if isinstance(e, ast.BinOp) and type(e.op) in ROPS:
            a, ta = self.typed(ctx, e.left)
            b, tb = self.typed(ctx, e.right)
            if ta == "R" and tb == "R":
                return f"({ROPS[type(e.op)]} {a} {b})", "R"
            return f"({COPS[type(e.op)]} {self.lift(a, ta)} {self.lift(b, tb)})", "C"
        if isinstance(e, ast.BinOp) and isinstance(e.op, ast.Pow):
            b = e.right
            if not (isinstance(b, ast.Constant) and isinstance(b.value, int) and not isinstance(b.value, bool) and b.value >= 0):
                raise Unsupported(f"power with a non-literal exponent: {src(e)}")
            a, ta = self.typed(ctx, e.left)
            if ta == "R":
                return f"(pow {a} {b.value})", "R"
            return f"(Cpow_nat {self.lift(a, ta)} {b.value})", "C"
        if isinstance(e, ast.Call):
            f = src(e.func)
            if e.keywords or len(e.args) != 1:
                raise Unsupported(f"call {src(e)}")
            a, ta = self.typed(ctx, e.args[0])
            if f in self.ccalls:
                g = self.ccalls[f]
                gt = self.env.get(g)
                if gt == "C->C":
                    return f"({g} {self.lift(a, ta)})", "C"
                if gt == "R->R" and ta == "R":
                    return f"({g} {a})", "R"
                raise Unsupported(f"callee {f} -> {g} of type {gt} applied to {ta}")
            if f in ("np.log", "np.exp"):
                if ta == "R":
                    return f"({'ln' if f == 'np.log' else 'exp'} {a})", "R"
                return f"({'Cln_code' if f == 'np.log' else 'Cexp_code'} {self.lift(a, ta)})", "C"
            raise Unsupported(f"call {src(e)}")
        raise Unsupported(f"complex domain: expression {type(e).__name__}: {src(e)[:80]}")

    def expr(self, ctx, e):
        if not self.active:
            return None
        return self.typed(ctx, e)[0]

    def bexpr(self, ctx, e):
        if not self.active:
            return None
        raise Unsupported(f"complex domain: boolean expression {src(e)[:80]}")

    # ------------------------------------------------------------------ statements
    def stmt(self, ctx, s, rest, tail, on_raise):
        if not self.active:
            return None
        if isinstance(s, ast.Return) and s.value is not None:
            t, ty = self.typed(ctx, s.value)
            if self.ret == "C":
                return self.lift(t, ty)
            if self.ret == "R" and ty == "R":
                return t
            raise Unsupported(f"return of type {ty}, declared {self.ret}")
        if isinstance(s, ast.Assign) and len(s.targets) == 1:
            tg = s.targets[0]
            if isinstance(tg, ast.Name):
                t, ty = self.typed(ctx, s.value)
                n = ctx.rename.get(tg.id, tg.id)
                self.env[n] = ty
                return f"let {n} := {t} in\n  {py2coq.block(ctx, rest, tail, on_raise)}"
            if isinstance(tg, ast.Tuple) and all(isinstance(x, ast.Name) for x in tg.elts) and isinstance(s.value, ast.Tuple) \
                    and len(s.value.elts) == len(tg.elts):
                vals = [self.typed(ctx, v) for v in s.value.elts]      # all evaluated before any name is rebound
                names = [ctx.rename.get(x.id, x.id) for x in tg.elts]
                for n, (_, ty) in zip(names, vals):
                    self.env[n] = ty
                return (f"let '({', '.join(names)}) := ({', '.join(t for t, _ in vals)}) in\n  "
                        f"{py2coq.block(ctx, rest, tail, on_raise)}")
        raise Unsupported(f"complex domain: statement {type(s).__name__}: {src(s)[:80]}")

"""py2coq plug-in for C10 (wave 6, seeded change C10_g): EXCEPTION PATHS of the LevyTriplet drift conversions and the STATEMENT ORDER
of LevyTriplet.set_representation.  Fail-closed.

(1) Ext, active for functions with "raises_mode": True -- the function is translated to a bool: does the call raise?
      `return e`            -> false   (e must not contain a call that may raise)
      `raise ...`           -> true    (py2coq's on_raise, declared "true" in the spec)
      `x = self.f()` with self.f in fn["raising_calls"] {python callee text: (Coq value term, Coq raises term)}
                            -> (if <raises term> then true else let x := <value term> in <rest>)
    a call that may raise anywhere else (a test, an augmented assignment, inside a larger expression) is refused.

(2) emit_set_representation (spec entry "emitter": "py2coq_c10set:emit_set_representation"): the method is read as a state
    transformer with exceptions over the two attributes (self.a, self.representation):
        Definition <coq> (INF m1 fv) (a rep target : R) : bool * (R * R)      (raised?, (self.a, self.representation) afterwards)
    Accepted shape: `if <parameter> != self.representation:` (no else) whose body is a sequence of plain assignments
    `self.a = <value>` / `self.representation = <value>`; every assignment is executed IN SOURCE ORDER on the current state: if its
    right-hand side raises, the result is (true, state reached so far), otherwise the attribute is rebound and later right-hand
    sides see the new value.  Right-hand sides: the method's parameter, or `self._drift_mapping[<parameter>]()` which is resolved
    through the dict literal assigned to self._drift_mapping in __init__ (keys LevyRepresentation.X, values bound methods self.f
    listed in fn["methods"] {f: (Coq value function, Coq raises function)}; a key that is not in the dict raises KeyError).
    Anything else (augmented assignment, another callee, else-branch, loops...) is refused.
"""
import ast

import py2coq
from py2coq import Unsupported, src


def _calls_in(node):
    return [src(n.func) for n in ast.walk(node) if isinstance(n, ast.Call)]


class Ext:
    def __init__(self, ctx, spec, fn):
        self.active = bool(fn.get("raises_mode"))
        self.raising = dict(fn.get("raising_calls", {}))

    def expr(self, ctx, e):
        return None

    def bexpr(self, ctx, e):
        if self.active and any(c in self.raising for c in _calls_in(e)):
            raise Unsupported(f"a call that may raise inside a test: {src(e)[:80]}")
        return None

    def stmt(self, ctx, s, rest, tail, on_raise):
        if not self.active:
            return None
        if isinstance(s, ast.Return):
            if s.value is not None and any(c in self.raising for c in _calls_in(s.value)):
                raise Unsupported(f"a call that may raise inside a return expression: {src(s)[:80]}")
            return "false"
        if isinstance(s, ast.Assign) and len(s.targets) == 1 and isinstance(s.targets[0], ast.Name) \
                and isinstance(s.value, ast.Call) and src(s.value.func) in self.raising:
            if s.value.args or s.value.keywords:
                raise Unsupported(f"arguments in {src(s.value)}")
            val, rz = self.raising[src(s.value.func)]
            n = ctx.rename.get(s.targets[0].id, s.targets[0].id)
            return f"(if {rz}\n   then true\n   else let {n} := ({val}) in\n  {py2coq.block(ctx, rest, tail, on_raise)})"
        if isinstance(s, (ast.Assign, ast.AugAssign, ast.Expr)) and any(c in self.raising for c in _calls_in(s)):
            raise Unsupported(f"a call that may raise in an unsupported position: {src(s)[:80]}")
        if isinstance(s, (ast.For, ast.While, ast.Try, ast.With)):
            raise Unsupported(f"raises mode: statement {type(s).__name__}")
        return None


# ----------------------------------------------------------------------------------------------------------------------
def _drift_mapping(tree, cls, consts, methods):
    """[(Coq code of the key, method name)] in source order, from `self._drift_mapping = {...}` in cls.__init__"""
    init = py2coq.find_function(tree, f"{cls}.__init__")
    found = [s for s in ast.walk(init) if isinstance(s, ast.Assign) and len(s.targets) == 1 and src(s.targets[0]) == "self._drift_mapping"]
    if len(found) != 1 or not isinstance(found[0].value, ast.Dict):
        raise Unsupported("self._drift_mapping is not assigned exactly once to a dict literal in __init__")
    klass = next(c for c in tree.body if isinstance(c, ast.ClassDef) and c.name == cls)
    attrs = [n for n in ast.walk(klass) if isinstance(n, ast.Attribute) and n.attr == "_drift_mapping"]
    reads = {id(n.value) for n in ast.walk(klass) if isinstance(n, ast.Subscript) and isinstance(n.ctx, ast.Load)}
    stores = [n for n in attrs if isinstance(n.ctx, ast.Store)]
    if len(stores) != 1 or any(id(n) not in reads for n in attrs if not isinstance(n.ctx, ast.Store)):
        raise Unsupported("self._drift_mapping is used other than by `self._drift_mapping[key]` reads after its construction")
    out = []
    for k, v in zip(found[0].value.keys, found[0].value.values):
        if k is None or src(k) not in consts:
            raise Unsupported(f"_drift_mapping key {src(k) if k is not None else '**'}")
        if not (isinstance(v, ast.Attribute) and isinstance(v.value, ast.Name) and v.value.id == "self" and v.attr in methods):
            raise Unsupported(f"_drift_mapping value {src(v)}")
        out.append((consts[src(k)], v.attr))
    if len({c for c, _ in out}) != len(out):
        raise Unsupported("duplicate keys in _drift_mapping")
    return out


def emit_set_representation(tree, spec, fn):
    cls = fn["py"].split(".")[0]
    node = py2coq.find_function(tree, fn["py"])
    pyargs = [a.arg for a in node.args.args if a.arg != "self"]
    if pyargs != fn["pyargs"] or len(pyargs) != 1:
        raise Unsupported(f"{fn['py']}: signature changed: {pyargs}")
    par = pyargs[0]
    consts = dict(spec.get("consts", {}))
    methods = fn["methods"]
    mapping = _drift_mapping(tree, cls, consts, methods)
    body = [s for s in node.body if not (isinstance(s, ast.Expr) and isinstance(s.value, ast.Constant) and isinstance(s.value.value, str))]
    if len(body) != 1 or not isinstance(body[0], ast.If) or body[0].orelse:
        raise Unsupported(f"{fn['py']}: expected a single `if` without else")
    test = body[0].test
    if not (isinstance(test, ast.Compare) and len(test.ops) == 1 and isinstance(test.ops[0], ast.NotEq)
            and {src(test.left), src(test.comparators[0])} == {par, "self.representation"}):
        raise Unsupported(f"{fn['py']}: test {src(test)}")
    ctx_args = "INF m1 fv a rep"

    def dispatch(which, default):
        t = default
        for code, m in reversed(mapping):
            t = f"(if Reqb target {code} then {methods[m][which]} {ctx_args} else {t})"
        return t

    lines, steps = [], 0
    for s in body[0].body:
        if isinstance(s, ast.Expr) and isinstance(s.value, ast.Constant):
            continue
        if not (isinstance(s, ast.Assign) and len(s.targets) == 1 and src(s.targets[0]) in ("self.a", "self.representation")):
            raise Unsupported(f"{fn['py']}: statement {src(s)[:80]}")
        var = "a" if src(s.targets[0]) == "self.a" else "rep"
        v = s.value
        if isinstance(v, ast.Name) and v.id == par:
            lines.append(f"(* {src(s)} *)\n    let {var} := target in")
        elif (isinstance(v, ast.Call) and not v.args and not v.keywords and isinstance(v.func, ast.Subscript)
              and src(v.func.value) == "self._drift_mapping" and src(v.func.slice) == par):
            lines.append(f"(* {src(s)} *)\n    if {dispatch(1, 'true')} then (true, (a, rep)) else\n    let {var} := {dispatch(0, '(IZR 0)')} in")
        else:
            raise Unsupported(f"{fn['py']}: right-hand side {src(v)[:80]}")
        steps += 1
    if steps == 0:
        raise Unsupported(f"{fn['py']}: no assignment")
    inner = "\n    ".join(lines)
    return (f"Definition {fn['coq']} (INF : R) (m1 : R -> R -> R) (fv : bool) (a : R) (rep : R) (target : R) : bool * (R * R) :=\n"
            f"  if negb (Reqb target rep) then\n    {inner}\n    (false, (a, rep))\n  else (false, (a, rep)).\n")

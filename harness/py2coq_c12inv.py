"""py2coq emitter for C12: LevyCopulaModel.inverse_tail_integral (rpylib/model/levycopulamodel.py).

The function is outside the base subset of py2coq (keyword arguments, an early `return` inside one branch of an `if`
whose other paths fall through, a call to scipy's root finder), so it gets its own small, fail-closed translator:

  statements : docstring; nested `def f(u): return <expr>`; `n1, n2 = e1, e2` / `n = e` on local names; `if`/`else` whose
               branches may return or fall through (the statements after the `if` are duplicated into every path that
               falls through -- continuation-passing, so `if c: ...; if d: return a` followed by more code is exact);
               `return <expr>`;
  expressions: names (parameters / locals), int and float literals (a float is its EXACT binary value, injected by the section
               variable ofQ : Q -> N; 0 and 1 are n0 / n1), unary minus, + - *, a single comparison < <= > >=,
               calls of the nested function, `self.marginal_tail_integral(i=.., x=..)` (or positional) = U1 i (Fin x),
               `optimize.toms748(f=<nested function>, a=.., b=.., xtol=..)` = the section variable toms748 (specified, not modelled).
Anything else raises Unsupported (the obligation is reported broken)."""
import ast
from fractions import Fraction

from py2coq import Unsupported, find_function, src

CMP = {ast.Lt: ("nltb", False), ast.Gt: ("nltb", True), ast.LtE: ("nleb", False), ast.GtE: ("nleb", True)}
BIN = {ast.Add: "nadd", ast.Sub: "nsub", ast.Mult: "nmul"}


def _qlit(fr: Fraction) -> str:
    return f"({fr.numerator} # {fr.denominator})" if fr >= 0 else f"(- ({-fr.numerator} # {fr.denominator}))"


class _Tr:
    def __init__(self, params):
        self.scope = set(params)     # names of type N (or nat for the index) that may be read
        self.funs = set()            # nested one-argument functions N -> N

    def num(self, v) -> str:
        if isinstance(v, bool) or not isinstance(v, (int, float)):
            raise Unsupported(f"literal {v!r}")
        if v == 0 and not (isinstance(v, float) and str(v).startswith("-")):
            return "(n0 N)"
        if v == 1:
            return "(n1 N)"
        return f"(ofQ {_qlit(Fraction(v))})"

    def expr(self, e) -> str:
        if isinstance(e, ast.Name):
            if e.id not in self.scope:
                raise Unsupported(f"unbound name {e.id}")
            return e.id
        if isinstance(e, ast.Constant):
            return self.num(e.value)
        if isinstance(e, ast.UnaryOp) and isinstance(e.op, ast.USub):
            if isinstance(e.operand, ast.Constant) and isinstance(e.operand.value, (int, float)) and not isinstance(e.operand.value, bool):
                return self.num(-e.operand.value)
            return f"(nopp N {self.expr(e.operand)})"
        if isinstance(e, ast.BinOp) and type(e.op) in BIN:
            return f"({BIN[type(e.op)]} N {self.expr(e.left)} {self.expr(e.right)})"
        if isinstance(e, ast.Call):
            f = src(e.func)
            if f in self.funs:
                if e.keywords or len(e.args) != 1:
                    raise Unsupported(f"call {src(e)}")
                return f"({f} {self.expr(e.args[0])})"
            if f == "self.marginal_tail_integral":
                kw = {k.arg: k.value for k in e.keywords}
                args = list(e.args)
                if len(args) + len(kw) != 2 or (set(kw) - {"i", "x"}) or (len(args) == 1 and "i" in kw):
                    raise Unsupported(f"call {src(e)}")
                i = args[0] if args else kw["i"]
                x = args[1] if len(args) == 2 else kw["x"]
                if not isinstance(i, ast.Name) or i.id not in self.scope:
                    raise Unsupported(f"index argument {src(i)}")
                return f"(U1 {i.id} (Fin {self.expr(x)}))"
            if f == "optimize.toms748":
                kw = {k.arg: k.value for k in e.keywords}
                if e.args or set(kw) != {"f", "a", "b", "xtol"} or not isinstance(kw["f"], ast.Name) or kw["f"].id not in self.funs:
                    raise Unsupported(f"call {src(e)}")
                return f"(toms748 {kw['f'].id} {self.expr(kw['a'])} {self.expr(kw['b'])} {self.expr(kw['xtol'])})"
            raise Unsupported(f"call {src(e)}")
        raise Unsupported(f"expression {src(e)}")

    def test(self, e) -> str:
        if isinstance(e, ast.Compare) and len(e.ops) == 1 and type(e.ops[0]) in CMP:
            op, swap = CMP[type(e.ops[0])]
            l, r = self.expr(e.left), self.expr(e.comparators[0])
            if swap:
                l, r = r, l
            return f"({op} N {l} {r})"
        raise Unsupported(f"condition {src(e)}")

    def block(self, stmts) -> str:
        """value of the statement list (every path must end in a return)"""
        if not stmts:
            raise Unsupported("a path falls off the end of the function")
        s, rest = stmts[0], list(stmts[1:])
        if isinstance(s, ast.Expr) and isinstance(s.value, ast.Constant) and isinstance(s.value.value, str):
            return self.block(rest)
        if isinstance(s, ast.Return):
            if s.value is None:
                raise Unsupported("bare return")
            return self.expr(s.value)           # statements after a return are dead
        if isinstance(s, ast.FunctionDef):
            a = s.args
            if (a.vararg or a.kwarg or a.kwonlyargs or a.defaults or a.posonlyargs or s.decorator_list or len(a.args) != 1
                    or s.name in self.scope or s.name in self.funs):
                raise Unsupported(f"nested def {s.name}: unsupported signature")
            body = [t for t in s.body if not (isinstance(t, ast.Expr) and isinstance(t.value, ast.Constant))]
            if len(body) != 1 or not isinstance(body[0], ast.Return) or body[0].value is None:
                raise Unsupported(f"nested def {s.name}: body is not a single return")
            u = a.args[0].arg
            assigned_later = {n.id for t in rest for n in ast.walk(t) if isinstance(n, ast.Name) and isinstance(n.ctx, ast.Store)}
            captured = {n.id for n in ast.walk(body[0]) if isinstance(n, ast.Name)} - {u}
            if captured & assigned_later or u in self.scope:
                raise Unsupported(f"nested def {s.name}: a captured name is re-assigned later (late binding)")
            inner = _Tr(self.scope | {u})
            inner.funs = set(self.funs)
            val = inner.expr(body[0].value)
            self.funs.add(s.name)
            return f"let {s.name} := (fun ({u} : N) => {val}) in\n  {self.block(rest)}"
        if isinstance(s, ast.Assign) and len(s.targets) == 1:
            t = s.targets[0]
            if isinstance(t, ast.Name):
                names, vals = [t.id], [s.value]
            elif isinstance(t, ast.Tuple) and isinstance(s.value, ast.Tuple) and len(t.elts) == len(s.value.elts) \
                    and all(isinstance(n, ast.Name) for n in t.elts):
                names, vals = [n.id for n in t.elts], list(s.value.elts)
            else:
                raise Unsupported(f"assignment {src(s)}")
            read = {n.id for v in vals for n in ast.walk(v) if isinstance(n, ast.Name)}
            if len(set(names)) != len(names) or (len(names) > 1 and read & set(names)) or set(names) & self.funs:
                raise Unsupported(f"assignment {src(s)}: simultaneous assignment reads its own targets")
            terms = [self.expr(v) for v in vals]      # right-hand sides are evaluated in the OLD scope
            saved = set(self.scope)
            self.scope |= set(names)
            out = "".join(f"let {n} := {v} in " for n, v in zip(names, terms)) + "\n  " + self.block(rest)
            self.scope = saved
            return out
        if isinstance(s, ast.If):
            c = self.test(s.test)
            saved = set(self.scope)
            then = self.block(list(s.body) + rest)
            self.scope = set(saved)
            other = self.block(list(s.orelse) + rest)
            self.scope = saved
            return f"(if {c}\n   then {then}\n   else {other})"
        raise Unsupported(f"statement {type(s).__name__}: {src(s)[:80]}")


def emit_inverse(tree, spec, fn) -> str:
    node = find_function(tree, fn["py"])
    pyargs = [a.arg for a in node.args.args if a.arg not in ("self", "cls")]
    if pyargs != fn["pyargs"] or node.args.defaults or node.args.vararg or node.args.kwarg or node.args.kwonlyargs:
        raise Unsupported(f"{fn['py']}: signature changed: {pyargs} (expected {fn['pyargs']})")
    params = " ".join(f"({n} : {t})" for n, t in fn["args"])
    body = _Tr([n for n, _ in fn["args"]]).block(list(node.body))
    return f"Definition {fn['coq']} {params} : {fn['ret']} :=\n  {body}.\n"

"""py2coq plug-in for C16: numpy code of the rate-model coefficient functions read POINTWISE at row `i`
(`LiborSDEFunction.sigma/__call__`, `ForwardMarketSDEFunction.sigma/__call__`, the pointwise lines of
`MarkovChainLevyLiborModel.sde_drift`).  Opt-in per function through fn["rows"] = {python text of a 1-d array: Coq list};
the generated definition has a parameter `i : Z` (the row) and one scalar per (m, d) / (m,) array.  Fail-closed: every
construct that is not listed here falls through to py2coq, which refuses what it does not know.

  arr[1:]                 -> (qnth L (Z.add i 1))        arr[:-1] -> (qnth L i)          (arr in fn["rows"])
  g[:, np.newaxis]        -> g                            (a per-row scalar broadcast over the columns)
  e.copy() e.T e.flatten()-> e                            (pointwise reading: shape-only operations)
  np.asarray(e, dtype=float) -> e
  res[np.argwhere(mask)] = v  -> let res := if mask then v else res     (mask a comparison over row arrays)
The shapes themselves (which array is (m,d), (m,1), (m,)) are pinned by the correspondence on real objects.
"""
import ast

import py2coq
from py2coq import Unsupported, src

SHAPE_ONLY_ATTRS = {"T"}
SHAPE_ONLY_CALLS = {"copy", "flatten"}


class Ext:
    def __init__(self, ctx, spec, fn):
        self.fn = fn
        self.rows = dict(fn.get("rows", {}))
        self.active = "rows" in fn

    def _is_slice(self, s, lower, upper):
        def val(x):
            if x is None:
                return None
            if isinstance(x, ast.Constant) and isinstance(x.value, int):
                return x.value
            if isinstance(x, ast.UnaryOp) and isinstance(x.op, ast.USub) and isinstance(x.operand, ast.Constant):
                return -x.operand.value
            return "?"
        return isinstance(s, ast.Slice) and s.step is None and val(s.lower) == lower and val(s.upper) == upper

    def expr(self, ctx, e):
        if not self.active:
            return None
        if isinstance(e, ast.Subscript):
            base = src(e.value)
            if base in self.rows:
                if self._is_slice(e.slice, 1, None):
                    return f"(qnth {self.rows[base]} (Z.add i 1))"
                if self._is_slice(e.slice, None, -1):
                    return f"(qnth {self.rows[base]} i)"
                if isinstance(e.slice, ast.Slice):
                    raise Unsupported(f"slice {src(e)} (only [1:] and [:-1] are read pointwise)")
                return None            # integer subscripts: py2coq's `arrays`
            # g[:, np.newaxis]: a per-row scalar broadcast over the columns
            if isinstance(e.slice, ast.Tuple) and len(e.slice.elts) == 2 and self._is_slice(e.slice.elts[0], None, None) \
                    and src(e.slice.elts[1]) == "np.newaxis" and isinstance(e.value, ast.Name):
                return py2coq.expr(ctx, e.value)
            return None
        if isinstance(e, ast.Attribute) and e.attr in SHAPE_ONLY_ATTRS and not src(e) in ctx.attrs:
            return py2coq.expr(ctx, e.value)
        if isinstance(e, ast.Call):
            f = e.func
            if isinstance(f, ast.Attribute) and f.attr in SHAPE_ONLY_CALLS and not e.args and not e.keywords:
                return py2coq.expr(ctx, f.value)
            if src(f) == "np.asarray" and len(e.args) == 1 and [k.arg for k in e.keywords] == ["dtype"] \
                    and src(e.keywords[0].value) == "float":
                a = e.args[0]
                if src(a) in self.rows:
                    return self.rows[src(a)]
                return py2coq.expr(ctx, a)
        if isinstance(e, (ast.Name, ast.Attribute)) and src(e) in self.rows:
            return self.rows[src(e)]
        return None

    def bexpr(self, ctx, e):
        return None

    def stmt(self, ctx, s, rest, tail, on_raise):
        if not self.active:
            return None
        # tenors = np.asarray(self.tenors, dtype=float): a local name for a row array
        if isinstance(s, ast.Assign) and len(s.targets) == 1 and isinstance(s.targets[0], ast.Name) \
                and isinstance(s.value, ast.Call) and src(s.value.func) == "np.asarray" and len(s.value.args) == 1 \
                and src(s.value.args[0]) in self.rows:
            self.expr(ctx, s.value)    # validates the keyword
            self.rows[s.targets[0].id] = self.rows[src(s.value.args[0])]
            return py2coq.block(ctx, rest, tail, on_raise)
        # res[np.argwhere(mask)] = v
        if isinstance(s, ast.Assign) and len(s.targets) == 1 and isinstance(s.targets[0], ast.Subscript):
            t = s.targets[0]
            if isinstance(t.value, ast.Name) and isinstance(t.slice, ast.Call) and src(t.slice.func) == "np.argwhere" \
                    and len(t.slice.args) == 1 and not t.slice.keywords and isinstance(t.slice.args[0], ast.Compare):
                n = ctx.rename.get(t.value.id, t.value.id)
                mask = py2coq.bexpr(ctx, t.slice.args[0])
                return f"let {n} := (if {mask} then {py2coq.expr(ctx, s.value)} else {n}) in\n  {py2coq.block(ctx, rest, tail, on_raise)}"
        return None


def _params(fn):
    return " ".join(f"({n} : {t})" for n, t in fn["args"])


def emit_rhs(tree, spec, fn) -> str:
    """emitter: the right-hand side of the single assignment to local fn["target"] in fn["py"] (or, with target "return", the
    expression of its last `return`), translated with the pointwise plug-in; every name the expression reads must be declared
    (args / attrs / subst / calls), and the statement must still exist exactly once."""
    node = py2coq.find_function(tree, fn["py"])
    if fn["target"] == "return":
        last = node.body[-1]
        if not isinstance(last, ast.Return) or last.value is None:
            raise Unsupported(f"{fn['py']}: last statement is not a return")
        value = last.value
    else:
        hits = [s for s in ast.walk(node) if isinstance(s, ast.Assign) and len(s.targets) == 1
                and isinstance(s.targets[0], ast.Name) and s.targets[0].id == fn["target"]]
        if len(hits) != 1:
            raise Unsupported(f"{fn['py']}: expected exactly one assignment to {fn['target']}, found {len(hits)}")
        value = hits[0].value
    ctx = py2coq.Ctx(spec, fn)
    ctx.ext = Ext(ctx, spec, fn)
    allowed = {n for n, _ in fn["args"]} | {"self", "np"}
    for n in ast.walk(value):
        if isinstance(n, ast.Name) and n.id not in allowed and n.id not in ctx.consts \
                and not any(n.id in k for k in list(ctx.subst) + list(ctx.calls) + list(ctx.attrs) + list(ctx.ext.rows)):
            raise Unsupported(f"{fn['py']}: expression for {fn['target']} reads undeclared name {n.id}")
    return f"Definition {fn['coq']} {_params(fn)} : {fn['ret']} :=\n  {py2coq.expr(ctx, value)}.\n"

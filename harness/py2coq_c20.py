"""py2coq plug-in of C20 (hooked through the generic  fn["emitter"] = "py2coq_c20:<function>"  of py2coq.translate_function).

Two fail-closed emitters for rpylib/model/utils.py:

  default_table : the module-level dict  default_calibration = {ModelType.X: DefaultCalibrationConfiguration("field", (lo, hi)), ...}
                  becomes, per model type X listed in fn["classes"] = {X: (prefix, FieldType, {python field name: Coq constructor})},
                      Definition dc_<prefix>_field : FieldType := <constructor>.
                      Definition dc_<prefix>_lo : Q := lo.      Definition dc_<prefix>_hi : Q := hi.
                  Refused: a key set other than fn["classes"], a field name the record model does not know, a namedtuple whose
                  field order is not (parameter, parameter_interval), non-literal bounds.

  heap_program  : the BODIES of calibrate_model_parameter (with its inner calibration_fun), calibrate_model_parameter_to_atm_call
                  and run_default_calibration, statement by statement, as a program over the heap operations of
                  coq/Model/ParamsHeap.v (op_deepcopy / op_setattr / op_initialisation / op_model = the exponential model's
                  constructor, which may refuse the parameters / op_price / op_brentq_ab = f(a), f(b), zero end, sign test -> ValueError,
                  further trial values; obind = exception propagation).  Every statement must match one of the patterns below (on ast.unparse text); anything else --
                  a dropped deepcopy, a swapped setattr/initialisation, a model built on another object, a keyword that is no
                  longer forwarded (bs_sigma), an extra statement -- is refused or yields a different program, which breaks the
                  proof  gen_* = hand model  in Proofs/C20_Calib.v.
"""
from __future__ import annotations

import ast
import re

from py2coq import Unsupported, Ctx, expr, find_function


def _body(node):
    return [s for s in node.body if not (isinstance(s, ast.Expr) and isinstance(s.value, ast.Constant) and isinstance(s.value.value, str))]


def _u(node) -> str:
    return ast.unparse(node)


# ----------------------------------------------------------------------------- default_calibration table
def default_table(tree, spec, fn) -> str:
    classes = fn["classes"]
    nt = tab = None
    for node in tree.body:
        if isinstance(node, ast.Assign) and len(node.targets) == 1 and isinstance(node.targets[0], ast.Name):
            if node.targets[0].id == "DefaultCalibrationConfiguration":
                nt = node.value
            if node.targets[0].id == "default_calibration":
                if tab is not None:
                    raise Unsupported("default_calibration is assigned twice")
                tab = node.value
    if nt is None or _u(nt) != "namedtuple('DefaultCalibrationConfiguration', 'parameter parameter_interval')":
        raise Unsupported(f"DefaultCalibrationConfiguration is not namedtuple(..., 'parameter parameter_interval'): {_u(nt) if nt else None}")
    if not isinstance(tab, ast.Dict):
        raise Unsupported("default_calibration is not a dict literal")
    # later mutation of the table (default_calibration[...] = ..., .update, del) is refused
    for node in ast.walk(tree):
        if isinstance(node, (ast.Assign, ast.AugAssign, ast.Delete)):
            tg = node.targets if not isinstance(node, ast.AugAssign) else [node.target]
            if any(isinstance(t, ast.Subscript) and _u(t.value) == "default_calibration" for t in tg):
                raise Unsupported("default_calibration is modified after its definition")
        if isinstance(node, ast.Call) and re.match(r"default_calibration\.(update|pop|clear|setdefault|popitem)$", _u(node.func)):
            raise Unsupported("default_calibration is modified after its definition")
    ctx = Ctx(spec, fn)
    seen, out = set(), []
    for k, v in zip(tab.keys, tab.values):
        m = re.fullmatch(r"ModelType\.(\w+)", _u(k)) if k is not None else None
        if not m:
            raise Unsupported(f"default_calibration key {_u(k) if k is not None else '**'}")
        name = m[1]
        if name not in classes:
            raise Unsupported(f"default_calibration has an entry for {name}, which the calibration model does not know")
        if name in seen:
            raise Unsupported(f"default_calibration has two entries for {name}")
        seen.add(name)
        prefix, fty, fields = classes[name]
        if not (isinstance(v, ast.Call) and _u(v.func) == "DefaultCalibrationConfiguration" and len(v.args) == 2 and not v.keywords
                and isinstance(v.args[0], ast.Constant) and isinstance(v.args[0].value, str)
                and isinstance(v.args[1], ast.Tuple) and len(v.args[1].elts) == 2):
            raise Unsupported(f"default_calibration[{name}] is not DefaultCalibrationConfiguration('field', (lo, hi)): {_u(v)[:80]}")
        field = v.args[0].value
        if field not in fields:
            raise Unsupported(f"default_calibration[{name}] calibrates {field!r}, not a primary field of the record model")
        for b in v.args[1].elts:
            core = b.operand if isinstance(b, ast.UnaryOp) and isinstance(b.op, ast.USub) else b
            if not (isinstance(core, ast.Constant) and isinstance(core.value, (int, float)) and not isinstance(core.value, bool)):
                raise Unsupported(f"default_calibration[{name}]: bound {_u(b)} is not a numeric literal")
        lo, hi = (expr(ctx, b) for b in v.args[1].elts)
        out.append(f"Definition dc_{prefix}_field : {fty} :=\n  {fields[field]}.\n")
        out.append(f"Definition dc_{prefix}_lo : Q :=\n  {lo}.\n")
        out.append(f"Definition dc_{prefix}_hi : Q :=\n  {hi}.\n")
    if seen != set(classes):
        raise Unsupported(f"default_calibration covers {sorted(seen)}, the calibration model knows {sorted(classes)}")
    return "\n".join(out)


# ----------------------------------------------------------------------------- bodies of the calibration helpers
MODEL_CTOR = r"(?:model_cls|type\(model\))\(spot=model\.spot, r=model\.r, d=model\.d, parameters=(\w+)\)"
RENAME = {"price": "price_"}          # `price` is the Section variable of the heap operations


class _Env:
    def __init__(self, field_exprs, values=(), addrs=()):
        self.field_exprs = set(field_exprs)   # python expressions denoting the calibrated field
        self.values = set(values)             # names bound to a float that may be assigned
        self.addrs = set(addrs)               # names bound to a Parameters object (heap address)
        self.models = set()                   # names bound to a model object (= address of its parameters)
        self.prices = set()                   # names bound to a COS price
        self.model_cls = False
        self.interval = False
        self.inner = None                     # (name, address it captured)
        self.result = None                    # name bound to brentq's return value


def _n(x):
    return RENAME.get(x, x)


def _prog(stmts, env, kind, inner_out):
    """kind: 'objective' (inner calibration_fun: option (Heap * Q)), 'calibrate' (option Heap), 'default' (option (Heap * nat))"""
    if not stmts:
        raise Unsupported(f"{kind}: the body ends without a return")
    s, rest = stmts[0], stmts[1:]
    t = _u(s)

    def cont():
        return _prog(rest, env, kind, inner_out)

    m = re.fullmatch(r"(\w+) = copy\.deepcopy\(model\.levy_model\.parameters\)", t)
    if m:
        if m[1] in env.addrs:
            raise Unsupported(f"{kind}: {m[1]} is bound twice")
        env.addrs.add(m[1])
        return f"let '(st, {m[1]}) := op_deepcopy st model_parameters in\n  {cont()}"
    m = re.fullmatch(r"(\w+) = model\.levy_model\.parameters", t)
    if m:      # no copy: the working object IS the input object
        env.addrs.add(m[1])
        return f"let {m[1]} := model_parameters in\n  {cont()}"
    if t == "model_cls = type(model)" and kind == "calibrate":
        env.model_cls = True
        return cont()
    m = re.fullmatch(r"(\w+)\.__setattr__\((.+), (\w+)\)", t) or re.fullmatch(r"setattr\((\w+), (.+), (\w+)\)", t)
    if m:
        if m[1] not in env.addrs or m[2] not in env.field_exprs or m[3] not in env.values:
            raise Unsupported(f"{kind}: assignment {t[:80]} (object, field or value not understood)")
        return f"obind (op_setattr st {m[1]} parameter {m[3]}) (fun st =>\n  {cont()})"
    m = re.fullmatch(r"(\w+)\.initialisation\(\)", t)
    if m:
        if m[1] not in env.addrs:
            raise Unsupported(f"{kind}: {t}: unknown object")
        return f"obind (op_initialisation st {m[1]}) (fun st =>\n  {cont()})"
    m = re.fullmatch(r"(\w+) = " + MODEL_CTOR, t)
    if m:
        if m[2] not in env.addrs or ("model_cls" in t and not env.model_cls):
            raise Unsupported(f"{kind}: model built on an unknown object: {t[:80]}")
        env.models.add(m[1])
        # the constructor of the exponential model may refuse the parameters object (ValueError): op_model -> None
        return f"obind (op_model st {m[2]}) (fun {m[1]} =>\n  {cont()})"
    m = re.fullmatch(r"(\w+) = COSPricer\((\w+)\)\.price\(product=product\)", t)
    if m and kind == "objective":
        if m[2] not in env.models:
            raise Unsupported(f"{kind}: price of an unknown model: {t[:80]}")
        env.prices.add(m[1])
        return f"let {_n(m[1])} := op_price st {m[2]} in\n  {cont()}"
    m = re.fullmatch(r"return float\(np\.squeeze\((\w+) - market_price\)\)", t)
    if m and kind == "objective":
        if rest or m[1] not in env.prices:
            raise Unsupported(f"{kind}: {t[:80]}")
        return f"Some (st, {_n(m[1])} - market_price)"
    if isinstance(s, ast.FunctionDef) and kind == "calibrate":
        a = s.args
        if env.inner or [x.arg for x in a.args] != ["value"] or a.vararg or a.kwarg or a.kwonlyargs or a.defaults or s.decorator_list:
            raise Unsupported(f"{kind}: inner function {s.name}: unsupported signature")
        if len(env.addrs) != 1:
            raise Unsupported(f"{kind}: inner function {s.name} may capture exactly one parameter object, found {sorted(env.addrs)}")
        q = next(iter(env.addrs))
        e2 = _Env(env.field_exprs, values={"value"}, addrs={q})
        e2.model_cls = env.model_cls
        for n in ast.walk(s):
            if isinstance(n, (ast.Nonlocal, ast.Global)):
                raise Unsupported(f"{kind}: inner function declares nonlocal/global names")
        body = _prog(_body(s), e2, "objective", inner_out)
        inner_out.append(f"Definition gen_calibration_fun ({q} : nat) (parameter : Field) (market_price : Q) (st : Heap Rec) (value : Q) : option (Heap Rec * Q) :=\n  {body}.\n")
        env.inner = (s.name, q)
        return cont()
    if t in ("a, b = parameter_interval", "(a, b) = parameter_interval") and kind == "calibrate":
        env.interval = True
        return f"let '(a, b) := parameter_interval in\n  {cont()}"
    if isinstance(s, ast.Try) and kind == "calibrate":
        if not env.inner or not env.interval or s.orelse or s.finalbody or len(s.body) != 1 or len(s.handlers) != 1:
            raise Unsupported(f"{kind}: try statement of an unexpected shape")
        m = re.fullmatch(r"(\w+) = scipy\.optimize\.brentq\(f=(\w+), a=a, b=b\)", _u(s.body[0]))
        h = s.handlers[0]
        if not m or m[2] != env.inner[0]:
            raise Unsupported(f"{kind}: root finder call {_u(s.body[0])[:80]}")
        if not (h.type is not None and _u(h.type) == "ValueError" and len(h.body) == 1 and isinstance(h.body[0], ast.Raise)
                and h.body[0].exc is not None and _u(h.body[0].exc).startswith("ValueError(")):
            raise Unsupported(f"{kind}: the handler around brentq must re-raise ValueError")
        env.result = m[1]
        if len(rest) != 1 or _u(rest[0]) != f"return {m[1]}":
            raise Unsupported(f"{kind}: brentq's value must be returned as is")
        # brentq evaluates f(a), f(b), returns at a zero end, raises ValueError on equal strict signs (re-raised as ValueError by the
        # handler checked above), then iterates over trial values of its choosing: op_brentq_ab
        return f"op_brentq_ab (gen_calibration_fun {env.inner[1]} parameter market_price) st a b xs"
    if t == "def_calibration = default_calibration[model.model_type]" and kind == "default":
        env.field_exprs.add("def_calibration.parameter")
        return cont()
    m = re.fullmatch(r"(\w+) = calibrate_model_parameter_to_atm_call\(model=model, parameter=def_calibration\.parameter, "
                     r"parameter_interval=def_calibration\.parameter_interval, maturity=maturity, bs_sigma=bs_sigma\)", t)
    if m and kind == "default":
        if "def_calibration.parameter" not in env.field_exprs:
            raise Unsupported(f"{kind}: def_calibration used before it is looked up")
        env.values.add(m[1])
        return (f"obind (gen_calibrate_model_parameter st model_parameters parameter parameter_interval market_price xs) (fun st =>\n  "
                f"let {m[1]} := brentq_value in\n  {cont()})")
    m = re.fullmatch(r"return (\w+)", t)
    if m and kind == "default":
        if rest or m[1] not in env.models:
            raise Unsupported(f"{kind}: {t}: not a model built in this function")
        return f"Some (st, {m[1]})"
    raise Unsupported(f"{kind}: statement outside the calibration subset: {t[:100]}")


ATM_BODY = [
    "strike = atm_strike(model=model)",
    "call = Product(payoff_underlying=Spot(), payoff=Vanilla(strike=strike, payoff_type=PayoffType.CALL), maturity=maturity)",
    "bs_model = create_exponential_of_levy_model(ModelType.BLACKSCHOLES)(spot=model.spot, r=model.r, d=model.d, sigma=bs_sigma)",
    "bs_price = CFBlackScholes(bs_model).call(strike=model.spot, maturity=maturity)",
    "return calibrate_model_parameter(model=model, parameter=parameter, parameter_interval=parameter_interval, product=call, market_price=bs_price)",
]


def _sig(node, want):
    a = node.args
    got = [x.arg for x in a.args]
    if got != want or a.vararg or a.kwarg or a.kwonlyargs or node.decorator_list:
        raise Unsupported(f"{node.name}: signature changed: {got} (expected {want})")


CLS_ARGS = "Rec Field set initialisation price dflt model_ok"     # the Section variables of the generated module (specs/C20.py)
OLD_ARGS = "Rec Field set initialisation price dflt"
NOTATIONS = ("".join(f"Notation {op} := (ParamsHeap.{op} {OLD_ARGS}).\n" for op in ("op_deepcopy", "op_setattr", "op_initialisation", "op_price"))
             + "".join(f"Notation {op} := (ParamsHeap.{op} {CLS_ARGS}).\n" for op in ("op_model", "op_brentq_ab")))


def heap_program(tree, spec, fn) -> str:
    cal = find_function(tree, "calibrate_model_parameter")
    atm = find_function(tree, "calibrate_model_parameter_to_atm_call")
    dfl = find_function(tree, "run_default_calibration")
    _sig(cal, ["model", "parameter", "parameter_interval", "product", "market_price"])
    _sig(atm, ["model", "parameter", "parameter_interval", "maturity", "bs_sigma"])
    _sig(dfl, ["model", "maturity", "bs_sigma"])
    # the ATM entry point: target = Black-Scholes price of the ATM call for bs_sigma (an arbitrary market_price in the model),
    # then calibrate_model_parameter on the SAME model / parameter / interval
    got = [_u(s) for s in _body(atm)]
    if got != ATM_BODY:
        diff = next((g for g, w in zip(got, ATM_BODY) if g != w), "number of statements")
        raise Unsupported(f"calibrate_model_parameter_to_atm_call: body changed at: {diff[:100]}")
    if " ".join(v for v, _ in spec.get("section", [])) != CLS_ARGS:
        raise Unsupported("heap_program: the Section variables of the module must be " + CLS_ARGS)
    out = [NOTATIONS]
    body = _prog(_body(cal), _Env({"parameter"}), "calibrate", out)
    out.append("Definition gen_calibrate_model_parameter (st : Heap Rec) (model_parameters : nat) (parameter : Field) (parameter_interval : Q * Q) (market_price : Q) "
               f"(xs : list Q) : option (Heap Rec) :=\n  {body}.\n")
    body = _prog(_body(dfl), _Env(set()), "default", out)
    out.append("Definition gen_run_default_calibration (st : Heap Rec) (model_parameters : nat) (parameter : Field) (parameter_interval : Q * Q) (market_price : Q) "
               f"(xs : list Q) (brentq_value : Q) : option (Heap Rec * nat) :=\n  {body}.\n")
    return "\n".join(out)

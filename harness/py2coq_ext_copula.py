"""py2coq plug-in for the rectangle-mass / credit-intensity functions of the Levy-copula model
(C12, C19).  Loaded through the generic hook  spec["ext"] = "py2coq_ext_copula"  of py2coq.py.
Everything here is fail-closed: a node the plug-in does not recognise falls through to the core
translator (which raises Unsupported for what it does not know).

What it adds (all of it is only active for specs that name this plug-in):

 * an ABSTRACT numeric domain: results are of the carrier of a Section variable `N : Num`
   (Base/ExtNum.v) with the operations named in spec["absdom"] (zero/add/sub; no literals other
   than 0), coordinates are extended numbers `ext N` and are only ever compared with 0
   (`a < 0 < b` -> xlt0/xgt0, `a < 0 <= b` -> xlt0/xge0: the GLOBAL definitions of Base/ExtNum.v, so
   that a change of the comparison in the source changes the generated term) or passed on;
 * Python tuples of coordinates  -> Coq `list X`;  `a1, a2 = a` -> `match a with [a1; a2] => .. | _ => 0 end`
   (Python raises on a length mismatch; the model returns 0; every theorem carries the shape hypotheses);
 * index lists `indices` (default None)  -> `idx` = option (list nat):  `is None`, `is not None`,
   `len(indices) == k`, `len(indices) < k`, `indices[0]`, list displays `[i1, i2]` -> `Some [i1; i2]`;
 * `u = partial(f, x)`  -> `let u := f x in`  and later calls `u(arg)`;
 * keyword arguments of calls to translated functions, placed by the declared parameter order
   (spec["kwparams"] = {callee text: [parameter names]});
 * an `if` without `return` joins only the *scalar* variables it assigns (functions bound by
   `partial` inside a branch stay local to that branch; a later use would be an unbound name in Coq).

 * for CFLevyCopulaModel._theta (numpy loops over a static dimension): `unroll_theta` is a tiny
   symbolic evaluator for exactly the statement shapes of that function (see its docstring).
"""
from __future__ import annotations

import ast

from py2coq import Unsupported, src, assigned, always_returns
import py2coq as core


class Ext:
    def __init__(self, ctx, spec, fn):
        self.fn = fn
        self.xlists = set(fn.get("xlists", []))      # names holding tuples of coordinates
        self.ilists = set(fn.get("ilists", []))      # names holding index lists (or None)
        self.coords = set(fn.get("coords", []))      # scalar coordinate names (compared with 0 only)
        self.kwparams = dict(spec.get("kwparams", {}))
        self.local_funs = set()
        ad = spec.get("absdom", {})
        self.zero = ad.get("zero", "tzero")
        self.xdflt = ad.get("xdflt", "xdflt")
        ctx.d = dict(add=ad.get("add", "tadd"), sub=ad.get("sub", "tsub"), neg=ad.get("neg", "tneg"), ty="T")   # nothing else exists

    # ------------------------------------------------------------------ expressions
    def expr(self, ctx, e):
        if isinstance(e, ast.Constant):
            if isinstance(e.value, int) and not isinstance(e.value, bool) and e.value == 0:
                return self.zero
            raise Unsupported(f"literal {e.value!r} in the abstract domain")
        if isinstance(e, ast.Tuple):
            return "[" + "; ".join(self.coord(ctx, x) for x in e.elts) + "]"
        if isinstance(e, ast.List):
            return "(Some [" + "; ".join(self.index(ctx, x) for x in e.elts) + "])"
        if isinstance(e, ast.Subscript):
            if isinstance(e.value, ast.Name) and isinstance(e.slice, ast.Constant) and isinstance(e.slice.value, int) \
                    and e.slice.value >= 0:
                if e.value.id in self.xlists:
                    return f"(nth {e.slice.value} {e.value.id} {self.xdflt})"
                if e.value.id in self.ilists:
                    return f"(inth {e.slice.value} {e.value.id})"
            raise Unsupported(f"subscript {src(e)}")
        if isinstance(e, ast.BinOp) and not isinstance(e.op, (ast.Add, ast.Sub)):
            raise Unsupported(f"operator in the abstract domain: {src(e)}")
        if isinstance(e, ast.Call):
            f = src(e.func)
            if f == "partial":
                return self.partial(ctx, e)
            if isinstance(e.func, ast.Name) and e.func.id in self.local_funs:
                if e.keywords:
                    raise Unsupported(f"keywords in {src(e)}")
                return "(" + " ".join([e.func.id] + [core.expr(ctx, a) for a in e.args]) + ")"
            if f in ctx.calls:
                args = [core.expr(ctx, a) for a in e.args]
                if e.keywords:
                    names = self.kwparams.get(f)
                    if names is None:
                        raise Unsupported(f"keyword arguments of undeclared callee {f}")
                    for kw in e.keywords:
                        if kw.arg is None or kw.arg not in names or names.index(kw.arg) != len(args):
                            raise Unsupported(f"keyword argument out of positional order in {src(e)}")
                        args.append(core.expr(ctx, kw.value))
                return "(" + " ".join([ctx.calls[f]] + args) + ")"
            raise Unsupported(f"call {src(e)}")
        return None

    def coord(self, ctx, x):
        if isinstance(x, ast.Name):
            return x.id
        raise Unsupported(f"coordinate expression {src(x)}")

    def index(self, ctx, x):
        if isinstance(x, ast.Name):
            return x.id
        if isinstance(x, ast.Constant) and isinstance(x.value, int) and x.value >= 0:
            return f"{x.value}%nat"
        raise Unsupported(f"index expression {src(x)}")

    def partial(self, ctx, e):
        if e.keywords or len(e.args) < 2:
            raise Unsupported(f"partial: {src(e)}")
        f = src(e.args[0])
        if f not in ctx.attrs:
            raise Unsupported(f"partial of undeclared function {f}")
        return "(" + " ".join([ctx.attrs[f]] + [core.expr(ctx, a) for a in e.args[1:]]) + ")"

    # ------------------------------------------------------------------ booleans
    def bexpr(self, ctx, e):
        if isinstance(e, ast.Compare):
            # a < 0 < b   /   a < 0 <= b      (coordinates against the literal 0 only)
            if len(e.ops) == 2 and isinstance(e.left, ast.Name) and isinstance(e.comparators[1], ast.Name) \
                    and isinstance(e.comparators[0], ast.Constant) and e.comparators[0].value == 0 \
                    and not isinstance(e.comparators[0].value, bool) \
                    and e.left.id in self.coords and e.comparators[1].id in self.coords and isinstance(e.ops[0], ast.Lt):
                if isinstance(e.ops[1], ast.Lt):
                    return f"(andb (xlt0 {e.left.id}) (xgt0 {e.comparators[1].id}))"
                if isinstance(e.ops[1], ast.LtE):
                    return f"(andb (xlt0 {e.left.id}) (xge0 {e.comparators[1].id}))"
            if len(e.ops) == 1 and isinstance(e.left, ast.Name) and e.left.id in self.ilists \
                    and isinstance(e.comparators[0], ast.Constant) and e.comparators[0].value is None:
                if isinstance(e.ops[0], ast.Is):
                    return f"(is_none {e.left.id})"
                if isinstance(e.ops[0], ast.IsNot):
                    return f"(is_some {e.left.id})"
            if len(e.ops) == 1 and isinstance(e.left, ast.Call) and src(e.left.func) == "len" and len(e.left.args) == 1 \
                    and isinstance(e.left.args[0], ast.Name) and e.left.args[0].id in self.ilists \
                    and isinstance(e.comparators[0], ast.Constant) and isinstance(e.comparators[0].value, int):
                k = e.comparators[0].value
                n = e.left.args[0].id
                if isinstance(e.ops[0], ast.Eq):
                    return f"(Nat.eqb (olen {n}) {k})"
                if isinstance(e.ops[0], ast.Lt):
                    return f"(Nat.ltb (olen {n}) {k})"
            raise Unsupported(f"comparison {src(e)}")
        return None

    # ------------------------------------------------------------------ statements
    def stmt(self, ctx, s, rest, tail, on_raise):
        if isinstance(s, ast.Assign) and len(s.targets) == 1:
            t, v = s.targets[0], s.value
            if isinstance(t, ast.Name) and isinstance(v, ast.Call) and src(v.func) == "partial":
                self.local_funs.add(t.id)
                return f"let {t.id} := {self.partial(ctx, v)} in\n  {core.block(ctx, rest, tail, on_raise)}"
            if isinstance(t, ast.Tuple) and all(isinstance(x, ast.Name) for x in t.elts) and isinstance(v, ast.Name):
                names = "; ".join(x.id for x in t.elts)
                if v.id in self.xlists:
                    self.coords.update(x.id for x in t.elts)
                    return f"match {v.id} with\n  | [{names}] =>\n  {core.block(ctx, rest, tail, on_raise)}\n  | _ => {self.zero} end"
                if v.id in self.ilists:
                    return f"match {v.id} with\n  | Some [{names}] =>\n  {core.block(ctx, rest, tail, on_raise)}\n  | _ => {self.zero} end"
                raise Unsupported(f"tuple assignment from {v.id}")
        if isinstance(s, ast.If):
            body_ret = always_returns(s.body)
            else_ret = always_returns(s.orelse) if s.orelse else False
            if not body_ret and not else_ret:
                local = {t.id for n in ast.walk(s) if isinstance(n, ast.Assign) and isinstance(n.value, ast.Call)
                         and src(n.value.func) == "partial" for t in n.targets if isinstance(t, ast.Name)}
                vs = [v for v in assigned([s]) if v not in local]
                if not vs:
                    raise Unsupported("if without effect")
                join = "(" + ", ".join(vs) + ")" if len(vs) > 1 else vs[0]
                pat = "'" + join if len(vs) > 1 else join
                test = core.bexpr(ctx, s.test)
                return (f"let {pat} := (if {test}\n   then {core.block(ctx, s.body, join, on_raise)}\n"
                        f"   else {core.block(ctx, s.orelse, join, on_raise)}) in\n  {core.block(ctx, rest, tail, on_raise)}")
        return None


# --------------------------------------------------------------------------------------------
# CFLevyCopulaModel._theta: numpy code over a *static* dimension.  unroll_theta(tree, dim)
# evaluates the function body symbolically for dim in {2, 3} and returns the Gallina body.
# Only the statement shapes listed below are accepted (anything else -> Unsupported):
#   dim = <self...dimension()>                      -> the static dimension
#   if dim > 3: raise ...   / if dim != len(levels_a): raise ... / if any(a >= 0 for a in levels_a): raise ...
#        -> static tests are decided, the `any(a >= 0 ...)` guard becomes  if (orb ..) then terr else ..
#   marginal_tail_integral = self.levy_copula_model.margin_tail_integral      (alias)
#   diag = np.array([model.mass(*interval_I(ai)) for model, ai in zip(self.levy_copula_model.models, levels_a)])
#        -> [M1 i a_i]   (M1 i a = models[i].mass(*interval_I(a)))
#   lambda_matrix = np.diag(diag)                   -> dim x dim symbolic matrix
#   for i in range(dim): for j in range(i + 1, dim): x = levels_a[i], levels_a[j];
#        lambda_matrix[i, j] = -marginal_tail_integral(indices=[i, j], x=x)
#   theta = np.sum(lambda_matrix)                   -> row-major sum, zeros dropped (x + 0.0 = x exactly; numpy's pairwise
#                                                      summation order is not modelled: exact only where + is associative, i.e. dyadic data)
#   if dim == 3: theta -= self.levy_copula_model.tail_integrals(x=levels_a)
#   return theta
# --------------------------------------------------------------------------------------------
def _const_int(node, env):
    if isinstance(node, ast.Constant) and isinstance(node.value, int):
        return node.value
    if isinstance(node, ast.Name) and isinstance(env.get(node.id), int):
        return env[node.id]
    if isinstance(node, ast.BinOp) and isinstance(node.op, ast.Add):
        return _const_int(node.left, env) + _const_int(node.right, env)
    raise Unsupported(f"static integer expected: {src(node)}")


def unroll_theta(node: ast.FunctionDef, dim: int, names: dict) -> str:
    """names: M1 (marginal mass below a level), UI (margin tail integral), UF (tail_integrals), terr."""
    args = [a.arg for a in node.args.args if a.arg != "self"]
    if args != ["levels_a"]:
        raise Unsupported(f"_theta signature changed: {args}")
    A = [f"a{k + 1}" for k in range(dim)]
    env: dict = {}
    guards: list[str] = []
    theta = None

    def level(e):
        if isinstance(e, ast.Subscript) and src(e.value) == "levels_a":
            return A[_const_int(e.slice, env)]
        raise Unsupported(f"level expression {src(e)}")

    def add(t, u):
        return u if t is None else f"({names.get('add', 'tadd')} {t} {u})"

    def run(stmts):
        nonlocal theta
        for s in stmts:
            if isinstance(s, ast.Expr) and isinstance(s.value, ast.Constant) and isinstance(s.value.value, str):
                continue
            if isinstance(s, ast.Assign) and len(s.targets) == 1:
                t, v = s.targets[0], s.value
                if isinstance(t, ast.Name) and t.id == "dim" and src(v) == "self.levy_copula_model.dimension()":
                    env["dim"] = dim
                    continue
                if isinstance(t, ast.Name) and src(v) == "self.levy_copula_model.margin_tail_integral":
                    env[t.id] = ("alias", "UI")
                    continue
                if isinstance(t, ast.Name) and t.id == "diag" and src(v) == (
                        "np.array([model.mass(*interval_I(ai)) for model, ai in zip(self.levy_copula_model.models, levels_a)])"):
                    env["diag"] = ("vec", [f"({names['M1']} {k}%nat {A[k]})" for k in range(dim)])
                    continue
                if isinstance(t, ast.Name) and src(v) == "np.diag(diag)" and env.get("diag", (None,))[0] == "vec":
                    vec = env["diag"][1]
                    env[t.id] = ("mat", [[vec[i] if i == j else None for j in range(dim)] for i in range(dim)])
                    continue
                if isinstance(t, ast.Name) and t.id == "x" and isinstance(v, ast.Tuple):
                    env["x"] = ("xs", [level(c) for c in v.elts])
                    continue
                if isinstance(t, ast.Subscript) and isinstance(t.value, ast.Name) and env.get(t.value.id, (None,))[0] == "mat" \
                        and isinstance(t.slice, ast.Tuple) and len(t.slice.elts) == 2:
                    i, j = (_const_int(c, env) for c in t.slice.elts)
                    if not (isinstance(v, ast.UnaryOp) and isinstance(v.op, ast.USub) and isinstance(v.operand, ast.Call)):
                        raise Unsupported(f"matrix entry {src(v)}")
                    c = v.operand
                    if not (isinstance(c.func, ast.Name) and env.get(c.func.id) == ("alias", "UI") and not c.args
                            and [k.arg for k in c.keywords] == ["indices", "x"]):
                        raise Unsupported(f"matrix entry call {src(c)}")
                    ind, xs = c.keywords[0].value, c.keywords[1].value
                    if not (isinstance(ind, ast.List) and isinstance(xs, ast.Name) and env.get(xs.id, (None,))[0] == "xs"):
                        raise Unsupported(f"matrix entry arguments {src(c)}")
                    il = "; ".join(f"{_const_int(q, env)}%nat" for q in ind.elts)
                    env[t.value.id][1][i][j] = f"({names.get('neg', 'tneg')} ({names['UI']} (Some [{il}]) [{'; '.join(env[xs.id][1])}]))"
                    continue
                if isinstance(t, ast.Name) and t.id == "theta" and isinstance(v, ast.Call) and src(v.func) == "np.sum" \
                        and len(v.args) == 1 and isinstance(v.args[0], ast.Name) and env.get(v.args[0].id, (None,))[0] == "mat":
                    theta = None
                    for row in env[v.args[0].id][1]:
                        for ent in row:
                            if ent is not None:
                                theta = add(theta, ent)
                    continue
                raise Unsupported(f"_theta: assignment {src(s)[:90]}")
            if isinstance(s, ast.AugAssign) and isinstance(s.target, ast.Name) and s.target.id == "theta" \
                    and isinstance(s.op, ast.Sub) and src(s.value) == "self.levy_copula_model.tail_integrals(x=levels_a)":
                theta = f"({names.get('sub', 'tsub')} {theta} ({names['UF']} [{'; '.join(A)}]))"
                continue
            if isinstance(s, ast.For) and isinstance(s.target, ast.Name) and not s.orelse and isinstance(s.iter, ast.Call) \
                    and src(s.iter.func) == "range" and 1 <= len(s.iter.args) <= 2:
                lo = 0 if len(s.iter.args) == 1 else _const_int(s.iter.args[0], env)
                hi = _const_int(s.iter.args[-1], env)
                for k in range(lo, hi):
                    env[s.target.id] = k
                    run(s.body)
                continue
            if isinstance(s, ast.If) and not s.orelse:
                t = src(s.test)
                raises = len(s.body) == 1 and isinstance(s.body[0], ast.Raise)
                if raises and t == "dim > 3":
                    if dim > 3:
                        raise Unsupported("dimension > 3")
                    continue
                if raises and t == "dim != len(levels_a)":
                    continue      # the model takes exactly dim levels
                if raises and t == "any((a >= 0 for a in levels_a))":
                    guards.append("(" + " || ".join(f"xge0 {a}" for a in A) + ")%bool")
                    continue
                if not raises and t == "dim == 3":
                    if dim == 3:
                        run(s.body)
                    continue
                raise Unsupported(f"_theta: if {t}")
            if isinstance(s, ast.Return) and src(s.value) == "theta":
                return
            raise Unsupported(f"_theta: statement {src(s)[:90]}")
        return

    run(node.body)
    if theta is None:
        raise Unsupported("_theta: no result")
    body = theta
    for g in reversed(guards):
        body = f"if {g} then {names['terr']} else {body}"
    return body


def emit_theta(tree, spec, fn) -> str:
    """emitter for CFLevyModel._theta (dim 1) / CFLevyCopulaModel._theta (dim 2, 3): see unroll_theta."""
    node = core.find_function(tree, fn["py"])
    dim = fn["dim"]
    names = fn["names"]
    params = " ".join(f"(a{k + 1} : ext N)" for k in range(dim))
    if dim == 1:
        args = [a.arg for a in node.args.args if a.arg != "self"]
        body = [s for s in node.body if not (isinstance(s, ast.Expr) and isinstance(s.value, ast.Constant))]
        if args != ["level_a"] or len(body) != 2 or src(body[0]) != "theta = self.model.mass(*interval_I(level_a))" \
                or src(body[1]) != "return theta":
            raise Unsupported(f"{fn['py']}: body changed: {[src(s) for s in body]}")
        term = f"({names['M1']} 0%nat a1)"
    else:
        term = unroll_theta(node, dim, names)
    return f"Definition {fn['coq']} {params} : N :=\n  {term}.\n"


def emit_spread_fun(tree, spec, fn) -> str:
    """emitter for the objective of implied_cds_spread: the local assignments default_leg / fixed_leg and the
    returned expression of the nested `fun(spread)`; everything else of that method (brentq, bracket) is not modelled.
    theta and r become parameters (`theta = self._theta(..)`, `r = <model>.r` are checked to be present)."""
    node = core.find_function(tree, fn["py"])
    ctx = core.Ctx(spec, fn)
    want = fn["expect"]          # exact source text of the statements that bind theta and r
    stmts = [s for s in node.body if not (isinstance(s, ast.Expr) and isinstance(s.value, ast.Constant))]
    texts = [src(s) for s in stmts]
    for w in want:
        if w not in texts:
            raise Unsupported(f"{fn['py']}: expected statement `{w}` not found")
    lets = []
    inner = None
    for s in stmts:
        if isinstance(s, ast.Assign) and len(s.targets) == 1 and isinstance(s.targets[0], ast.Name) and s.targets[0].id in ("default_leg", "fixed_leg"):
            lets.append((s.targets[0].id, core.expr(ctx, s.value)))
        if isinstance(s, ast.FunctionDef) and s.name == "fun":
            inner = s
    if [n for n, _ in lets] != ["default_leg", "fixed_leg"] or inner is None:
        raise Unsupported(f"{fn['py']}: default_leg / fixed_leg / fun not found in the expected order")
    if [a.arg for a in inner.args.args] != ["spread"] or len(inner.body) != 1 or not isinstance(inner.body[0], ast.Return):
        raise Unsupported(f"{fn['py']}: objective function changed")
    uses = [n for n in texts if n.startswith("res = ")]
    if uses != ["res = scipy.optimize.brentq(f=fun, a=a, b=b)"] or texts[-1] != "return res":
        raise Unsupported(f"{fn['py']}: the root search changed: {uses}")
    ret = core.expr(ctx, inner.body[0].value)
    params = " ".join(f"({n} : {t})" for n, t in fn["args"])
    body = "".join(f"let {n} := {t} in\n  " for n, t in lets) + ret
    out = f"Definition {fn['coq']} {params} : {fn['ret']} :=\n  {body}.\n"
    for n, t in lets:   # the two legs as separate definitions (same terms)
        pre = "".join(f"let {m} := {u} in\n  " for m, u in lets if m != n and False)
        leg_params = " ".join(f"({a} : {ty})" for a, ty in fn["args"] if a not in ("spread", "pv"))
        out += f"\nDefinition {fn['coq']}_{n} {leg_params} : {fn['ret']} :=\n  {t}.\n"
    return out


def emit_threshold_fun(tree, spec, fn) -> str:
    """emitter for the objective of CFLevyModel.implied_cds_threshold:  fun(threshold) = cds_spread(threshold, R) - target  and its
    brentq bracket (-10, -h0); the root search itself is not modelled.  Every statement of the method is matched textually."""
    node = core.find_function(tree, fn["py"])
    args = [a.arg for a in node.args.args if a.arg != "self"]
    if args != ["cds_spread", "recovery_rate", "h0"]:
        raise Unsupported(f"{fn['py']}: signature changed: {args}")
    stmts = [s for s in node.body if not (isinstance(s, ast.Expr) and isinstance(s.value, ast.Constant))]
    texts = [src(s) for s in stmts]
    want = ["if h0 <= 0:\n    raise ValueError('expected strictly positive h0')",
            "def fun(threshold):\n    return self.cds_spread(level_a=threshold, recovery_rate=recovery_rate) - cds_spread",
            "a, b = (-10, -h0)", "res = scipy.optimize.brentq(f=fun, a=a, b=b)", "return res"]
    if texts != want:
        raise Unsupported(f"{fn['py']}: body changed: {texts}")
    c = fn["coq"]
    return (f"Definition {c} (target : R) (recovery_rate : R) (threshold : A) : R :=\n  (Rminus (cds_spread threshold recovery_rate) target).\n\n"
            f"Definition {c}_bracket (h0 : R) : R * R := (IZR (-10), Ropp h0).\n")

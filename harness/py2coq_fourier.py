"""Special py2coq emitters used by C18/C20 (dispatched from py2coq.translate_function on fn["kind"]).

All are fail-closed: any shape of the source other than the one described raises py2coq.Unsupported.

  kind "lambda_kw"    : the `lambda x: <cond>` passed as keyword fn["kw"] in
                          NAME = partial(f, kw=lambda x: ..., ...)            (module level), or in
                          def NAME(value): return partial(f, kw=lambda x: ..., ...)
                        becomes  Definition coq (value) (x) : bool := <cond>.
                        (tools/parameter.py: the constraint predicates)
  kind "class_guards" : the class-level declarations  field = NAME("field")  /  field = NAME(lit)("field")
                        of a Parameters class become  Definition <prefix><field> (x) : bool := guard x ;
                        a listed field without such a declaration is a plain attribute (guard = true);
                        a declaration for an unlisted field, or one whose storage key differs from the
                        attribute name, is refused.
  kind "assign_rhs"   : the right-hand side of the single assignment to fn["target"] inside function
                        fn["py"] becomes the body of the definition (sub-expressions may be bound with
                        `subst`, e.g. np.arange(n) -> the index at which the vector is read).
"""
from __future__ import annotations

import ast

import py2coq
from py2coq import Unsupported, Ctx, expr, bexpr, src, find_function


def _params(fn):
    return " ".join(f"({n} : {t})" for n, t in fn["args"])


def _kw_lambda(callnode, kw):
    if not isinstance(callnode, ast.Call):
        raise Unsupported(f"expected a call, found {src(callnode)[:60]}")
    for k in callnode.keywords:
        if k.arg == kw:
            if not isinstance(k.value, ast.Lambda):
                raise Unsupported(f"keyword {kw} is not a lambda")
            return k.value
    raise Unsupported(f"keyword {kw} not found in {src(callnode)[:60]}")


def lambda_kw(tree, spec, fn) -> str:
    name, kw = fn["py"], fn["kw"]
    outer = []
    lam = None
    for node in tree.body:
        if isinstance(node, ast.Assign) and len(node.targets) == 1 and isinstance(node.targets[0], ast.Name) \
                and node.targets[0].id == name:
            lam = _kw_lambda(node.value, kw)
        if isinstance(node, ast.FunctionDef) and node.name == name:
            body = [s for s in node.body if not (isinstance(s, ast.Expr) and isinstance(s.value, ast.Constant))]
            if len(body) != 1 or not isinstance(body[0], ast.Return):
                raise Unsupported(f"{name}: expected a single return")
            a = node.args
            if a.vararg or a.kwarg or a.kwonlyargs or a.defaults:
                raise Unsupported(f"{name}: unsupported signature")
            outer = [x.arg for x in a.args]
            lam = _kw_lambda(body[0].value, kw)
    if lam is None:
        raise Unsupported(f"{name}: not found")
    la = lam.args
    if la.vararg or la.kwarg or la.kwonlyargs or la.defaults:
        raise Unsupported(f"{name}: unsupported lambda signature")
    got = outer + [x.arg for x in la.args]
    want = [n for n, _ in fn["args"]]
    if got != want:
        raise Unsupported(f"{name}: parameters changed: {got} (expected {want})")
    ctx = Ctx(spec, fn)
    return f"Definition {fn['coq']} {_params(fn)} : bool :=\n  {bexpr(ctx, lam.body)}.\n"


def class_guards(tree, spec, fn) -> str:
    cls = next((n for n in tree.body if isinstance(n, ast.ClassDef) and n.name == fn["py"]), None)
    if cls is None:
        raise Unsupported(f"class {fn['py']} not found")
    ctx = Ctx(spec, fn)
    guards = fn["guards"]
    ty = ctx.d["ty"]
    found = {}
    for st in cls.body:
        if isinstance(st, (ast.FunctionDef, ast.Pass)) or (isinstance(st, ast.Expr) and isinstance(st.value, ast.Constant)):
            continue
        if not (isinstance(st, ast.Assign) and len(st.targets) == 1 and isinstance(st.targets[0], ast.Name)):
            raise Unsupported(f"{fn['py']}: class-level statement {src(st)[:60]}")
        field = st.targets[0].id
        v = st.value
        if not (isinstance(v, ast.Call) and len(v.args) == 1 and not v.keywords and isinstance(v.args[0], ast.Constant)):
            raise Unsupported(f"{fn['py']}.{field}: not a constraint declaration: {src(v)[:60]}")
        if v.args[0].value != field:
            raise Unsupported(f"{fn['py']}.{field}: stored under another key {v.args[0].value!r}")
        f = v.func
        if isinstance(f, ast.Name) and f.id in guards:
            term = f"({guards[f.id]} x)"
        elif isinstance(f, ast.Call) and isinstance(f.func, ast.Name) and f.func.id in guards and not f.keywords:
            term = "(" + " ".join([guards[f.func.id]] + [expr(ctx, a) for a in f.args] + ["x"]) + ")"
        else:
            raise Unsupported(f"{fn['py']}.{field}: unknown constraint {src(f)}")
        if field not in fn["fields"]:
            raise Unsupported(f"{fn['py']}: constraint on a field the model does not know: {field}")
        found[field] = term
    out = []
    for field in fn["fields"]:
        out.append(f"Definition {fn['prefix']}{field} (x : {ty}) : bool :=\n  {found.get(field, 'true')}.\n")
    return "\n".join(out)


def assign_rhs(tree, spec, fn) -> str:
    """target: a local name or an attribute text such as "self.omega"; fn["nth"] (optional) picks the nth assignment in
    source order when the function assigns the target more than once (e.g. in the two branches of an if)"""
    node = find_function(tree, fn["py"])
    hits = [s for s in ast.walk(node) if isinstance(s, ast.Assign) and len(s.targets) == 1
            and isinstance(s.targets[0], (ast.Name, ast.Attribute)) and src(s.targets[0]) == fn["target"]]
    hits.sort(key=lambda s: (s.lineno, s.col_offset))
    if "nth" in fn:
        if not 0 <= fn["nth"] < len(hits) or len(hits) != fn.get("of", len(hits)):
            raise Unsupported(f"{fn['py']}: {len(hits)} assignments to {fn['target']} (expected {fn.get('of')})")
        hits = [hits[fn["nth"]]]
    if len(hits) != 1:
        raise Unsupported(f"{fn['py']}: {len(hits)} assignments to {fn['target']}")
    ctx = Ctx(spec, fn)
    return f"Definition {fn['coq']} {_params(fn)} : {fn['ret']} :=\n  {expr(ctx, hits[0].value)}.\n"


KINDS = {"lambda_kw": lambda_kw, "class_guards": class_guards, "assign_rhs": assign_rhs}


def return_rhs(tree, spec, fn) -> str:
    """kind "return_rhs": the expression of the LAST statement of function fn["py"], which must be a `return`;
    everything the expression reads must be a declared parameter / attr / subst (earlier statements of the body
    are NOT translated -- the names they bind are parameters of the definition)."""
    node = find_function(tree, fn["py"])
    last = node.body[-1]
    if not isinstance(last, ast.Return) or last.value is None:
        raise Unsupported(f"{fn['py']}: last statement is not a return")
    ctx = Ctx(spec, fn)
    allowed = {n for n, _ in fn["args"]}
    for n in ast.walk(last.value):
        if isinstance(n, ast.Name) and n.id not in allowed and n.id not in ctx.consts and n.id not in ("self", "np") \
                and not any(n.id in k for k in list(ctx.subst) + list(ctx.calls) + list(ctx.attrs)):
            raise Unsupported(f"{fn['py']}: return expression reads undeclared name {n.id}")
    return f"Definition {fn['coq']} {_params(fn)} : {fn['ret']} :=\n  {expr(ctx, last.value)}.\n"


KINDS["return_rhs"] = return_rhs


def init_fields(tree, spec, fn) -> str:
    """kind "init_fields": the attributes a Parameters class stores.  The `self.x = ...` targets of __init__ must be exactly
    fn["prim"] + fn["der"] (in this order) and those of initialisation() exactly fn["der"] (a class without derived fields must
    not override initialisation); anything else -- e.g. a new cached attribute the record model does not know -- is refused.
    Emits  Definition <prefix>nfields : nat := number of stored attributes."""
    cls = next((n for n in tree.body if isinstance(n, ast.ClassDef) and n.name == fn["py"]), None)
    if cls is None:
        raise Unsupported(f"class {fn['py']} not found")

    def targets(name):
        f = next((n for n in cls.body if isinstance(n, ast.FunctionDef) and n.name == name), None)
        if f is None:
            return None
        out = []
        for s in ast.walk(f):
            tg = s.targets if isinstance(s, ast.Assign) else [s.target] if isinstance(s, (ast.AugAssign, ast.AnnAssign)) else []
            for t in tg:
                for e in (t.elts if isinstance(t, ast.Tuple) else [t]):
                    if isinstance(e, ast.Attribute) and isinstance(e.value, ast.Name) and e.value.id == "self":
                        out.append((s.lineno, e.attr))
            if isinstance(s, ast.Call) and src(s.func) in ("setattr", "self.__setattr__", "self.__dict__.update", "vars"):
                raise Unsupported(f"{fn['py']}.{name}: indirect attribute write {src(s)[:50]}")
        return [a for _, a in sorted(out)]

    init, re_ = targets("__init__"), targets("initialisation")
    want = list(fn["prim"]) + list(fn["der"])
    if init != want:
        raise Unsupported(f"{fn['py']}.__init__ stores {init}, the model knows {want}")
    if (re_ or []) != list(fn["der"]):
        raise Unsupported(f"{fn['py']}.initialisation stores {re_}, the model knows {fn['der']}")
    other = [n.name for n in cls.body if isinstance(n, ast.FunctionDef) and n.name not in ("__init__", "initialisation", "__repr__", "__str__")]
    if other:
        raise Unsupported(f"{fn['py']}: methods the model does not know: {other}")
    return f"Definition {fn['prefix']}nfields : nat :=\n  {len(want)}.\n"


KINDS["init_fields"] = init_fields


def raise_test(tree, spec, fn) -> str:
    """kind "raise_test": the test of the (single, or fn["nth"]-th of fn["of"]) `if <test>: raise ...` statement of function
    fn["py"] becomes  Definition coq (args) : bool := <test>   (true = the function raises there)."""
    node = find_function(tree, fn["py"])
    hits = [s for s in ast.walk(node) if isinstance(s, ast.If) and len(s.body) == 1 and isinstance(s.body[0], ast.Raise) and not s.orelse]
    hits.sort(key=lambda s: (s.lineno, s.col_offset))
    if len(hits) != fn.get("of", 1):
        raise Unsupported(f"{fn['py']}: {len(hits)} guarded raise statements (expected {fn.get('of', 1)})")
    ctx = Ctx(spec, fn)
    return f"Definition {fn['coq']} {_params(fn)} : bool :=\n  {bexpr(ctx, hits[fn.get('nth', 0)].test)}.\n"


KINDS["raise_test"] = raise_test

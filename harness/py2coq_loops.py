"""py2coq plug-in (TIE): simple Python loops, Python ints next to the float domain, and 1-d list/array code -> Gallina.
Hooked like py2coq_mc.py: a spec says  "ext": "py2coq_loops"  and py2coq shows every expression / statement to `Ext`
first (None = not mine, the generic translator goes on).  Everything is fail-closed: a construct that is not listed here
raises py2coq.Unsupported, i.e. the module is reported as a broken obligation.  The Coq side of the primitives
(py_len, py_nth, py_range, py_enumerate, py_set, py_zeros, py_cumsum, py_while) is coq/Proofs/Tie_PyLoops.v.

Per-function spec keys (all optional):
  "lists"          {python text of a list/array expression (name, attribute, `grid.axes[0]`): (coq name, elem)}  elem in Z|Q|R
  "int_names"      [names holding Python ints]  (py2coq key; ints are Z whatever the numeric domain of the function is)
  "int_attrs"      {"self.K": "K"}              attribute reads that are Python ints
  "identity_calls" ["np.array", "self.states"]  calls of one argument that are read as the argument itself
  "int_calls"      {"grid.left_point": "left_point axes0"}   callee text -> Coq function whose arguments are Python ints
  "skip_stmts"     ["self.sampling_cost += 1"]  statements (exact ast.unparse text) without effect on the modelled value
  "ret_int"        True                         the function returns a Python int (Z)
  "fuel", "on_fuel"  Coq nat term / Coq term of the return type: `while` loops run with that fuel, exhausted -> on_fuel
  "variant_of"     ("middle", "float")          (emitter `registered`) the `_` registered with @middle.register whose first
                                                parameter is annotated `float`

Translated
  ints        literals, int names/attrs, len(list), + - * // % (Z.div/Z.modulo = Python's floor semantics), unary -, min, max,
              abs, subscripts of Z-lists; comparisons between ints use Z.eqb/Z.ltb/Z.leb; an int used where a float is
              expected is injected (inject_Z / IZR) -- Python's int -> float conversion, exact below 2^53
  lists       xs[i] -> py_nth 0 xs i;  np.zeros(n[, dtype=float]) / [] -> a fresh local list;  xs[i] = e on a LOCAL list ->
              py_set;  xs.append(e) on a local list -> xs ++ [e];  np.cumsum(xs) -> py_cumsum
  for         `for x in xs`, `for i in range(n)` / range(a, b), `for i, x in enumerate(xs)`, `for x, y in zip(xs, ys)`:
              fold_left over the items; the state is the tuple of the locals that are (re)bound in the body AND bound before
              the loop (scalars, ints, local lists).  Refused: else-clause, break/continue/return inside, a loop without carried
              state, a name first bound inside the body (or a loop target) that is read after the loop
  while       py_while fuel (fun st => cond) (fun st => body) st;  same state rule; refused without "fuel"/"on_fuel"
  if          without return in either branch: joined through the tuple of the (live) names and local lists it changes
"""
import ast
import copy
import re

import py2coq
from py2coq import Unsupported, src

ELEM_ZERO = {"Z": "0%Z", "Q": "(0 # 1)", "R": "(IZR 0)"}
ELEM_ADD = {"Z": "Z.add", "Q": "Qplus", "R": "Rplus"}


def _names_loaded(nodes):
    return {n.id for st in nodes for n in ast.walk(st) if isinstance(n, ast.Name)}


class Ext:
    def __init__(self, ctx, spec, fn):
        self.fn = fn
        self.lists = {k: tuple(v) for k, v in fn.get("lists", {}).items()}   # python text -> (coq name, elem type)
        self.local_lists = set()                                              # python names of lists created in the body
        self.int_attrs = dict(fn.get("int_attrs", {}))
        self.identity = set(fn.get("identity_calls", []))
        self.skip = set(fn.get("skip_stmts", []))
        self.int_calls = dict(fn.get("int_calls", {}))                        # python callee text -> coq function of int arguments
        self.defined = {n for n, _ in fn.get("args", [])} | set(ctx.int_names)
        self.defined |= {k for k in self.lists if re.fullmatch(r"[A-Za-z_]\w*", k)}
        self.loop_depth = 0
        self.while_count = 0
        ctx.join_live_only = True

    # ------------------------------------------------------------------ typing
    def is_list(self, e):
        return isinstance(e, (ast.Name, ast.Attribute, ast.Subscript)) and src(e) in self.lists

    def int_atom(self, ctx, e):
        if isinstance(e, ast.Name):
            return e.id in ctx.int_names
        if isinstance(e, ast.Attribute):
            return src(e) in self.int_attrs
        if isinstance(e, ast.Call) and src(e.func) == "len" and len(e.args) == 1 and not e.keywords:
            return self.is_list(e.args[0])
        if isinstance(e, ast.Subscript) and self.is_list(e.value) and self.lists[src(e.value)][1] == "Z":
            return True
        return False

    def int_shape(self, ctx, e):
        """True if e can be read as a Python-int expression (atoms, int literals, + - * // %, min/max/abs, unary -)"""
        if isinstance(e, ast.Constant):
            return isinstance(e.value, int) and not isinstance(e.value, bool)
        if self.int_atom(ctx, e):
            return True
        if isinstance(e, ast.BinOp) and isinstance(e.op, (ast.Add, ast.Sub, ast.Mult, ast.FloorDiv, ast.Mod)):
            return self.int_shape(ctx, e.left) and self.int_shape(ctx, e.right)
        if isinstance(e, ast.UnaryOp) and isinstance(e.op, (ast.USub, ast.UAdd)):
            return self.int_shape(ctx, e.operand)
        if isinstance(e, ast.Call) and not e.keywords:
            f = src(e.func)
            if f in ("min", "max") and len(e.args) >= 2:
                return all(self.int_shape(ctx, a) for a in e.args)
            if f in ("abs", "int") and len(e.args) == 1:
                return self.int_shape(ctx, e.args[0])
            if f in self.identity and len(e.args) == 1:
                return self.int_shape(ctx, e.args[0])
        return False

    def is_int(self, ctx, e):
        """an int expression that mentions at least one int atom (a bare literal takes the type of its context)"""
        return self.int_shape(ctx, e) and any(self.int_atom(ctx, n) for n in ast.walk(e))

    # ------------------------------------------------------------------ int expressions -> Z terms
    def zx(self, ctx, e):
        if isinstance(e, ast.Constant) and isinstance(e.value, int) and not isinstance(e.value, bool):
            return f"({e.value})%Z"
        if isinstance(e, ast.Name) and e.id in ctx.int_names:
            return ctx.rename.get(e.id, e.id)
        if isinstance(e, ast.Attribute) and src(e) in self.int_attrs:
            return self.int_attrs[src(e)]
        if isinstance(e, ast.Call) and not e.keywords:
            f = src(e.func)
            if f == "len" and len(e.args) == 1 and self.is_list(e.args[0]):
                return f"(py_len {self.lists[src(e.args[0])][0]})"
            if f in ("min", "max") and len(e.args) >= 2:
                t = self.zx(ctx, e.args[0])
                for a in e.args[1:]:
                    t = f"(Z.{f} {t} {self.zx(ctx, a)})"
                return t
            if f == "abs" and len(e.args) == 1:
                return f"(Z.abs {self.zx(ctx, e.args[0])})"
            if (f == "int" or f in self.identity) and len(e.args) == 1:
                return self.zx(ctx, e.args[0])
        if isinstance(e, ast.Subscript) and self.is_list(e.value) and self.lists[src(e.value)][1] == "Z":
            return f"(py_nth 0%Z {self.lists[src(e.value)][0]} {self.zx(ctx, e.slice)})"
        if isinstance(e, ast.UnaryOp) and isinstance(e.op, ast.USub):
            return f"(Z.opp {self.zx(ctx, e.operand)})"
        if isinstance(e, ast.UnaryOp) and isinstance(e.op, ast.UAdd):
            return self.zx(ctx, e.operand)
        if isinstance(e, ast.BinOp):
            op = {ast.Add: "Z.add", ast.Sub: "Z.sub", ast.Mult: "Z.mul", ast.FloorDiv: "Z.div", ast.Mod: "Z.modulo"}.get(type(e.op))
            if op:
                return f"({op} {self.zx(ctx, e.left)} {self.zx(ctx, e.right)})"
        raise Unsupported(f"integer expression {src(e)}")

    def inject(self, ctx, z):
        return {"Z": z, "Q": f"(inject_Z {z})", "R": f"(IZR {z})"}[ctx.dom]

    # ------------------------------------------------------------------ list-valued expressions
    def list_expr(self, ctx, e):
        """(coq term, elem type) of a list-valued expression, or None"""
        if self.is_list(e):
            return self.lists[src(e)]
        if isinstance(e, ast.List) and not e.elts:
            return "nil", ctx.dom
        if isinstance(e, ast.Call):
            f = src(e.func)
            kw = {k.arg: src(k.value) for k in e.keywords}
            if f == "np.zeros" and ((len(e.args) == 1 and kw in ({}, {"dtype": "float"}))
                                    or (not e.args and kw in ({"shape": kw.get("shape")}, {"shape": kw.get("shape"), "dtype": "float"}))):
                n = e.args[0] if e.args else next(k.value for k in e.keywords if k.arg == "shape")
                if ctx.dom == "Z":
                    raise Unsupported("np.zeros in the Z domain")
                return f"(py_zeros {ELEM_ZERO[ctx.dom]} {self.zx(ctx, n)})", ctx.dom
            if f == "np.cumsum" and len(e.args) == 1 and not e.keywords:
                inner = self.list_expr(ctx, e.args[0])
                if inner is None:
                    raise Unsupported(f"np.cumsum of {src(e.args[0])}")
                t, el = inner
                return f"(py_cumsum {ELEM_ADD[el]} {ELEM_ZERO[el]} {t})", el
        return None

    # ------------------------------------------------------------------ py2coq hooks
    def expr(self, ctx, e):
        if isinstance(e, ast.Subscript) and self.is_list(e.value) and not self.is_list(e):
            name, el = self.lists[src(e.value)]
            if isinstance(e.slice, ast.Slice):
                raise Unsupported(f"slice {src(e)}")
            t = f"(py_nth {ELEM_ZERO[el]} {name} {self.zx(ctx, e.slice)})"
            if el == "Z" and ctx.dom != "Z":
                return self.inject(ctx, t)
            if el != ctx.dom and el != "Z":
                raise Unsupported(f"{src(e)}: list of {el} in a {ctx.dom} function")
            return t
        if self.is_list(e):
            return self.lists[src(e)][0]
        if isinstance(e, ast.Call) and src(e.func) in self.identity and len(e.args) == 1 and not e.keywords:
            return py2coq.expr(ctx, e.args[0])
        if isinstance(e, ast.Call) and src(e.func) in self.int_calls and not e.keywords:
            return "(" + " ".join([self.int_calls[src(e.func)]] + [self.zx(ctx, a) for a in e.args]) + ")"
        le = self.list_expr(ctx, e) if isinstance(e, ast.Call) else None
        if le is not None:
            return le[0]
        if ctx.dom != "Z" and not isinstance(e, ast.Constant) and self.is_int(ctx, e):
            return self.inject(ctx, self.zx(ctx, e))     # Python int -> float where a float is expected
        return None

    def bexpr(self, ctx, e):
        if not isinstance(e, (ast.Compare, ast.Constant)) and self.is_int(ctx, e):
            return f"(negb (Z.eqb {self.zx(ctx, e)} (0)%Z))"          # truthiness of a Python int
        if isinstance(e, ast.Compare):
            operands = [e.left] + list(e.comparators)
            if any(self.is_int(ctx, x) for x in operands) and all(self.int_shape(ctx, x) for x in operands):
                parts, left = [], e.left
                for op, right in zip(e.ops, e.comparators):
                    a, b = self.zx(ctx, left), self.zx(ctx, right)
                    t = {ast.Lt: f"(Z.ltb {a} {b})", ast.LtE: f"(Z.leb {a} {b})", ast.Gt: f"(Z.ltb {b} {a})",
                         ast.GtE: f"(Z.leb {b} {a})", ast.Eq: f"(Z.eqb {a} {b})", ast.NotEq: f"(negb (Z.eqb {a} {b}))"}.get(type(op))
                    if t is None:
                        raise Unsupported(f"comparison {src(e)}")
                    parts.append(t)
                    left = right
                t = parts[0]
                for p in parts[1:]:
                    t = f"(andb {t} {p})"
                return t
        return None

    # ------------------------------------------------------------------ statements
    def type_of(self, ctx, name):
        if name in ctx.int_names:
            return "Z"
        if name in self.lists:
            return f"(list {self.lists[name][1]})"
        return ctx.d["ty"]

    def changed(self, stmts):
        """names (re)bound and local lists mutated by the statements, in order of first occurrence"""
        out = []

        def visit(ss):
            for s in ss:
                if isinstance(s, ast.Assign):
                    for t in s.targets:
                        if isinstance(t, ast.Name):
                            out.append(t.id)
                        elif isinstance(t, ast.Tuple):
                            out.extend(x.id for x in t.elts if isinstance(x, ast.Name))
                        elif isinstance(t, ast.Subscript) and isinstance(t.value, ast.Name):
                            out.append(t.value.id)
                elif isinstance(s, ast.AugAssign) and isinstance(s.target, ast.Name):
                    out.append(s.target.id)
                elif isinstance(s, ast.Expr) and isinstance(s.value, ast.Call) and isinstance(s.value.func, ast.Attribute) \
                        and s.value.func.attr == "append" and isinstance(s.value.func.value, ast.Name):
                    out.append(s.value.func.value.id)
                elif isinstance(s, ast.If):
                    visit(s.body)
                    visit(s.orelse)
                elif isinstance(s, (ast.For, ast.While)):
                    visit(s.body)
        visit(stmts)
        seen, res = set(), []
        for n in out:
            if n not in seen:
                seen.add(n)
                res.append(n)
        return res

    def check_loop_body(self, body):
        for st in body:
            for n in ast.walk(st):
                if isinstance(n, (ast.Return, ast.Break, ast.Continue, ast.Raise, ast.FunctionDef, ast.Lambda, ast.Yield,
                                  ast.YieldFrom, ast.Try, ast.With, ast.Global, ast.Nonlocal, ast.Delete, ast.NamedExpr)):
                    raise Unsupported(f"{type(n).__name__} inside a loop body")

    def loop_state(self, ctx, s, rest, targets):
        ch = self.changed(s.body)
        carried = [v for v in ch if v in self.defined and v not in targets]
        fresh = [v for v in ch if v not in self.defined] + list(targets)
        after = _names_loaded(rest)
        leak = [v for v in fresh if v in after]
        if leak:
            raise Unsupported(f"{leak} bound inside the loop (or loop targets) are read after it")
        if set(targets) & set(ch):
            raise Unsupported(f"loop target re-bound in the body: {sorted(set(targets) & set(ch))}")
        if not carried:
            raise Unsupported("loop without carried state")
        names = [ctx.rename.get(v, v) for v in carried]
        tup = "(" + ", ".join(names) + ")" if len(names) > 1 else names[0]
        pat = "'" + tup if len(names) > 1 else tup
        ty = " * ".join(self.type_of(ctx, v) for v in carried)
        return carried, tup, pat, ty

    def items(self, ctx, s):
        """(coq term of the item list, pattern, item type, {target: kind}) for the iterable of a for loop"""
        it, tg = s.iter, s.target

        def name(t):
            if not isinstance(t, ast.Name):
                raise Unsupported(f"loop target {src(t)}")
            if t.id in self.defined:
                raise Unsupported(f"loop target {t.id} shadows a name bound before the loop")
            return t.id
        if isinstance(it, ast.Call) and not it.keywords:
            f = src(it.func)
            if f == "range" and len(it.args) in (1, 2):
                i = name(tg)
                term = f"(py_range {self.zx(ctx, it.args[0])})" if len(it.args) == 1 else \
                    f"(py_range2 {self.zx(ctx, it.args[0])} {self.zx(ctx, it.args[1])})"
                return term, i, "Z", {i: "int"}
            if f == "enumerate" and len(it.args) == 1 and self.is_list(it.args[0]) \
                    and isinstance(tg, ast.Tuple) and len(tg.elts) == 2:
                i, x = name(tg.elts[0]), name(tg.elts[1])
                ln, el = self.lists[src(it.args[0])]
                return f"(py_enumerate {ln})", f"'({i}, {x})", f"Z * {el}", {i: "int", x: "int" if el == "Z" else "num"}
            if f == "zip" and len(it.args) == 2 and all(self.is_list(a) for a in it.args) \
                    and isinstance(tg, ast.Tuple) and len(tg.elts) == 2:
                x, y = name(tg.elts[0]), name(tg.elts[1])
                (ln1, el1), (ln2, el2) = self.lists[src(it.args[0])], self.lists[src(it.args[1])]
                return f"(combine {ln1} {ln2})", f"'({x}, {y})", f"{el1} * {el2}", \
                    {x: "int" if el1 == "Z" else "num", y: "int" if el2 == "Z" else "num"}
        if self.is_list(it):
            x = name(tg)
            ln, el = self.lists[src(it)]
            return ln, x, el, {x: "int" if el == "Z" else "num"}
        raise Unsupported(f"iterable {src(it)}")

    def stmt(self, ctx, s, rest, tail, on_raise):
        go = lambda: py2coq.block(ctx, rest, tail, on_raise)
        if src(s) in self.skip:
            return go()
        # ---- return of a Python int
        if isinstance(s, ast.Return) and self.fn.get("ret_int"):
            if s.value is None or not self.int_shape(ctx, s.value):
                raise Unsupported(f"return of a non-int: {src(s)}")
            return self.zx(ctx, s.value)
        if isinstance(s, ast.Assign) and len(s.targets) == 1:
            t, v = s.targets[0], s.value
            if isinstance(t, ast.Name):
                n = ctx.rename.get(t.id, t.id)
                le = self.list_expr(ctx, v)
                if le is not None:                       # a fresh local list
                    if t.id in ctx.int_names:
                        raise Unsupported(f"{t.id}: int name re-bound to a list")
                    term, el = le
                    self.lists[t.id] = (n, el)
                    self.local_lists.add(t.id)
                    self.defined.add(t.id)
                    return f"let {n} := {term} in\n  {go()}"
                if t.id in self.lists:
                    raise Unsupported(f"list {t.id} re-bound to a non-list: {src(s)}")
                if self.is_int(ctx, v) or (t.id in ctx.int_names and self.int_shape(ctx, v)):
                    term = self.zx(ctx, v)
                    ctx.int_names.add(t.id)
                    self.defined.add(t.id)
                    return f"let {n} := {term} in\n  {go()}"
                if t.id in ctx.int_names:
                    raise Unsupported(f"int name {t.id} re-bound to a non-int: {src(s)}")
                self.defined.add(t.id)
                return None                              # generic `let`
            if isinstance(t, ast.Tuple):
                for x in t.elts:
                    if isinstance(x, ast.Name):
                        if x.id in ctx.int_names or x.id in self.lists:
                            raise Unsupported(f"tuple assignment to the int/list name {x.id}")
                        self.defined.add(x.id)
                return None
            if isinstance(t, ast.Subscript) and isinstance(t.value, ast.Name) and t.value.id in self.local_lists:
                ln, el = self.lists[t.value.id]
                if isinstance(t.slice, ast.Slice):
                    raise Unsupported(f"slice assignment {src(s)}")
                val = self.zx(ctx, v) if el == "Z" else py2coq.expr(ctx, v)
                return f"let {ln} := (py_set {ln} {self.zx(ctx, t.slice)} {val}) in\n  {go()}"
            if isinstance(t, ast.Subscript):
                raise Unsupported(f"store into something that is not a local list: {src(s)}")
            return None
        if isinstance(s, ast.AugAssign) and isinstance(s.target, ast.Name):
            if s.target.id in ctx.int_names:
                fake = ast.BinOp(left=ast.Name(id=s.target.id, ctx=ast.Load()), op=s.op, right=s.value)
                if not self.int_shape(ctx, fake):
                    raise Unsupported(f"int name updated with a non-int: {src(s)}")
                n = ctx.rename.get(s.target.id, s.target.id)
                return f"let {n} := {self.zx(ctx, fake)} in\n  {go()}"
            if s.target.id in self.lists:
                raise Unsupported(f"augmented assignment to a list: {src(s)}")
            return None
        if isinstance(s, ast.Expr) and isinstance(s.value, ast.Call) and isinstance(s.value.func, ast.Attribute) \
                and s.value.func.attr == "append":
            c = s.value
            if not (isinstance(c.func.value, ast.Name) and c.func.value.id in self.local_lists and len(c.args) == 1 and not c.keywords):
                raise Unsupported(f"append to something that is not a local list: {src(s)}")
            ln, el = self.lists[c.func.value.id]
            val = self.zx(ctx, c.args[0]) if el == "Z" else py2coq.expr(ctx, c.args[0])
            return f"let {ln} := ({ln} ++ cons {val} nil) in\n  {go()}"
        # ---- if without return: join the live names / local lists it changes
        if isinstance(s, ast.If) and not py2coq.always_returns(s.body) and not (s.orelse and py2coq.always_returns(s.orelse)):
            vs = self.changed([s])
            live = _names_loaded(rest) | (set(re.findall(r"[A-Za-z_][A-Za-z_0-9']*", tail)) if tail else set())
            vs = [v for v in vs if v in live or ctx.rename.get(v, v) in live]
            if not vs:
                raise Unsupported("if without effect")
            names = [ctx.rename.get(v, v) for v in vs]
            join = "(" + ", ".join(names) + ")" if len(names) > 1 else names[0]
            pat = "'" + join if len(names) > 1 else join
            test = py2coq.bexpr(ctx, s.test)
            ints0, lists0, loc0, def0 = set(ctx.int_names), dict(self.lists), set(self.local_lists), set(self.defined)
            a = py2coq.block(ctx, s.body, join, on_raise)
            ints1 = set(ctx.int_names)
            ctx.int_names.clear(); ctx.int_names.update(ints0)
            self.lists, self.local_lists, self.defined = dict(lists0), set(loc0), set(def0)
            b = py2coq.block(ctx, s.orelse, join, on_raise)
            if {v for v in vs if v in ints1} != {v for v in vs if v in ctx.int_names}:
                raise Unsupported("a joined name is an int in one branch only")
            self.defined |= set(vs)
            return f"let {pat} := (if {test}\n   then {a}\n   else {b}) in\n  {go()}"
        if isinstance(s, ast.For):
            if s.orelse:
                raise Unsupported("for ... else")
            self.check_loop_body(s.body)
            items, ipat, ity, kinds = self.items(ctx, s)
            carried, tup, pat, ty = self.loop_state(ctx, s, rest, list(kinds))
            ints0, def0 = set(ctx.int_names), set(self.defined)
            ctx.int_names.update(k for k, v in kinds.items() if v == "int")
            self.defined |= set(kinds)
            body = py2coq.block(ctx, s.body, tup, None)
            ctx.int_names.clear(); ctx.int_names.update(ints0)
            self.defined = def0
            return (f"let {pat} := (fold_left (fun (st__ : {ty}) (it__ : {ity}) =>\n    let {pat} := st__ in let {ipat} := it__ in\n    {body})\n"
                    f"    {items} {tup}) in\n  {go()}")
        if isinstance(s, ast.While):
            if s.orelse:
                raise Unsupported("while ... else")
            fuel, on_fuel = self.fn.get("fuel"), self.fn.get("on_fuel")
            if fuel is None or on_fuel is None:
                raise Unsupported("while loop without declared fuel / on_fuel")
            self.check_loop_body(s.body)
            carried, tup, pat, ty = self.loop_state(ctx, s, rest, [])
            cond_names = _names_loaded([s.test])
            ints0, def0 = set(ctx.int_names), set(self.defined)
            cond = py2coq.bexpr(ctx, s.test)
            body = py2coq.block(ctx, s.body, tup, None)
            ctx.int_names.clear(); ctx.int_names.update(ints0)
            self.defined = def0
            return (f"match py_while {fuel}\n    (fun (st__ : {ty}) => let {pat} := st__ in {cond})\n"
                    f"    (fun (st__ : {ty}) => let {pat} := st__ in\n    {body})\n    {tup} with\n"
                    f"  | None => {on_fuel}\n  | Some st__ => let {pat} := st__ in\n  {go()}\n  end")
        if isinstance(s, (ast.Break, ast.Continue)):
            raise Unsupported(type(s).__name__)
        return None


def registered(tree, spec, fn):
    """emitter: the `_` that is registered on a singledispatchmethod (`@<name>.register`) of class fn["py"] = "Class.<name>"
    and whose first non-self parameter is annotated fn["variant_of"]; translated by the generic machinery"""
    cls_name, meth = fn["py"].split(".")
    cls = next((n for n in tree.body if isinstance(n, ast.ClassDef) and n.name == cls_name), None)
    if cls is None:
        raise Unsupported(f"{cls_name}: not found")
    found = []
    for n in cls.body:
        if isinstance(n, ast.FunctionDef) and n.name == "_" and [src(d) for d in n.decorator_list] == [f"{meth}.register"]:
            args = [a for a in n.args.args if a.arg != "self"]
            if args and args[0].annotation is not None and src(args[0].annotation) == fn["variant_of"]:
                found.append(n)
    if len(found) != 1:
        raise Unsupported(f"{fn['py']}: {len(found)} variants registered for {fn['variant_of']}")
    node = copy.deepcopy(found[0])
    node.name = "registered_variant__"
    fake = ast.Module(body=[node], type_ignores=[])
    fn2 = {k: v for k, v in fn.items() if k not in ("emitter", "variant_of")}
    fn2["py"] = "registered_variant__"
    return py2coq.translate_function(fake, spec, fn2)

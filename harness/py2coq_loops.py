"""py2coq plug-in (TIE): simple Python loops, Python ints next to the float domain, and 1-d list/array code -> Gallina.
Hooked like py2coq_mc.py: a spec says  "ext": "py2coq_loops"  and py2coq shows every expression / statement to `Ext`
first (None = not mine, the generic translator goes on).  Everything is fail-closed: a construct that is not listed here
raises py2coq.Unsupported, i.e. the module is reported as a broken obligation.  The Coq side of the primitives
(py_len, py_nth, py_range, py_enumerate, py_set, py_zeros, py_cumsum, py_while) is coq/Proofs/Tie_PyLoops.v.

Per-function spec keys (all optional):
  "lists"          {python text of a list/array expression (name, attribute, `grid.axes[0]`): (coq name, elem)}  elem in Z|Q|R
  "int_names"      [names holding Python ints]  (py2coq key; ints are Z whatever the numeric domain of the function is)
  "int_attrs"      {"self.K": "K"}              attribute reads that are Python ints
  "identity_calls" ["np.array", "self.states"]  calls of one argument that are read as the argument itself
  "int_calls"      {"grid.left_point": "left_point axes0"}   callee text -> Coq function whose arguments are Python ints
  "skip_stmts"     ["self.sampling_cost += 1"]  statements (exact ast.unparse text) without effect on the modelled value
  "ret_int"        True                         the function returns a Python int (Z)
  "fuel", "on_fuel"  Coq nat term / Coq term of the return type: `while` loops run with that fuel, exhausted -> on_fuel
  "variant_of"     ("middle", "float")          (emitter `registered`) the `_` registered with @middle.register whose first
                                                parameter is annotated `float`

Translated
  ints        literals, int names/attrs, len(list), + - * // % (Z.div/Z.modulo = Python's floor semantics), unary -, min, max,
              abs, subscripts of Z-lists; comparisons between ints use Z.eqb/Z.ltb/Z.leb; an int used where a float is
              expected is injected (inject_Z / IZR) -- Python's int -> float conversion, exact below 2^53
  lists       xs[i] -> py_nth 0 xs i;  np.zeros(n[, dtype=float]) / [] -> a fresh local list;  xs[i] = e on a LOCAL list ->
              py_set;  xs.append(e) on a local list -> xs ++ [e];  np.cumsum(xs) -> py_cumsum
  for         `for x in xs`, `for i in range(n)` / range(a, b), `for i, x in enumerate(xs)`, `for x, y in zip(xs, ys)`:
              fold_left over the items; the state is the tuple of the locals that are (re)bound in the body AND bound before
              the loop (scalars, ints, local lists).  Refused: else-clause, break/continue/return inside, a loop without carried
              state, a name first bound inside the body (or a loop target) that is read after the loop
  while       py_while fuel (fun st => cond) (fun st => body) st;  same state rule; refused without "fuel"/"on_fuel"
  if          without return in either branch: joined through the tuple of the (live) names and local lists it changes

Second pass (TIE2) -- lists of lists and translation-time ("static") sequences, all fail-closed:
  "local_lists"    {"pieces": "list Q"}         element type of a local list created by `[]` (default: the numeric domain); every
                                                append is checked against it
  lists of lists   "lists": {"values": ("values", "list Q")}: `for xs in values` makes xs a list inside the body; xss[i] is a list,
                   xss[i][j] a number; xs.shape[0] = py_len xs; `s + xs` / `xs + s` (scalar broadcast) = map (add s) xs;
                   np.concatenate(xss) = concat xss; np.empty(shape=0, dtype=float) = nil; truthiness of a local Python list
                   (`if pieces`, `while a and b`) = its length is not 0; `x = np.asarray(x, dtype=float)` on a list of the numeric
                   domain is the identity (also on a loop target); `a, b = e1, e2` (no e_i reads a target) = two assignments
  xs[::-1]         py_rev xs (= rev xs);  xs[a:] / xs[:b] / xs[a:b] with int bounds: py_slice xs a b
  static values    a non-empty list literal, a list comprehension over a static sequence, enumerate / zip / zip(*x) /
                   itertools.product(*x) of static sequences are evaluated AT TRANSLATION TIME to a sequence of known length whose
                   leaves are Coq terms (or ints): `name = <static>` binds the name statically (no let); `for pat in <static>` is
                   UNROLLED (body repeated with the pattern bound, static ints substituted as literals); `next(it)` as a statement
                   drops the first item of a named iterator (product / zip / enumerate results are single-use iterators: they may
                   only be consumed by `for`, `next`, unpacking, or anonymously as an argument); `a, b = zip(*rows)` unpacks.
                   Static bindings are refused inside fold loops / joined ifs, and a `let` that re-binds a Coq name occurring in a
                   live static term is refused (no capture).  `product` must be `from itertools import product` (emitter `checked`,
                   key "require_imports": {"product": "itertools"}).
  "static_tests"   {"model.dimension_model() == 1": True}   an `if` on that exact text is replaced by the chosen branch (the
                   specialisation the generated definition is about; stated in its name)
  "static_values"  {"grid.middle(a, b)": ["t0", "t1"]}      that exact expression is a static tuple with these component terms
                   (the spec's reading of a tuple-valued call, e.g. an n-d singledispatch variant; covered by the spot check)
  "float_to_int"   {"np.uint": "Qfloor"}                    `x = np.uint(e)` with a float e: x is a Python int, the Coq function
                   Q -> Z given (truncation = floor for e >= 0; the equality lemma states that hypothesis)
  "kw_calls"       {"model.mass": ("mass", ["a", "b"])}     call with exactly these keywords -> positional Coq call; a static
                   sequence of terms passed as an argument is a Coq tuple (a 1-sequence is its component)
  NOT translated (refused): early `return` / `break` / `continue` inside a loop body, comprehension filters, nested comprehension
                   generators, deque/pop, np.insert / np.nonzero / fancy indexing.
"""
import ast
import copy
import itertools
import re

import py2coq
from py2coq import Unsupported, src

ELEM_ZERO = {"Z": "0%Z", "Q": "(0 # 1)", "R": "(IZR 0)"}
ELEM_ADD = {"Z": "Z.add", "Q": "Qplus", "R": "Rplus"}


class T(str):
    """a Coq term of the function's numeric domain held as a static (translation-time) value"""


class TZ(T):
    """a Coq term of type Z (a Python int) held as a static value (wave 8: the components of a CoordinateND)"""


class SSeq(list):
    """a Python list / tuple / iterator whose length and items (T, int or SSeq) are known at translation time"""
    iterator = False


class _Resume(ast.stmt):
    """marker appended to an unrolled loop body: continues with the next iteration (closure k)"""
    _fields = ()


def is_nested(el):
    return el.startswith("list ")


def zero_of(el):
    return "nil" if is_nested(el) else ELEM_ZERO[el]


def ty_of(el):
    return f"({el})" if is_nested(el) else el


def _names_loaded(nodes):
    return {n.id for st in nodes for n in ast.walk(st) if isinstance(n, ast.Name)}


class Ext:
    def __init__(self, ctx, spec, fn):
        self.fn = fn
        self.lists = {k: tuple(v) for k, v in fn.get("lists", {}).items()}   # python text -> (coq name, elem type)
        self.local_lists = set()                                              # python names of lists created in the body
        self.int_attrs = dict(fn.get("int_attrs", {}))
        self.identity = set(fn.get("identity_calls", []))
        self.skip = set(fn.get("skip_stmts", []))
        self.int_calls = dict(fn.get("int_calls", {}))                        # python callee text -> coq function of int arguments
        self.defined = {n for n, _ in fn.get("args", [])} | set(ctx.int_names)
        self.defined |= {k for k in self.lists if re.fullmatch(r"[A-Za-z_]\w*", k)}
        self.loop_depth = 0
        self.while_count = 0
        ctx.join_live_only = True
        # --- TIE2
        self.local_list_types = dict(fn.get("local_lists", {}))               # local list name -> declared element type
        self.py_lists = set()                                                 # local lists created by `[]` (Python lists, not arrays)
        self.static = {}                                                      # python name -> T | int | SSeq
        self.static_tests = dict(fn.get("static_tests", {}))
        self.static_values = {k: list(v) for k, v in fn.get("static_values", {}).items()}   # python text -> component terms
        self.kw_calls = {k: tuple(v) for k, v in fn.get("kw_calls", {}).items()}
        self.nest = 0                                                         # > 0 inside a fold loop / while / joined if
        # --- wave 8: a parameter read as a tuple of known length ("static_args": {"coordinate": ["Z:c0", "Z:c1"]}; "Z:" = Python int)
        for k_, items_ in fn.get("static_args", {}).items():
            self.static[k_] = SSeq(TZ(t_[2:]) if t_.startswith("Z:") else T(t_) for t_ in items_)
        self.subscript_calls = dict(fn.get("subscript_calls", {}))            # "grid" -> coq function: grid[e] -> (f <int e>)
        self.fn_dom = ctx.dom

    # ------------------------------------------------------------------ typing
    def is_list(self, e):
        return isinstance(e, (ast.Name, ast.Attribute, ast.Subscript)) and src(e) in self.lists

    def int_atom(self, ctx, e):
        if isinstance(e, ast.Name):
            return e.id in ctx.int_names or isinstance(self.static.get(e.id), TZ)
        if isinstance(e, ast.Attribute):
            return src(e) in self.int_attrs
        if isinstance(e, ast.Call) and src(e.func) == "len" and len(e.args) == 1 and not e.keywords:
            return self.is_list(e.args[0])
        if isinstance(e, ast.Subscript) and self.is_list(e.value) and self.lists[src(e.value)][1] == "Z":
            return True
        if self.shape0(e) is not None:
            return True
        return False

    def shape0(self, e):
        """xs.shape[0] of a known list -> the list's python text"""
        if isinstance(e, ast.Subscript) and isinstance(e.value, ast.Attribute) and e.value.attr == "shape" \
                and isinstance(e.slice, ast.Constant) and e.slice.value == 0 and type(e.slice.value) is int \
                and self.is_list(e.value.value):
            return src(e.value.value)
        return None

    def int_shape(self, ctx, e):
        """True if e can be read as a Python-int expression (atoms, int literals, + - * // %, min/max/abs, unary -)"""
        if isinstance(e, ast.Constant):
            return isinstance(e.value, int) and not isinstance(e.value, bool)
        if self.int_atom(ctx, e):
            return True
        if isinstance(e, ast.BinOp) and isinstance(e.op, (ast.Add, ast.Sub, ast.Mult, ast.FloorDiv, ast.Mod)):
            return self.int_shape(ctx, e.left) and self.int_shape(ctx, e.right)
        if isinstance(e, ast.UnaryOp) and isinstance(e.op, (ast.USub, ast.UAdd)):
            return self.int_shape(ctx, e.operand)
        if isinstance(e, ast.Call) and not e.keywords:
            f = src(e.func)
            if f in ("min", "max") and len(e.args) >= 2:
                return all(self.int_shape(ctx, a) for a in e.args)
            if f in ("abs", "int") and len(e.args) == 1:
                return self.int_shape(ctx, e.args[0])
            if f in self.identity and len(e.args) == 1:
                return self.int_shape(ctx, e.args[0])
        return False

    def is_int(self, ctx, e):
        """an int expression that mentions at least one int atom (a bare literal takes the type of its context)"""
        return self.int_shape(ctx, e) and any(self.int_atom(ctx, n) for n in ast.walk(e))

    # ------------------------------------------------------------------ int expressions -> Z terms
    def zx(self, ctx, e):
        if isinstance(e, ast.Constant) and isinstance(e.value, int) and not isinstance(e.value, bool):
            return f"({e.value})%Z"
        if isinstance(e, ast.Name) and isinstance(self.static.get(e.id), TZ):
            return str(self.static[e.id])
        if isinstance(e, ast.Name) and e.id in ctx.int_names:
            return ctx.rename.get(e.id, e.id)
        if isinstance(e, ast.Attribute) and src(e) in self.int_attrs:
            return self.int_attrs[src(e)]
        if self.shape0(e) is not None:
            return f"(py_len {self.lists[self.shape0(e)][0]})"
        if isinstance(e, ast.Call) and not e.keywords:
            f = src(e.func)
            if f == "len" and len(e.args) == 1 and self.is_list(e.args[0]):
                return f"(py_len {self.lists[src(e.args[0])][0]})"
            if f in ("min", "max") and len(e.args) >= 2:
                t = self.zx(ctx, e.args[0])
                for a in e.args[1:]:
                    t = f"(Z.{f} {t} {self.zx(ctx, a)})"
                return t
            if f == "abs" and len(e.args) == 1:
                return f"(Z.abs {self.zx(ctx, e.args[0])})"
            if (f == "int" or f in self.identity) and len(e.args) == 1:
                return self.zx(ctx, e.args[0])
        if isinstance(e, ast.Subscript) and self.is_list(e.value) and self.lists[src(e.value)][1] == "Z":
            return f"(py_nth 0%Z {self.lists[src(e.value)][0]} {self.zx(ctx, e.slice)})"
        if isinstance(e, ast.UnaryOp) and isinstance(e.op, ast.USub):
            return f"(Z.opp {self.zx(ctx, e.operand)})"
        if isinstance(e, ast.UnaryOp) and isinstance(e.op, ast.UAdd):
            return self.zx(ctx, e.operand)
        if isinstance(e, ast.BinOp):
            op = {ast.Add: "Z.add", ast.Sub: "Z.sub", ast.Mult: "Z.mul", ast.FloorDiv: "Z.div", ast.Mod: "Z.modulo"}.get(type(e.op))
            if op:
                return f"({op} {self.zx(ctx, e.left)} {self.zx(ctx, e.right)})"
        raise Unsupported(f"integer expression {src(e)}")

    def inject(self, ctx, z):
        return {"Z": z, "Q": f"(inject_Z {z})", "R": f"(IZR {z})"}[ctx.dom]

    # ------------------------------------------------------------------ list-valued expressions
    def list_expr(self, ctx, e):
        """(coq term, elem type) of a list-valued expression, or None"""
        if self.is_list(e):
            return self.lists[src(e)]
        if isinstance(e, ast.List) and not e.elts:
            return "nil", ctx.dom
        if isinstance(e, ast.Subscript) and isinstance(e.slice, ast.Slice):
            inner = self.list_expr(ctx, e.value)
            if inner is None:
                return None
            t, el = inner
            sl = e.slice
            if sl.lower is None and sl.upper is None and sl.step is not None and src(sl.step) == "-1":
                return f"(py_rev {t})", el                               # xs[::-1]
            if sl.step is None and (sl.lower is not None or sl.upper is not None):
                for b in (sl.lower, sl.upper):
                    if b is not None and not self.int_shape(ctx, b):
                        raise Unsupported(f"slice bound {src(b)}")
                lo = f"(Some {self.zx(ctx, sl.lower)})" if sl.lower is not None else "None"
                hi = f"(Some {self.zx(ctx, sl.upper)})" if sl.upper is not None else "None"
                return f"(py_slice {t} {lo} {hi})", el
            raise Unsupported(f"slice {src(e)}")
        if isinstance(e, ast.Subscript):                                 # xss[i] of a list of lists
            inner = self.list_expr(ctx, e.value)
            if inner is not None and is_nested(inner[1]):
                return f"(py_nth nil {inner[0]} {self.zx(ctx, e.slice)})", inner[1][len("list "):]
            return None
        if isinstance(e, ast.BinOp) and isinstance(e.op, ast.Add):       # scalar + array (numpy broadcast)
            l, r = self.list_expr(ctx, e.left), self.list_expr(ctx, e.right)
            if (l is None) != (r is None):
                t, el = l or r
                if el != ctx.dom or el == "Z":
                    raise Unsupported(f"broadcast over a list of {el}: {src(e)}")
                if l is None:
                    return f"(map ({ELEM_ADD[el]} {py2coq.expr(ctx, e.left)}) {t})", el
                return f"(map (fun x__ => {ELEM_ADD[el]} x__ {py2coq.expr(ctx, e.right)}) {t})", el
            if l is not None:
                raise Unsupported(f"list + list: {src(e)}")
            return None
        if isinstance(e, ast.IfExp):
            a, b = self.list_expr(ctx, e.body), self.list_expr(ctx, e.orelse)
            if a is None and b is None:
                return None
            if a is None or b is None or a[1] != b[1]:
                raise Unsupported(f"conditional expression with one list branch: {src(e)}")
            return f"(if {py2coq.bexpr(ctx, e.test)} then {a[0]} else {b[0]})", a[1]
        if isinstance(e, ast.Call):
            f = src(e.func)
            kw = {k.arg: src(k.value) for k in e.keywords}
            if f == "np.zeros" and ((len(e.args) == 1 and kw in ({}, {"dtype": "float"}))
                                    or (not e.args and kw in ({"shape": kw.get("shape")}, {"shape": kw.get("shape"), "dtype": "float"}))):
                n = e.args[0] if e.args else next(k.value for k in e.keywords if k.arg == "shape")
                if ctx.dom == "Z":
                    raise Unsupported("np.zeros in the Z domain")
                return f"(py_zeros {ELEM_ZERO[ctx.dom]} {self.zx(ctx, n)})", ctx.dom
            if f == "np.cumsum" and len(e.args) == 1 and not e.keywords:
                inner = self.list_expr(ctx, e.args[0])
                if inner is None:
                    raise Unsupported(f"np.cumsum of {src(e.args[0])}")
                t, el = inner
                if is_nested(el):
                    raise Unsupported(f"np.cumsum of a list of lists: {src(e)}")
                return f"(py_cumsum {ELEM_ADD[el]} {ELEM_ZERO[el]} {t})", el
            if f == "np.concatenate" and len(e.args) == 1 and not e.keywords:
                inner = self.list_expr(ctx, e.args[0])
                if inner is None or not is_nested(inner[1]):
                    raise Unsupported(f"np.concatenate of {src(e.args[0])}")
                return f"(concat {inner[0]})", inner[1][len("list "):]
            if f == "np.empty" and ((not e.args and kw in ({"shape": "0"}, {"shape": "0", "dtype": "float"}))
                                    or (len(e.args) == 1 and src(e.args[0]) == "0" and kw in ({}, {"dtype": "float"}))):
                return "nil", ctx.dom                                    # an array without elements has no uninitialised content
        return None

    # ------------------------------------------------------------------ py2coq hooks
    def expr(self, ctx, e):
        if isinstance(e, ast.Name) and e.id in self.static:
            v = self.static[e.id]
            if isinstance(v, TZ):
                return self.inject(ctx, str(v))
            if isinstance(v, T):
                return str(v)
            if isinstance(v, int) and not isinstance(v, bool):
                return py2coq.lit(ctx, v)
            raise Unsupported(f"static sequence {e.id} used as a number")
        if isinstance(e, ast.Subscript) and self.static_index(e) is not None:
            seq_, k = self.static_index(e)
            if isinstance(seq_[k], T):
                return str(seq_[k])
            if type(seq_[k]) is int:
                return py2coq.lit(ctx, seq_[k])
            raise Unsupported(f"{src(e)}: a static sequence used as a number")
        if isinstance(e, ast.Subscript) and src(e.value) in self.subscript_calls and not isinstance(e.slice, ast.Slice):
            return f"({self.subscript_calls[src(e.value)]} {self.zx(ctx, e.slice)})"    # grid[position]: the translated __getitem__
        if isinstance(e, ast.Call) and src(e.func) in self.kw_calls:
            coq, names = self.kw_calls[src(e.func)]
            kws = {k.arg: k.value for k in e.keywords}
            if e.args or sorted(kws) != sorted(names):
                raise Unsupported(f"{src(e)}: expected exactly the keywords {list(names)}")
            return "(" + " ".join([coq] + [self.argterm(ctx, kws[n]) for n in names]) + ")"
        if isinstance(e, (ast.Subscript, ast.BinOp, ast.IfExp)) and not self.is_list(e):
            le = self.list_expr(ctx, e)
            if le is not None:
                return le[0]
        if isinstance(e, ast.Subscript) and not self.is_list(e) and not isinstance(e.slice, ast.Slice) \
                and not self.is_list(e.value) and self.shape0(e) is None:
            inner = self.list_expr(ctx, e.value) if isinstance(e.value, ast.Subscript) else None
            if inner is not None:                                        # xss[i][j]
                t0, el = inner
                if is_nested(el):
                    raise Unsupported(f"{src(e)}: still a list")
                t = f"(py_nth {ELEM_ZERO[el]} {t0} {self.zx(ctx, e.slice)})"
                if el == "Z" and ctx.dom != "Z":
                    return self.inject(ctx, t)
                if el != ctx.dom and el != "Z":
                    raise Unsupported(f"{src(e)}: list of {el} in a {ctx.dom} function")
                return t
        if isinstance(e, ast.Subscript) and self.is_list(e.value) and not self.is_list(e):
            name, el = self.lists[src(e.value)]
            if isinstance(e.slice, ast.Slice):
                raise Unsupported(f"slice {src(e)}")
            if is_nested(el):
                raise Unsupported(f"{src(e)}: a list where a number is expected")
            t = f"(py_nth {ELEM_ZERO[el]} {name} {self.zx(ctx, e.slice)})"
            if el == "Z" and ctx.dom != "Z":
                return self.inject(ctx, t)
            if el != ctx.dom and el != "Z":
                raise Unsupported(f"{src(e)}: list of {el} in a {ctx.dom} function")
            return t
        if self.is_list(e):
            return self.lists[src(e)][0]
        if isinstance(e, ast.Call) and src(e.func) in self.identity and len(e.args) == 1 and not e.keywords:
            return py2coq.expr(ctx, e.args[0])
        if isinstance(e, ast.Call) and src(e.func) in self.int_calls and not e.keywords:
            return "(" + " ".join([self.int_calls[src(e.func)]] + [self.zx(ctx, a) for a in e.args]) + ")"
        le = self.list_expr(ctx, e) if isinstance(e, ast.Call) else None
        if le is not None:
            return le[0]
        if ctx.dom != "Z" and not isinstance(e, ast.Constant) and self.is_int(ctx, e):
            return self.inject(ctx, self.zx(ctx, e))     # Python int -> float where a float is expected
        return None

    def bexpr(self, ctx, e):
        if isinstance(e, ast.Name) and e.id in self.lists:
            if e.id not in self.py_lists:
                raise Unsupported(f"truthiness of {e.id}, which is not a local Python list")
            return f"(negb (Z.eqb (py_len {self.lists[e.id][0]}) (0)%Z))"
        if not isinstance(e, (ast.Compare, ast.Constant)) and self.is_int(ctx, e):
            return f"(negb (Z.eqb {self.zx(ctx, e)} (0)%Z))"          # truthiness of a Python int
        if isinstance(e, ast.Compare):
            operands = [e.left] + list(e.comparators)
            if any(self.is_int(ctx, x) for x in operands) and all(self.int_shape(ctx, x) for x in operands):
                parts, left = [], e.left
                for op, right in zip(e.ops, e.comparators):
                    a, b = self.zx(ctx, left), self.zx(ctx, right)
                    t = {ast.Lt: f"(Z.ltb {a} {b})", ast.LtE: f"(Z.leb {a} {b})", ast.Gt: f"(Z.ltb {b} {a})",
                         ast.GtE: f"(Z.leb {b} {a})", ast.Eq: f"(Z.eqb {a} {b})", ast.NotEq: f"(negb (Z.eqb {a} {b}))"}.get(type(op))
                    if t is None:
                        raise Unsupported(f"comparison {src(e)}")
                    parts.append(t)
                    left = right
                t = parts[0]
                for p in parts[1:]:
                    t = f"(andb {t} {p})"
                return t
        return None

    # ------------------------------------------------------------------ static (translation-time) sequences
    def subst_ints(self, node):
        """copy of the node with the statically known int names replaced by literals"""
        ints = {k: v for k, v in self.static.items() if isinstance(v, int) and not isinstance(v, bool)}
        node = copy.deepcopy(node)
        if not ints:
            return node

        class Tr(ast.NodeTransformer):
            def visit_Name(self, n):
                if n.id in ints and isinstance(n.ctx, ast.Load):
                    return ast.copy_location(ast.Constant(value=ints[n.id]), n)
                return n
        return ast.fix_missing_locations(Tr().visit(node))

    def is_static_expr(self, e):
        if src(e) in self.static_values:
            return True
        if isinstance(e, ast.Name):
            return e.id in self.static
        if isinstance(e, ast.List):
            return bool(e.elts)
        if isinstance(e, ast.ListComp):
            return True
        if self.tuple_genexp(e) is not None:
            return True
        if self.static_index(e) is not None:
            return True
        if isinstance(e, ast.Call) and isinstance(e.func, ast.Name) and e.func.id in ("enumerate", "zip", "product"):
            return all(self.is_static_expr(a.value if isinstance(a, ast.Starred) else a) for a in e.args) and bool(e.args)
        return False

    @staticmethod
    def tuple_genexp(e):
        """tuple(<generator expression>) -> the generator expression (read like a list comprehension; the value is a tuple)"""
        if isinstance(e, ast.Call) and isinstance(e.func, ast.Name) and e.func.id == "tuple" and len(e.args) == 1 and not e.keywords \
                and isinstance(e.args[0], ast.GeneratorExp):
            return e.args[0]
        return None

    def static_index(self, e):
        """row[i]: a literal index into a named static sequence (not an iterator) -> (sequence, index)"""
        if isinstance(e, ast.Subscript) and isinstance(e.value, ast.Name) and isinstance(self.static.get(e.value.id), SSeq) \
                and not self.static[e.value.id].iterator:
            i = e.slice
            k = i.value if isinstance(i, ast.Constant) else \
                -i.operand.value if isinstance(i, ast.UnaryOp) and isinstance(i.op, ast.USub) and isinstance(i.operand, ast.Constant) else None
            seq_ = self.static[e.value.id]
            if type(k) is int and -len(seq_) <= k < len(seq_):
                return seq_, k
        return None

    def sarg(self, ctx, e):
        """static sequence passed as an argument: a NAMED iterator may not be passed on (it would be shared)"""
        v = self.sval(ctx, e)
        if not isinstance(v, SSeq):
            raise Unsupported(f"{src(e)}: not a static sequence")
        if v.iterator and isinstance(e, ast.Name):
            raise Unsupported(f"the iterator {e.id} is passed on (single-use)")
        return v

    def sitem(self, ctx, e):
        if self.is_static_expr(e):
            return self.sval(ctx, e)
        return T(py2coq.expr(ctx, self.subst_ints(e)))

    def sval(self, ctx, e):
        """value of a static expression (see is_static_expr)"""
        if src(e) in self.static_values:
            return SSeq(T(t) for t in self.static_values[src(e)])
        if isinstance(e, ast.Name) and e.id in self.static:
            return self.static[e.id]
        if isinstance(e, ast.List) and e.elts:
            return SSeq(self.sitem(ctx, x) for x in e.elts)
        if self.static_index(e) is not None:
            seq_, k = self.static_index(e)
            return seq_[k]
        if self.tuple_genexp(e) is not None:
            e = self.tuple_genexp(e)
        if isinstance(e, (ast.ListComp, ast.GeneratorExp)):
            if len(e.generators) != 1 or e.generators[0].ifs or e.generators[0].is_async:
                raise Unsupported(f"comprehension {src(e)}")
            g = e.generators[0]
            if not self.is_static_expr(g.iter):
                raise Unsupported(f"comprehension over something that is not a static sequence: {src(e)}")
            items = self.sarg(ctx, g.iter)
            saved, out = dict(self.static), SSeq()
            try:
                for it in list(items):
                    self.bind(ctx, g.target, it)
                    out.append(self.sitem(ctx, e.elt))
            finally:
                self.static = saved                     # the comprehension's own scope
            return out
        if isinstance(e, ast.Call) and isinstance(e.func, ast.Name) and not e.keywords and self.is_static_expr(e):
            f = e.func.id
            starred = len(e.args) == 1 and isinstance(e.args[0], ast.Starred)
            if starred:
                rows = self.sarg(ctx, e.args[0].value)
                if not all(isinstance(r, SSeq) and not r.iterator for r in rows):
                    raise Unsupported(f"{src(e)}: the starred argument is not a sequence of sequences")
                rows = [list(r) for r in rows]
            elif any(isinstance(a, ast.Starred) for a in e.args):
                raise Unsupported(f"{src(e)}")
            else:
                rows = [list(self.sarg(ctx, a)) for a in e.args]
            if f == "enumerate" and len(rows) == 1 and not starred:
                out = SSeq(SSeq([k, x]) for k, x in enumerate(rows[0]))
            elif f == "zip":
                out = SSeq(SSeq(t) for t in zip(*rows))
            elif f == "product" and starred:
                if self.fn.get("require_imports", {}).get("product") != "itertools" or not self.fn.get("imports_checked__"):
                    raise Unsupported("product(...) without the checked `from itertools import product`")
                out = SSeq(SSeq(t) for t in itertools.product(*rows))
            else:
                raise Unsupported(f"{src(e)}")
            out.iterator = True
            return out
        raise Unsupported(f"not a static expression: {src(e)}")

    def bind(self, ctx, pat, value):
        if isinstance(pat, ast.Name):
            if pat.id in ctx.int_names or pat.id in self.lists or pat.id in {n for n, _ in self.fn.get("args", [])}:
                raise Unsupported(f"static binding of the declared name {pat.id}")
            self.static[pat.id] = value
            return
        if isinstance(pat, (ast.Tuple, ast.List)) and isinstance(value, SSeq) and not any(isinstance(x, ast.Starred) for x in pat.elts):
            items = list(value)
            if value.iterator:
                del value[:]                            # unpacking consumes an iterator
            if len(items) != len(pat.elts):
                raise Unsupported(f"unpacking {len(items)} static items into {src(pat)}")
            for p_, v_ in zip(pat.elts, items):
                self.bind(ctx, p_, v_)
            return
        raise Unsupported(f"static binding of {src(pat)}")

    def argterm(self, ctx, e):
        if self.is_static_expr(e):
            v = self.sval(ctx, e)
            if isinstance(v, SSeq):
                if v.iterator or not v or not all(isinstance(x, T) for x in v):
                    raise Unsupported(f"{src(e)}: not a static tuple of numbers")
                return str(v[0]) if len(v) == 1 else "(" + ", ".join(v) + ")"
        return py2coq.expr(ctx, e)

    def static_idents(self):
        out = set()

        def walk(v):
            if isinstance(v, T):
                out.update(re.findall(r"[A-Za-z_][A-Za-z_0-9']*", v))
            elif isinstance(v, SSeq):
                for x in v:
                    walk(x)
        for v in self.static.values():
            walk(v)
        return out

    def guard_rebind(self, ctx, name):
        """a `let name := ...` is about to be emitted: no live static term may mention that Coq name"""
        self.static.pop(name, None)
        if ctx.rename.get(name, name) in self.static_idents():
            raise Unsupported(f"{name} is re-bound while a static value still refers to it")

    def is_noop(self, s):
        """x = np.asarray(x, dtype=float) / np.array(x, dtype=float) on a known list of the numeric domain"""
        if isinstance(s, ast.Assign) and len(s.targets) == 1 and isinstance(s.targets[0], ast.Name) and isinstance(s.value, ast.Call):
            c, n = s.value, s.targets[0].id
            if src(c.func) in ("np.asarray", "np.array") and len(c.args) == 1 and isinstance(c.args[0], ast.Name) \
                    and c.args[0].id == n and {k.arg: src(k.value) for k in c.keywords} in ({}, {"dtype": "float"}) \
                    and n in self.lists and self.lists[n][1] == self.fn_dom:
                return True
        return False

    # ------------------------------------------------------------------ statements
    def type_of(self, ctx, name):
        if name in ctx.int_names:
            return "Z"
        if name in self.lists:
            return f"(list {ty_of(self.lists[name][1])})"
        return ctx.d["ty"]

    def changed(self, stmts):
        """names (re)bound and local lists mutated by the statements, in order of first occurrence"""
        out = []

        def visit(ss):
            for s in ss:
                if self.is_noop(s):
                    continue
                if isinstance(s, ast.Assign):
                    for t in s.targets:
                        if isinstance(t, ast.Name):
                            out.append(t.id)
                        elif isinstance(t, ast.Tuple):
                            out.extend(x.id for x in t.elts if isinstance(x, ast.Name))
                        elif isinstance(t, ast.Subscript) and isinstance(t.value, ast.Name):
                            out.append(t.value.id)
                elif isinstance(s, ast.AugAssign) and isinstance(s.target, ast.Name):
                    out.append(s.target.id)
                elif isinstance(s, ast.Expr) and isinstance(s.value, ast.Call) and isinstance(s.value.func, ast.Attribute) \
                        and s.value.func.attr == "append" and isinstance(s.value.func.value, ast.Name):
                    out.append(s.value.func.value.id)
                elif isinstance(s, ast.If):
                    visit(s.body)
                    visit(s.orelse)
                elif isinstance(s, (ast.For, ast.While)):
                    visit(s.body)
        visit(stmts)
        seen, res = set(), []
        for n in out:
            if n not in seen:
                seen.add(n)
                res.append(n)
        return res

    def check_loop_body(self, body):
        for st in body:
            for n in ast.walk(st):
                if isinstance(n, (ast.Return, ast.Break, ast.Continue, ast.Raise, ast.FunctionDef, ast.Lambda, ast.Yield,
                                  ast.YieldFrom, ast.Try, ast.With, ast.Global, ast.Nonlocal, ast.Delete, ast.NamedExpr)):
                    raise Unsupported(f"{type(n).__name__} inside a loop body")

    def loop_state(self, ctx, s, rest, targets):
        ch = self.changed(s.body)
        carried = [v for v in ch if v in self.defined and v not in targets]
        fresh = [v for v in ch if v not in self.defined] + list(targets)
        after = _names_loaded(rest)
        leak = [v for v in fresh if v in after]
        if leak:
            raise Unsupported(f"{leak} bound inside the loop (or loop targets) are read after it")
        if set(targets) & set(ch):
            raise Unsupported(f"loop target re-bound in the body: {sorted(set(targets) & set(ch))}")
        if not carried:
            raise Unsupported("loop without carried state")
        names = [ctx.rename.get(v, v) for v in carried]
        tup = "(" + ", ".join(names) + ")" if len(names) > 1 else names[0]
        pat = "'" + tup if len(names) > 1 else tup
        ty = " * ".join(self.type_of(ctx, v) for v in carried)
        return carried, tup, pat, ty

    def items(self, ctx, s):
        """(coq term of the item list, pattern, item type, {target: kind}) for the iterable of a for loop"""
        it, tg = s.iter, s.target

        def name(t):
            if not isinstance(t, ast.Name):
                raise Unsupported(f"loop target {src(t)}")
            if t.id in self.defined:
                raise Unsupported(f"loop target {t.id} shadows a name bound before the loop")
            return t.id
        if isinstance(it, ast.Call) and not it.keywords:
            f = src(it.func)
            if f == "range" and len(it.args) in (1, 2):
                i = name(tg)
                term = f"(py_range {self.zx(ctx, it.args[0])})" if len(it.args) == 1 else \
                    f"(py_range2 {self.zx(ctx, it.args[0])} {self.zx(ctx, it.args[1])})"
                return term, i, "Z", {i: "int"}
            if f == "enumerate" and len(it.args) == 1 and self.is_list(it.args[0]) \
                    and isinstance(tg, ast.Tuple) and len(tg.elts) == 2:
                i, x = name(tg.elts[0]), name(tg.elts[1])
                ln, el = self.lists[src(it.args[0])]
                return f"(py_enumerate {ln})", f"'({i}, {x})", f"Z * {el}", {i: "int", x: "int" if el == "Z" else "num"}
            if f == "zip" and len(it.args) == 2 and all(self.is_list(a) for a in it.args) \
                    and isinstance(tg, ast.Tuple) and len(tg.elts) == 2:
                x, y = name(tg.elts[0]), name(tg.elts[1])
                (ln1, el1), (ln2, el2) = self.lists[src(it.args[0])], self.lists[src(it.args[1])]
                return f"(combine {ln1} {ln2})", f"'({x}, {y})", f"{el1} * {el2}", \
                    {x: "int" if el1 == "Z" else "num", y: "int" if el2 == "Z" else "num"}
        if self.is_list(it):
            x = name(tg)
            ln, el = self.lists[src(it)]
            if is_nested(el):
                return ln, x, ty_of(el), {x: "list:" + el[len("list "):]}
            return ln, x, el, {x: "int" if el == "Z" else "num"}
        raise Unsupported(f"iterable {src(it)}")

    def stmt(self, ctx, s, rest, tail, on_raise):
        go = lambda: py2coq.block(ctx, rest, tail, on_raise)
        if isinstance(s, _Resume):
            return s.k()
        if src(s) in self.skip:
            return go()
        if self.is_noop(s):
            return go()
        # ---- TIE2: an `if` decided by the specialisation the definition is about
        if isinstance(s, ast.If) and src(s.test) in self.static_tests:
            chosen = s.body if self.static_tests[src(s.test)] else s.orelse
            return py2coq.block(ctx, list(chosen) + list(rest), tail, on_raise)
        # ---- TIE2: a, b = e1, e2  (no e_i reads a target): two assignments
        if isinstance(s, ast.Assign) and len(s.targets) == 1 and isinstance(s.targets[0], ast.Tuple) and isinstance(s.value, ast.Tuple) \
                and len(s.targets[0].elts) == len(s.value.elts) and all(isinstance(x, ast.Name) for x in s.targets[0].elts) \
                and not (_names_loaded(s.value.elts) & {x.id for x in s.targets[0].elts}) \
                and len({x.id for x in s.targets[0].elts}) == len(s.value.elts):
            parts = [ast.copy_location(ast.Assign(targets=[t_], value=v_), s) for t_, v_ in zip(s.targets[0].elts, s.value.elts)]
            return py2coq.block(ctx, [ast.fix_missing_locations(a_) for a_ in parts] + list(rest), tail, on_raise)
        # ---- TIE2: static sequences
        if isinstance(s, ast.Assign) and len(s.targets) == 1 and self.is_static_expr(s.value) \
                and not (isinstance(s.value, ast.Name) and not isinstance(self.static[s.value.id], SSeq)):
            if self.nest:
                raise Unsupported(f"static binding inside a loop / joined if: {src(s)}")
            v = self.sval(ctx, s.value)
            if isinstance(s.value, ast.Name) and isinstance(v, SSeq):
                raise Unsupported(f"alias of the static sequence {s.value.id}")
            self.bind(ctx, s.targets[0], v)
            return go()
        if isinstance(s, ast.Expr) and isinstance(s.value, ast.Call) and src(s.value.func) == "next":
            c = s.value
            if len(c.args) != 1 or c.keywords or not isinstance(c.args[0], ast.Name) or not isinstance(self.static.get(c.args[0].id), SSeq) \
                    or not self.static[c.args[0].id].iterator:
                raise Unsupported(f"{src(s)}: not a static iterator")
            if self.nest:
                raise Unsupported(f"{src(s)} inside a loop / joined if")
            it = self.static[c.args[0].id]
            if not it:
                raise Unsupported(f"{src(s)}: the iterator is exhausted (StopIteration)")
            del it[0]
            return go()
        if isinstance(s, ast.For) and self.is_static_expr(s.iter):
            if s.orelse:
                raise Unsupported("for ... else")
            if self.nest:
                raise Unsupported("unrolled loop inside a loop / joined if")
            self.check_loop_body(s.body)
            seq_ = self.sval(ctx, s.iter)
            if not isinstance(seq_, SSeq):
                raise Unsupported(f"iterable {src(s.iter)}")
            items = list(seq_)
            if seq_.iterator:
                del seq_[:]

            def unroll(i):
                if i == len(items):
                    return go()
                self.bind(ctx, s.target, items[i])
                body = [self.subst_ints(st) for st in s.body]
                m = _Resume()
                m.k = lambda: unroll(i + 1)
                return py2coq.block(ctx, body + [m], tail, on_raise)
            return unroll(0)
        # ---- a generic `let` must not capture a name that a live static term mentions
        if isinstance(s, ast.Assign):
            for t_ in s.targets:
                for n_ in ([t_] if isinstance(t_, ast.Name) else list(t_.elts) if isinstance(t_, ast.Tuple) else []):
                    if isinstance(n_, ast.Name):
                        self.guard_rebind(ctx, n_.id)
        if isinstance(s, ast.AugAssign) and isinstance(s.target, ast.Name):
            if isinstance(self.static.get(s.target.id), SSeq):
                raise Unsupported(f"augmented assignment to the static sequence {s.target.id}")
            self.guard_rebind(ctx, s.target.id)
        # ---- wave 8: return of a static tuple of numbers (a CoordinateND / tuple variant): a Coq tuple
        if isinstance(s, ast.Return) and s.value is not None and self.fn.get("ret_tuple") and self.is_static_expr(s.value):
            v = self.sval(ctx, s.value)
            if not isinstance(v, SSeq) or v.iterator or len(v) != self.fn["ret_tuple"] or not all(isinstance(x, T) and not isinstance(x, TZ) for x in v):
                raise Unsupported(f"{src(s)}: not a static tuple of {self.fn['ret_tuple']} numbers")
            return "(" + ", ".join(v) + ")"
        # ---- return of a Python int
        if isinstance(s, ast.Return) and self.fn.get("ret_int"):
            if s.value is None or not self.int_shape(ctx, s.value):
                raise Unsupported(f"return of a non-int: {src(s)}")
            return self.zx(ctx, s.value)
        if isinstance(s, ast.Assign) and len(s.targets) == 1:
            t, v = s.targets[0], s.value
            if isinstance(t, ast.Name):
                n = ctx.rename.get(t.id, t.id)
                le = self.list_expr(ctx, v)
                if le is not None:                       # a fresh local list
                    if t.id in ctx.int_names:
                        raise Unsupported(f"{t.id}: int name re-bound to a list")
                    term, el = le
                    if isinstance(v, ast.List):
                        el = self.local_list_types.get(t.id, el)
                        self.py_lists.add(t.id)
                    elif t.id in self.local_list_types and self.local_list_types[t.id] != el:
                        raise Unsupported(f"{t.id}: declared list of {self.local_list_types[t.id]}, bound to a list of {el}")
                    else:
                        self.py_lists.discard(t.id)
                    self.lists[t.id] = (n, el)
                    self.local_lists.add(t.id)
                    self.defined.add(t.id)
                    return f"let {n} := {term} in\n  {go()}"
                if t.id in self.lists:
                    raise Unsupported(f"list {t.id} re-bound to a non-list: {src(s)}")
                if isinstance(v, ast.Call) and src(v.func) in self.fn.get("float_to_int", {}) and len(v.args) == 1 and not v.keywords \
                        and not self.int_shape(ctx, v.args[0]):
                    if ctx.dom != "Q":
                        raise Unsupported(f"{src(v)}: float -> int conversions are read in the Q domain only")
                    self.guard_rebind(ctx, t.id)
                    term = f"({self.fn['float_to_int'][src(v.func)]} {py2coq.expr(ctx, v.args[0])})"
                    ctx.int_names.add(t.id)
                    self.defined.add(t.id)
                    return f"let {n} := {term} in\n  {go()}"
                if self.is_int(ctx, v) or (t.id in ctx.int_names and self.int_shape(ctx, v)):
                    term = self.zx(ctx, v)
                    ctx.int_names.add(t.id)
                    self.defined.add(t.id)
                    return f"let {n} := {term} in\n  {go()}"
                if t.id in ctx.int_names:
                    raise Unsupported(f"int name {t.id} re-bound to a non-int: {src(s)}")
                self.defined.add(t.id)
                return None                              # generic `let`
            if isinstance(t, ast.Tuple):
                for x in t.elts:
                    if isinstance(x, ast.Name):
                        if x.id in ctx.int_names or x.id in self.lists:
                            raise Unsupported(f"tuple assignment to the int/list name {x.id}")
                        self.defined.add(x.id)
                return None
            if isinstance(t, ast.Subscript) and isinstance(t.value, ast.Name) and t.value.id in self.local_lists:
                ln, el = self.lists[t.value.id]
                if isinstance(t.slice, ast.Slice):
                    raise Unsupported(f"slice assignment {src(s)}")
                val = self.zx(ctx, v) if el == "Z" else py2coq.expr(ctx, v)
                return f"let {ln} := (py_set {ln} {self.zx(ctx, t.slice)} {val}) in\n  {go()}"
            if isinstance(t, ast.Subscript):
                raise Unsupported(f"store into something that is not a local list: {src(s)}")
            return None
        if isinstance(s, ast.AugAssign) and isinstance(s.target, ast.Name):
            if s.target.id in ctx.int_names:
                fake = ast.BinOp(left=ast.Name(id=s.target.id, ctx=ast.Load()), op=s.op, right=s.value)
                if not self.int_shape(ctx, fake):
                    raise Unsupported(f"int name updated with a non-int: {src(s)}")
                n = ctx.rename.get(s.target.id, s.target.id)
                return f"let {n} := {self.zx(ctx, fake)} in\n  {go()}"
            if s.target.id in self.lists:
                raise Unsupported(f"augmented assignment to a list: {src(s)}")
            return None
        if isinstance(s, ast.Expr) and isinstance(s.value, ast.Call) and isinstance(s.value.func, ast.Attribute) \
                and s.value.func.attr == "append":
            c = s.value
            if not (isinstance(c.func.value, ast.Name) and c.func.value.id in self.local_lists and len(c.args) == 1 and not c.keywords):
                raise Unsupported(f"append to something that is not a local list: {src(s)}")
            ln, el = self.lists[c.func.value.id]
            if is_nested(el):
                inner = self.list_expr(ctx, c.args[0])
                if inner is None or f"list {inner[1]}" != el:
                    raise Unsupported(f"{src(s)}: the list holds {el}")
                val = inner[0]
            else:
                if self.list_expr(ctx, c.args[0]) is not None:
                    raise Unsupported(f"{src(s)}: a list appended to a list of {el} (declare it in local_lists)")
                val = self.zx(ctx, c.args[0]) if el == "Z" else py2coq.expr(ctx, c.args[0])
            return f"let {ln} := ({ln} ++ cons {val} nil) in\n  {go()}"
        # ---- if without return: join the live names / local lists it changes
        if isinstance(s, ast.If) and not py2coq.always_returns(s.body) and not (s.orelse and py2coq.always_returns(s.orelse)):
            vs = self.changed([s])
            live = _names_loaded(rest) | (set(re.findall(r"[A-Za-z_][A-Za-z_0-9']*", tail)) if tail else set())
            vs = [v for v in vs if v in live or ctx.rename.get(v, v) in live]
            if not vs:
                raise Unsupported("if without effect")
            names = [ctx.rename.get(v, v) for v in vs]
            join = "(" + ", ".join(names) + ")" if len(names) > 1 else names[0]
            pat = "'" + join if len(names) > 1 else join
            test = py2coq.bexpr(ctx, s.test)
            ints0, lists0, loc0, def0 = set(ctx.int_names), dict(self.lists), set(self.local_lists), set(self.defined)
            self.nest += 1
            try:
                a = py2coq.block(ctx, s.body, join, on_raise)
                ints1 = set(ctx.int_names)
                ctx.int_names.clear(); ctx.int_names.update(ints0)
                self.lists, self.local_lists, self.defined = dict(lists0), set(loc0), set(def0)
                b = py2coq.block(ctx, s.orelse, join, on_raise)
            finally:
                self.nest -= 1
            if {v for v in vs if v in ints1} != {v for v in vs if v in ctx.int_names}:
                raise Unsupported("a joined name is an int in one branch only")
            self.defined |= set(vs)
            return f"let {pat} := (if {test}\n   then {a}\n   else {b}) in\n  {go()}"
        if isinstance(s, ast.For):
            if s.orelse:
                raise Unsupported("for ... else")
            self.check_loop_body(s.body)
            items, ipat, ity, kinds = self.items(ctx, s)
            ints0, def0, lists0 = set(ctx.int_names), set(self.defined), dict(self.lists)
            for k, v in kinds.items():
                if v.startswith("list:"):                 # an item of a list of lists is a list inside the body
                    self.lists[k] = (k, v[len("list:"):])
            try:
                carried, tup, pat, ty = self.loop_state(ctx, s, rest, list(kinds))
            except Unsupported:
                self.lists = lists0
                raise
            ctx.int_names.update(k for k, v in kinds.items() if v == "int")
            self.defined |= set(kinds)
            self.nest += 1
            try:
                body = py2coq.block(ctx, s.body, tup, None)
            finally:
                self.nest -= 1
            ctx.int_names.clear(); ctx.int_names.update(ints0)
            self.defined = def0
            for k, v in kinds.items():
                if v.startswith("list:"):
                    self.lists.pop(k, None)
                    if k in lists0:
                        self.lists[k] = lists0[k]
            return (f"let {pat} := (fold_left (fun (st__ : {ty}) (it__ : {ity}) =>\n    let {pat} := st__ in let {ipat} := it__ in\n    {body})\n"
                    f"    {items} {tup}) in\n  {go()}")
        if isinstance(s, ast.While):
            if s.orelse:
                raise Unsupported("while ... else")
            fuel, on_fuel = self.fn.get("fuel"), self.fn.get("on_fuel")
            if fuel is None or on_fuel is None:
                raise Unsupported("while loop without declared fuel / on_fuel")
            self.check_loop_body(s.body)
            carried, tup, pat, ty = self.loop_state(ctx, s, rest, [])
            cond_names = _names_loaded([s.test])
            ints0, def0 = set(ctx.int_names), set(self.defined)
            cond = py2coq.bexpr(ctx, s.test)
            self.nest += 1
            try:
                body = py2coq.block(ctx, s.body, tup, None)
            finally:
                self.nest -= 1
            ctx.int_names.clear(); ctx.int_names.update(ints0)
            self.defined = def0
            return (f"match py_while {fuel}\n    (fun (st__ : {ty}) => let {pat} := st__ in {cond})\n"
                    f"    (fun (st__ : {ty}) => let {pat} := st__ in\n    {body})\n    {tup} with\n"
                    f"  | None => {on_fuel}\n  | Some st__ => let {pat} := st__ in\n  {go()}\n  end")
        if isinstance(s, (ast.Break, ast.Continue)):
            raise Unsupported(type(s).__name__)
        return None


# ---------------------------------------------------------------------------------------------------------------------------
# wave 8 (audit5a X-c / X-d): what the translator reads must be what Python runs.  `find_function` takes the FIRST def of a
# name, ignores decorators and knows nothing of the module namespace; the guards below refuse (fail closed)
#   * a function / class that is defined or bound more than once in its scope (Python binds the LAST def),
#   * a decorator list other than the one the spec declares ("decorators": [...], default none; classes: none),
#   * a free name of the function body that is bound more than once at module level, a name the translator reads with its
#     built-in meaning (max, len, enumerate, zip, tuple, ...) that the module or the function binds at all, `np` that is not
#     exactly `import numpy as np`, a `global` declaration of such a name anywhere, and `from m import *`.
READ_AS_BUILTIN = {"max", "min", "len", "enumerate", "zip", "tuple", "range", "next", "abs", "int", "float", "isinstance", "list", "sum"}
KNOWN_ALIASES = {"np": "numpy"}


def _binds(n, name):
    """does the module-level / class-level statement n bind `name`?  (defs and classes are not entered)"""
    if isinstance(n, (ast.FunctionDef, ast.AsyncFunctionDef, ast.ClassDef)):
        return n.name == name
    for x in ast.walk(n):
        if isinstance(x, (ast.FunctionDef, ast.AsyncFunctionDef, ast.ClassDef)) and x.name == name:
            return True
        if isinstance(x, (ast.Import, ast.ImportFrom)) and any((a.asname or a.name.split(".")[0]) == name for a in x.names):
            return True
        if isinstance(x, ast.Name) and x.id == name and isinstance(x.ctx, (ast.Store, ast.Del)):
            return True
    return False


def source_guards(tree, qual, decorators, node=None):
    """refuses unless `qual` resolves to exactly one def per scope with the declared decorators and the free names of its
    body have one meaning; returns the function node.  `node` = an already selected registered variant of qual."""
    scope, owner = tree.body, None
    for p in qual.split("."):
        hits = [n for n in scope if _binds(n, p)]
        if len(hits) != 1 or not isinstance(hits[0], (ast.FunctionDef, ast.ClassDef)):
            raise Unsupported(f"{qual}: `{p}` is bound {len(hits)} times in its scope (Python runs the last binding)")
        owner = hits[0]
        if isinstance(owner, ast.ClassDef) and owner.decorator_list:
            raise Unsupported(f"{qual}: class {p} is decorated: {[src(d) for d in owner.decorator_list]}")
        scope = owner.body
    if not isinstance(owner, ast.FunctionDef):
        raise Unsupported(f"{qual}: not a function")
    got = [src(d) for d in owner.decorator_list]
    if got != list(decorators):
        raise Unsupported(f"{qual}: decorators {got}, the spec declares {list(decorators)}")
    body = node if node is not None else owner
    for x in ast.walk(tree):
        if isinstance(x, ast.ImportFrom) and any(a.name == "*" for a in x.names):
            raise Unsupported(f"{qual}: the module has `from {x.module} import *`")
    params = {a.arg for a in ast.walk(body) if isinstance(a, ast.arg)}
    stored = {x.id for x in ast.walk(body) if isinstance(x, ast.Name) and isinstance(x.ctx, (ast.Store, ast.Del))}
    loaded = {x.id for x in ast.walk(body) if isinstance(x, ast.Name) and isinstance(x.ctx, ast.Load)}
    loaded |= {src(d).split(".")[0] for d in owner.decorator_list}
    special = READ_AS_BUILTIN | set(KNOWN_ALIASES)
    if (params | stored) & special & loaded:
        raise Unsupported(f"{qual}: {sorted((params | stored) & special & loaded)} bound inside the function")
    globs = {g for x in ast.walk(tree) if isinstance(x, (ast.Global, ast.Nonlocal)) for g in x.names}
    for name in sorted(loaded - params - stored):
        b = [n for n in tree.body if _binds(n, name)]
        if name in globs:
            raise Unsupported(f"{qual}: `{name}` is declared global / nonlocal somewhere in the module")
        if name in READ_AS_BUILTIN and b:
            raise Unsupported(f"{qual}: the built-in `{name}` is re-bound at module level")
        if name in KNOWN_ALIASES and not (len(b) == 1 and isinstance(b[0], ast.Import) and any(
                a.name == KNOWN_ALIASES[name] and a.asname == name for a in b[0].names)):
            raise Unsupported(f"{qual}: `{name}` is not (only) `import {KNOWN_ALIASES[name]} as {name}`")
        if len(b) > 1:
            raise Unsupported(f"{qual}: `{name}` is bound {len(b)} times at module level")
    return owner


def guarded(tree, spec, fn):
    """emitter (default of specs/TIE.py): source_guards, then the generic machinery"""
    source_guards(tree, fn["py"], fn.get("decorators", []))
    fn2 = {k: v for k, v in fn.items() if k != "emitter"}
    return py2coq.translate_function(tree, spec, fn2)


def pinned(tree, spec, fn):
    """emitter: NOT a translation.  fn["pin"] = [(enclosing `if` tests, statement text), ...] must be exactly the list of the
    statements of fn["py"] that store into one of fn["pin_targets"] (attribute texts), in source order: the spec's reading of
    those attributes (e.g. grid.origin = 0, one origin coordinate for every axis) is then the text it was written against.
    Emits a comment only; any edit of those statements (or a new store) is refused."""
    node = source_guards(tree, fn["py"], fn.get("decorators", []))
    found = []

    def visit(stmts, tests):
        for st in stmts:
            if isinstance(st, ast.If):
                visit(st.body, tests + [src(st.test)])
                visit(st.orelse, tests + ["not " + src(st.test)])
            elif isinstance(st, (ast.For, ast.While, ast.With, ast.Try, ast.FunctionDef, ast.Match)):
                if any(src(x) in fn["pin_targets"] for x in ast.walk(st) if isinstance(x, ast.Attribute) and isinstance(x.ctx, ast.Store)):
                    raise Unsupported(f"{fn['py']}: a pinned attribute is stored inside a {type(st).__name__}")
            elif any(src(x) in fn["pin_targets"] for x in ast.walk(st) if isinstance(x, ast.Attribute) and isinstance(x.ctx, ast.Store)):
                found.append((tests, src(st)))
    visit(node.body, [])
    want = [(list(t), s_) for t, s_ in fn["pin"]]
    if found != want:
        raise Unsupported(f"{fn['py']}: stores into {fn['pin_targets']} are {found}, the spec was written against {want}")
    return f"(* PINNED (not translated) {fn['py']}: " + "; ".join(s_ for _, s_ in found).replace("*)", "* )") + " *)\n"


def registered(tree, spec, fn):
    """emitter: the `_` that is registered on a singledispatchmethod (`@<name>.register`) of class fn["py"] = "Class.<name>"
    and whose first non-self parameter is annotated fn["variant_of"]; translated by the generic machinery"""
    cls_name, meth = fn["py"].split(".")
    cls = next((n for n in tree.body if isinstance(n, ast.ClassDef) and n.name == cls_name), None)
    if cls is None:
        raise Unsupported(f"{cls_name}: not found")
    found = []
    for n in cls.body:
        if isinstance(n, ast.FunctionDef) and n.name == "_" and [src(d) for d in n.decorator_list] == [f"{meth}.register"]:
            args = [a for a in n.args.args if a.arg != "self"]
            if args and args[0].annotation is not None and src(args[0].annotation) == fn["variant_of"]:
                found.append(n)
    if len(found) != 1:
        raise Unsupported(f"{fn['py']}: {len(found)} variants registered for {fn['variant_of']}")
    source_guards(tree, fn["py"], ["singledispatchmethod"], node=found[0])      # the dispatcher itself: defined once, that decorator
    b = [n for n in tree.body if _binds(n, "singledispatchmethod")]
    if not (len(b) == 1 and isinstance(b[0], ast.ImportFrom) and b[0].module == "functools" and b[0].level == 0
            and any(a.name == "singledispatchmethod" and a.asname is None for a in b[0].names)):
        raise Unsupported(f"{fn['py']}: `singledispatchmethod` is not (only) `from functools import singledispatchmethod`")
    for n in cls.body:                     # register(...) called as a function, or a second decorator on a variant: refused
        if isinstance(n, ast.FunctionDef) and any(src(d).startswith(f"{meth}.") for d in n.decorator_list) \
                and [src(d) for d in n.decorator_list] != [f"{meth}.register"]:
            raise Unsupported(f"{fn['py']}: variant with decorators {[src(d) for d in n.decorator_list]}")
        if not isinstance(n, ast.FunctionDef) and any(isinstance(x, ast.Attribute) and src(x) == f"{meth}.register" for x in ast.walk(n)):
            raise Unsupported(f"{fn['py']}: {meth}.register used outside a decorator")
    node = copy.deepcopy(found[0])
    node.name = "registered_variant__"
    fake = ast.Module(body=[node], type_ignores=[])
    fn2 = {k: v for k, v in fn.items() if k not in ("emitter", "variant_of")}
    fn2["py"] = "registered_variant__"
    fn2["decorators"] = [f"{meth}.register"]     # the fake module's def still carries it (read by the core's find_function guard)
    return py2coq.translate_function(fake, spec, fn2)


def checked(tree, spec, fn):
    """emitter: verifies fn["require_imports"] = {name: module} -- the module-level `from <module> import <name>` exists and the
    name is bound nowhere else at module level or inside the function -- then translates with the generic machinery"""
    req = fn.get("require_imports", {})
    source_guards(tree, fn["py"], fn.get("decorators", []))
    node = py2coq.find_function(tree, fn["py"])
    for name, module in req.items():
        imports = [n for n in tree.body if isinstance(n, ast.ImportFrom) and n.module == module and n.level == 0
                   and any(a.name == name and a.asname is None for a in n.names)]
        others = [n for n in tree.body
                  if (isinstance(n, (ast.FunctionDef, ast.ClassDef)) and n.name == name)
                  or (isinstance(n, (ast.Import, ast.ImportFrom)) and n not in imports
                      and any((a.asname or a.name.split(".")[0]) == name for a in n.names))
                  or (isinstance(n, (ast.Assign, ast.AugAssign, ast.AnnAssign))
                      and any(isinstance(x, ast.Name) and x.id == name and isinstance(x.ctx, ast.Store) for x in ast.walk(n)))]
        local = [x for x in ast.walk(node) if (isinstance(x, ast.Name) and x.id == name and isinstance(x.ctx, ast.Store))
                 or (isinstance(x, ast.arg) and x.arg == name)]
        if len(imports) != 1 or others or local:
            raise Unsupported(f"{fn['py']}: `{name}` is not (only) `from {module} import {name}`")
    fn2 = {k: v for k, v in fn.items() if k != "emitter"}
    fn2["imports_checked__"] = True
    return py2coq.translate_function(tree, spec, fn2)

"""py2coq plug-in for rpylib/montecarlo/multilevel/criteria.py (C06): reads the numpy vector code of
compute_mc_paths_giles pointwise (one level), fail-closed like the rest of py2coq.

  cl.copy()                   -> cl                      (a copy of the same value)
  np.sum(np.sqrt(vl * cl))    -> S                       (the level-independent sum, an argument of the scalar core;
                                                          the hand model Model/Alloc.v supplies  S = sum_k sqrt(V_k * C_k))
  np.ceil(X)                  -> Rceil X
  X.astype(int)               -> X                       (an integer-valued real)
"""
import ast

import py2coq


class Ext:
    def __init__(self, ctx, spec, fn):
        self.fn = fn

    def expr(self, ctx, e):
        if not self.fn.get("giles_core"):
            return None
        if isinstance(e, ast.Call):
            f = py2coq.src(e.func)
            if f == "cl.copy" and not e.args and not e.keywords:
                return "cl"
            if f == "np.sum" and len(e.args) == 1 and not e.keywords:
                if py2coq.src(e.args[0]) != "np.sqrt(vl * cl)":
                    raise py2coq.Unsupported(f"np.sum of {py2coq.src(e.args[0])} (expected np.sqrt(vl * cl))")
                return "S"
            if f == "np.ceil" and len(e.args) == 1 and not e.keywords:
                return f"(Rceil {py2coq.expr(ctx, e.args[0])})"
            if isinstance(e.func, ast.Attribute) and e.func.attr == "astype" and len(e.args) == 1 \
                    and py2coq.src(e.args[0]) == "int" and not e.keywords:
                return py2coq.expr(ctx, e.func.value)
        return None

    def bexpr(self, ctx, e):
        return None

    def stmt(self, ctx, s, rest, tail, on_raise):
        return None

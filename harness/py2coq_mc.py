"""py2coq plug-in for rpylib/montecarlo/multilevel/criteria.py (C06): reads the numpy vector code of
compute_mc_paths_giles pointwise (one level), fail-closed like the rest of py2coq.

  cl.copy()                   -> cl                      (a copy of the same value)
  np.sum(np.sqrt(vl * cl))    -> S                       (the level-independent sum, an argument of the scalar core;
                                                          the hand model Model/Alloc.v supplies  S = sum_k sqrt(V_k * C_k))
  np.ceil(X)                  -> Rceil X
  X.astype(int)               -> X                       (an integer-valued real)
  np.all(B)                   -> B                       (pointwise reading of the vector test)
  raise ValueError(...)       -> fn["on_raise"]          (error value -1: sample sizes are never negative)

criteria_giles (fn["list_param"] = "ml"): the array of level means is a Coq `list R`, indexing stays visible:
  ml[-k]                      -> nth (length ml - k) ml 0   (numpy raises IndexError when k > len(ml))
  len(ml) >= k                -> Nat.leb k (length ml)
"""
import ast

import py2coq


class Ext:
    def __init__(self, ctx, spec, fn):
        self.fn = fn

    def _neg_index(self, e):
        lp = self.fn.get("list_param")
        if lp and isinstance(e, ast.Subscript) and isinstance(e.value, ast.Name) and e.value.id == lp \
                and isinstance(e.slice, ast.UnaryOp) and isinstance(e.slice.op, ast.USub) \
                and isinstance(e.slice.operand, ast.Constant) and isinstance(e.slice.operand.value, int) and e.slice.operand.value >= 1:
            return e.slice.operand.value
        return None

    def expr(self, ctx, e):
        k = self._neg_index(e)
        if k is not None:
            lp = self.fn["list_param"]
            return f"(nth (length {lp} - {k}) {lp} (IZR 0))"
        if self.fn.get("list_param") and isinstance(e, ast.Subscript) and isinstance(e.value, ast.Name) and e.value.id == self.fn["list_param"]:
            raise py2coq.Unsupported(f"indexing of {self.fn['list_param']} other than by a negative literal: {py2coq.src(e)}")
        if not self.fn.get("giles_core"):
            return None
        if isinstance(e, ast.Call):
            f = py2coq.src(e.func)
            if f == "cl.copy" and not e.args and not e.keywords:
                return "cl"
            if f == "np.sum" and len(e.args) == 1 and not e.keywords:
                if py2coq.src(e.args[0]) != "np.sqrt(vl * cl)":
                    raise py2coq.Unsupported(f"np.sum of {py2coq.src(e.args[0])} (expected np.sqrt(vl * cl))")
                return "S"
            if f == "np.ceil" and len(e.args) == 1 and not e.keywords:
                return f"(Rceil {py2coq.expr(ctx, e.args[0])})"
            if isinstance(e.func, ast.Attribute) and e.func.attr == "astype" and len(e.args) == 1 \
                    and py2coq.src(e.args[0]) == "int" and not e.keywords:
                return py2coq.expr(ctx, e.func.value)
        return None

    def bexpr(self, ctx, e):
        lp = self.fn.get("list_param")
        if lp and isinstance(e, ast.Compare) and len(e.ops) == 1 and isinstance(e.ops[0], ast.GtE) \
                and py2coq.src(e.left) == f"len({lp})" and isinstance(e.comparators[0], ast.Constant) \
                and isinstance(e.comparators[0].value, int):
            return f"(Nat.leb {e.comparators[0].value} (length {lp}))"
        if self.fn.get("giles_core") and isinstance(e, ast.Call) and py2coq.src(e.func) == "np.all" and len(e.args) == 1 and not e.keywords:
            return py2coq.bexpr(ctx, e.args[0])
        return None

    def stmt(self, ctx, s, rest, tail, on_raise):
        return None

"""Regression test of the source guards of harness/py2coq.py (wave 8, audit5b X-a / X-d, top-10 #2 and #3).

A copy of /repo/rpylib is edited (one mutation at a time), `py2coq.generate_module` is called on the copy and the text is
compared with the generation from the unedited copy.  Every mutation below is an edit after which the def that Python RUNS
is no longer the def (or the signature) the translator used to read, and each of them was silent before wave 8.  Outcome:
  refused  : generate_module raised (fail closed; the check reports a broken obligation)
  term     : the generated Definitions changed
  header   : only the header comment (decorators / dispatch variant / defaults that were read) changed: allowed for the
             semantically transparent decorators of py2coq.TRANSPARENT_DECORATORS only
  SILENT   : identical text -- a failure of this test
plus three tests of generate_all (a plug-in that cannot be imported, an unknown module name, a spec file that does not load).

Run:  cd /verif/harness && PYTHONPATH=/repo:/verif/harness/shims:/verif/harness /venv/bin/python py2coq_selftest.py
(exit code 0 iff every outcome is the expected one; ~5 s, no coqc.  With the translator of commit 591ddde registered as module
`py2coq` the 20 non-control mutations are all SILENT and generate_all dies on the missing plug-in.)
"""
from __future__ import annotations

import os
import shutil
import sys
import tempfile
from pathlib import Path

HERE = Path(__file__).resolve().parent
sys.path.insert(0, str(HERE))
import py2coq  # noqa: E402

REPO = Path(os.environ.get("RPYLIB_REPO", "/repo"))

COPULA = "rpylib/model/levycopulamodel.py"
SPATIAL = "rpylib/grid/spatial.py"
UTILS = "rpylib/model/utils.py"
CRITERIA = "rpylib/montecarlo/multilevel/criteria.py"
LEVYCOPULA = "rpylib/distribution/levycopula.py"
PAYOFF = "rpylib/product/payoff.py"
LEVYMODEL = "rpylib/model/levymodel/levymodel.py"
EXPLEVY = "rpylib/model/levymodel/exponentialoflevymodel.py"


def sub1(text: str, old: str, new: str, after: str | None = None) -> str:
    """replace the first occurrence of `old` (after the first occurrence of `after`) -- it must exist"""
    start = text.index(after) if after else 0
    i = text.index(old, start)
    return text[:i] + new + text[i + len(old):]


def append(new: str):
    return lambda t: t + "\n\n" + new + "\n"


# (name, file, edit, module to regenerate, expected outcomes)
MUTATIONS = [
    # ---- (a) the name is bound more than once: Python runs the LAST binding, the old find_function read the FIRST
    ("duplicate def later in the class", COPULA,
     lambda t: sub1(t, "    def _mass_2d(self", "    def _mass_1d(self, a, b, index):\n        return 0.0\n\n    def _mass_2d(self"),
     "GenC12Mass", {"refused"}),
    ("duplicate def appended to the module", UTILS, append("def run_default_calibration(*args, **kwargs):\n    return None"),
     "GenC20Calib", {"refused"}),
    ("module-level name re-bound by an assignment", CRITERIA, append("criteria_giles = lambda alpha, ml, rmse: True"),
     "GenC06Criteria", {"refused"}),
    ("second def under an `if`", CRITERIA, append("if True:\n    def criteria_giles(alpha, ml, rmse):\n        return True"),
     "GenC06Criteria", {"refused"}),
    ("method monkey-patched at the end of the module", COPULA, append("LevyCopulaModel._mass_2d = lambda self, a, b, indices=None: 0.0"),
     "GenC12Mass", {"refused"}),
    ("method replaced through setattr", COPULA, append("setattr(LevyCopulaModel, '_mass_3d', lambda self, a, b, indices=None: 0.0)"),
     "GenC12Mass", {"refused"}),
    # ---- (b) decorators
    ("decorator that negates the result", COPULA,
     lambda t: sub1(t, "    def _mass_2d(self", "    @_negate\n    def _mass_2d(self").replace(
         "\nclass LevyCopulaModel", "\ndef _negate(f):\n    return lambda *a, **k: -f(*a, **k)\n\n\nclass LevyCopulaModel", 1),
     "GenC12Mass", {"refused"}),
    ("np.vectorize on a generic-path method", LEVYCOPULA,
     lambda t: sub1(t, "    def _condition_distribution_2d(", "    @np.vectorize\n    def _condition_distribution_2d(", after="class ClaytonCopula"),
     "GenC11Clayton", {"refused"}),
    ("np.vectorize on a def read by a plug-in (py2coq_c12inv)", COPULA,
     lambda t: sub1(t, "    def inverse_tail_integral(", "    @np.vectorize\n    def inverse_tail_integral("),
     "GenC12Inverse", {"refused"}),
    ("transparent decorator (lru_cache): allowed, recorded in the header", COPULA,
     lambda t: sub1(t, "    def _mass_1d(self", "    @lru_cache\n    def _mass_1d(self"),
     "GenC12Mass", {"header"}),
    ("decorator on the enclosing class", PAYOFF,
     lambda t: sub1(t, "class Vanilla(Payoff):", "def _wrap(cls):\n    return cls\n\n\n@_wrap\nclass Vanilla(Payoff):"),
     "GenC17Payoff", {"refused"}),
    ("declared class decorator replaced", EXPLEVY, lambda t: sub1(t, "@MomentsDecorator()", "@MomentsDecorator(2)"),
     "GenC10Exp", {"refused"}),
    # ---- (c) singledispatch: the variant Python dispatches to
    ("variant registered for the spec's argument type (int)", SPATIAL,
     lambda t: sub1(t, "    @singledispatchmethod\n    def right_point(",
                    "    @left_point.register\n    def _(self, coordinate: int) -> float:\n        return 0.0\n\n"
                    "    @singledispatchmethod\n    def right_point("),
     "GenC01ChainR", {"refused"}),
    ("variant registered with register(type)", SPATIAL,
     lambda t: sub1(t, "    @singledispatchmethod\n    def right_point(",
                    "    @left_point.register(int)\n    def _(self, coordinate) -> float:\n        return 0.0\n\n"
                    "    @singledispatchmethod\n    def right_point("),
     "GenC01ChainR", {"refused"}),
    ("variant registered by a call at the end of the module", SPATIAL,
     append("CTMCGrid.left_point.register(int, lambda self, coordinate: 0.0)"), "GenC01ChainR", {"refused"}),
    ("a registered variant removed", SPATIAL,
     lambda t: sub1(t, "    @right_point.register\n    def _(self, coordinate: CoordinateND)", "    def _unused(self, coordinate: CoordinateND)"),
     "GenC01ChainR", {"refused"}),
    # ---- (d) parameter defaults and the rest of the signature
    ("default changed in a def read by a plug-in (py2coq_c20)", UTILS,
     lambda t: sub1(t, "bs_sigma=0.1", "bs_sigma=0.30", after="def run_default_calibration(") if "bs_sigma=0.1" in t
     else sub1(t, "bs_sigma: float = 0.1", "bs_sigma: float = 0.30", after="def run_default_calibration("),
     "GenC20Calib", {"refused"}),
    ("default added to a parameter", LEVYMODEL,
     lambda t: sub1(t, "def _truncated_interval(self, a, b):", "def _truncated_interval(self, a, b=0.0):"),
     "GenC01Trunc", {"refused"}),
    ("declared default changed", COPULA,
     lambda t: sub1(t, "def _mass_2d(self, a, b, indices: list[int] = None):", "def _mass_2d(self, a, b, indices: list[int] = (0, 1)):"),
     "GenC12Mass", {"refused"}),
    ("*args added to the signature", COPULA,
     lambda t: sub1(t, "def _mass_1d(self, a, b, index):", "def _mass_1d(self, a, b, index, *rest):"),
     "GenC12Mass", {"refused"}),
    # ---- control: an ordinary edit of a translated body still changes the term
    ("body edit (control)", PAYOFF, lambda t: sub1(t, "return underlying - self.strike", "return self.strike - underlying"),
     "GenC17Payoff", {"term"}),
]


def strip_header(text: str) -> str:
    lines = text.split("\n")
    i = 0
    while i < len(lines) and lines[i].startswith("(*") and lines[i].rstrip().endswith("*)"):
        i += 1
    return "\n".join(lines[i:])


def outcome(mod, root: Path, name: str, spec, ref: str) -> tuple[str, str]:
    try:
        text = mod.generate_module(root, name, spec)
    except Exception as e:   # noqa: BLE001
        return "refused", f"{type(e).__name__}: {e}"
    if text == ref:
        return "SILENT", ""
    if strip_header(text) == strip_header(ref):
        return "header", "; ".join(ln for ln in text.split("\n") if ln.startswith("(* read") and ln not in ref)
    return "term", ""


def main() -> int:
    specs, load_failures = py2coq.load_specs()
    if load_failures:
        print("spec files that do not load:", load_failures)
    base = HERE.parent / "build"
    base.mkdir(exist_ok=True)
    tmp = Path(tempfile.mkdtemp(prefix="py2coq_selftest_", dir=base))
    bad = 0
    try:
        clean = tmp / "clean"
        shutil.copytree(REPO / "rpylib", clean / "rpylib", ignore=shutil.ignore_patterns("__pycache__"))
        refs = {}
        for i, (what, file, edit, name, expected) in enumerate(MUTATIONS):
            if name not in refs:
                refs[name] = py2coq.generate_module(clean, name, specs[name])   # must not raise on the unedited tree
            root = tmp / f"m{i}"
            shutil.copytree(clean, root)
            src_text = (root / file).read_text()
            try:
                new_text = edit(src_text)
            except ValueError:
                print(f"[{i:2d}] STALE    {what}: the anchor of this mutation is no longer in {file}")
                bad += 1
                continue
            compile(new_text, file, "exec")   # the mutant is valid Python
            (root / file).write_text(new_text)
            got, detail = outcome(py2coq, root, name, specs[name], refs[name])
            ok = got in expected
            bad += 0 if ok else 1
            line = f"[{i:2d}] {'ok  ' if ok else 'FAIL'} {got:8s} {name:15s} {what}"
            print(line)
            if detail:
                print(f"       {detail[:230]}")
            shutil.rmtree(root)

        # ---- generate_all: one broken module must not stop the others (audit5b X-a)
        good = "GenC01Trunc"
        table = {"GenBrokenPlugin": dict(specs[good], ext="py2coq_plugin_that_does_not_exist"),
                 "GenBrokenEmitter": dict(specs[good], funcs=[dict(specs[good]["funcs"][0], emitter="py2coq_loops:no_such_function")]),
                 good: specs[good]}
        real = py2coq.load_specs
        try:
            py2coq.load_specs = lambda: (dict(table), {"specs/Cbroken.py": "SyntaxError: (simulated)"})
            out = tmp / "Gen"
            changed, failures = py2coq.generate_all(clean, out, only={"GenBrokenPlugin", "GenBrokenEmitter", good, "GenNoSuchModule"})
        finally:
            py2coq.load_specs = real
        tests = [
            ("missing plug-in (ImportError) is that module's failure only", "ModuleNotFoundError" in failures.get("GenBrokenPlugin", "")),
            ("missing emitter function (AttributeError) is that module's failure only", "AttributeError" in failures.get("GenBrokenEmitter", "")),
            ("the failed modules are replaced by the py2coq_failed stub", "py2coq_failed" in (out / "GenBrokenPlugin.v").read_text()),
            ("the other module is still generated", good not in failures and (out / f"{good}.v").read_text() == refs[good]),
            ("a requested module that no spec defines is a failure", "GenNoSuchModule" in failures),
            ("a spec file that does not load is reported", "specs/Cbroken.py" in failures),
        ]
        for what, ok in tests:
            print(f"[ga] {'ok  ' if ok else 'FAIL'} generate_all: {what}")
            bad += 0 if ok else 1
    finally:
        shutil.rmtree(tmp, ignore_errors=True)
    print(f"py2coq_selftest: {len(MUTATIONS)} mutations + 6 generate_all tests, {bad} unexpected outcome(s)")
    return 1 if bad else 0


if __name__ == "__main__":
    sys.exit(main())

"""Table of the Python functions whose Gallina model is regenerated from /repo on every run.
Merged from harness/specs/Cxx.py (one file per property, each defining SPECS = {GenModuleName: spec})."""
import importlib
import pkgutil

import specs

SPECS = {}
for _m in sorted(pkgutil.iter_modules(specs.__path__), key=lambda m: m.name):
    _mod = importlib.import_module(f"specs.{_m.name}")
    for _k, _v in _mod.SPECS.items():
        if _k in SPECS:
            raise RuntimeError(f"duplicate Gen module name {_k}")
        SPECS[_k] = _v
